// Package shrink minimises a failing choice tape.
package shrink

import (
	"time"

	"github.com/lni/dragonboat/v4/verifsim/realclock"
)

// Test re-executes a candidate tape and reports whether the same violation
// class is still reported, and how many draws the run consumed before the
// violation (used to truncate).
type Test func(tape []uint32) (same bool, used int)

// Stats describes the work done.
type Stats struct {
	Execs    int
	From, To int
	NonZero  int
}

// Shrink minimises tape under test, bounded by wall clock and executions.
func Shrink(tape []uint32, test Test, budget time.Duration, maxExecs int) ([]uint32, Stats) {
	st := Stats{From: len(tape)}
	deadline := realclock.Now() + budget
	cur := append([]uint32(nil), tape...)
	out := func() bool { return st.Execs >= maxExecs || realclock.Now() > deadline }
	try := func(c []uint32) bool {
		if out() {
			return false
		}
		st.Execs++
		ok, used := test(c)
		if ok {
			if used > 0 && used < len(c) {
				c = c[:used]
			}
			cur = append(cur[:0:0], c...)
		}
		return ok
	}
	// 0. truncate trailing part that was never consumed
	try(cur)
	trim := func() {
		for len(cur) > 0 && cur[len(cur)-1] == 0 {
			cur = cur[:len(cur)-1]
		}
	}
	improved := true
	for improved && !out() {
		improved = false
		// 1. zero blocks (keeps alignment: usually the most effective step)
		for sz := len(cur) / 2; sz >= 1 && !out(); sz /= 2 {
			for i := 0; i+sz <= len(cur) && !out(); i += sz {
				allZero := true
				for _, v := range cur[i : i+sz] {
					if v != 0 {
						allZero = false
						break
					}
				}
				if allZero {
					continue
				}
				c := append([]uint32(nil), cur...)
				for j := i; j < i+sz; j++ {
					c[j] = 0
				}
				if try(c) {
					improved = true
				}
			}
		}
		trim()
		// 2. delete blocks
		for sz := len(cur) / 2; sz >= 1 && !out(); sz /= 2 {
			for i := 0; i+sz <= len(cur) && !out(); {
				c := append([]uint32(nil), cur[:i]...)
				c = append(c, cur[i+sz:]...)
				if try(c) {
					improved = true
				} else {
					i += sz
				}
			}
		}
		trim()
		// 3. lower single values
		for i := 0; i < len(cur) && !out(); i++ {
			if cur[i] == 0 {
				continue
			}
			for _, nv := range []uint32{0, cur[i] / 2, cur[i] - 1} {
				if nv >= cur[i] {
					continue
				}
				c := append([]uint32(nil), cur...)
				c[i] = nv
				if try(c) {
					improved = true
					break
				}
			}
		}
		trim()
	}
	st.To = len(cur)
	for _, v := range cur {
		if v != 0 {
			st.NonZero++
		}
	}
	return cur, st
}

// Package coro runs pieces of the code under test as tasks of which exactly
// one is released at a time by a scheduler. A task runs until it finishes,
// parks at a yield point (Yield), or blocks on something another task holds
// (a mutex, a channel, a WaitGroup); the last case is detected by inspecting
// goroutine states, never by a timeout, so the scheduler's view is a function
// of the program state only.
package coro

import (
	"bytes"
	"fmt"
	"runtime"
	"strconv"
	"sync"
	"time"
)

// Poisoned is the panic value delivered to a task that is resumed after its
// host died; it unwinds the task.
type Poisoned struct{}

// State of a task as known to the scheduler.
type State int

const (
	Running State = iota // released, no signal yet (may be blocked)
	Parked               // waiting in Yield
	Done
)

// Task is one coroutine.
type Task struct {
	Name    string
	Host    int
	Owner   string
	Point   string // yield point it is parked at
	PointA  uint64
	goid    int64
	resume  chan bool // true = poison
	state   State
	Blocked bool        // Running but blocked according to the last inspection
	Panic   interface{} // panic value if the task function panicked (not Poisoned)
	Stack   string
	Dead    bool // host crashed; task will be poisoned when resumed
	OnDone  func(*Task)
	// Unwind is set (by ParkHook) when the task parks while holding something
	// process wide that other hosts need: such a task is unwound when its host
	// dies, all others are simply left parked for ever.
	Unwind bool
}

// State returns the scheduler's view of the task.
func (t *Task) State() State { return t.state }

type sigMsg struct {
	t     *Task
	st    State
	point string
	arg   uint64
}

// Exec is the executor.
type Exec struct {
	mu        sync.Mutex
	byGoid    map[int64]*Task
	sig       chan sigMsg
	live      []*Task // not Done, in creation order
	timer     *time.Timer
	buf       []byte
	Polls     int64
	Steps     int64
	schedGoid int64
	// Base is the number of goroutines that existed before the executor was
	// created (they are assumed to stay idle); AlwaysInspect forces a goroutine
	// state inspection after every step (needed when the code under test owns
	// background goroutines).
	Base          int
	baseline      map[int64]bool // goroutines that existed before New: ignored
	AlwaysInspect bool
	// YieldFilter, when set, decides at a yield point whether the task really
	// parks (it is called on the task's goroutine while the scheduler waits,
	// so it may draw from the choice source).
	YieldFilter func(t *Task, point string, arg uint64) bool
	// ParkHook is called on the task's goroutine right before it parks.
	ParkHook func(t *Task)
	zombies  int // tasks of dead hosts left parked or blocked for ever
}

// New creates an executor; the calling goroutine is the scheduler.
func New() *Exec {
	e := &Exec{byGoid: map[int64]*Task{}, sig: make(chan sigMsg, 1024),
		buf: make([]byte, 1<<20)}
	e.schedGoid = Goid()
	e.Base = runtime.NumGoroutine() - 1
	e.baseline = map[int64]bool{}
	if e.Base > 0 {
		e.scan(func(id int64, blocked bool) { e.baseline[id] = true })
	}
	e.timer = time.NewTimer(time.Hour)
	e.timer.Stop()
	return e
}

// Goid returns the id of the calling goroutine.
func Goid() int64 {
	var buf [64]byte
	n := runtime.Stack(buf[:], false)
	// "goroutine 123 ["
	b := buf[:n]
	b = b[len("goroutine "):]
	i := bytes.IndexByte(b, ' ')
	id, _ := strconv.ParseInt(string(b[:i]), 10, 64)
	return id
}

// Current returns the task of the calling goroutine, or nil.
func (e *Exec) Current() *Task {
	id := Goid()
	e.mu.Lock()
	t := e.byGoid[id]
	e.mu.Unlock()
	return t
}

// Live returns the tasks that are not done, in creation order.
func (e *Exec) Live() []*Task { return e.live }

// Start creates a task running fn and lets it run until it settles.
func (e *Exec) Start(name string, host int, owner string, fn func()) *Task {
	t := &Task{Name: name, Host: host, Owner: owner, resume: make(chan bool, 1), state: Running}
	e.live = append(e.live, t)
	ready := make(chan struct{})
	go func() {
		t.goid = Goid()
		e.mu.Lock()
		e.byGoid[t.goid] = t
		e.mu.Unlock()
		close(ready)
		defer func() {
			if r := recover(); r != nil {
				if _, ok := r.(Poisoned); !ok {
					t.Panic = r
					buf := make([]byte, 16384)
					t.Stack = string(buf[:runtime.Stack(buf, false)])
				}
			}
			e.mu.Lock()
			delete(e.byGoid, t.goid)
			e.mu.Unlock()
			e.sig <- sigMsg{t: t, st: Done}
		}()
		fn()
	}()
	<-ready
	e.Steps++
	e.settle()
	return t
}

// Resume releases a parked task and waits until everything settles.
func (e *Exec) Resume(t *Task) {
	if t.state != Parked {
		panic("coro: resume of a task that is not parked: " + t.Name)
	}
	t.state = Running
	t.Point = ""
	e.Steps++
	t.resume <- t.Dead
	e.settle()
}

// Yield parks the calling task (no-op on goroutines that are not tasks).
func (e *Exec) Yield(point string, arg uint64) {
	t := e.Current()
	if t == nil {
		return
	}
	if t.Dead {
		panic(Poisoned{})
	}
	if e.YieldFilter != nil && !e.YieldFilter(t, point, arg) {
		return
	}
	if e.ParkHook != nil {
		e.ParkHook(t)
	}
	e.sig <- sigMsg{t: t, st: Parked, point: point, arg: arg}
	if poison := <-t.resume; poison {
		panic(Poisoned{})
	}
}

func (e *Exec) drain() {
	for {
		select {
		case t := <-e.sig:
			e.noteSignal(t)
		default:
			return
		}
	}
}

func (e *Exec) noteSignal(m sigMsg) {
	t := m.t
	t.state = m.st
	t.Point = m.point
	t.PointA = m.arg
	t.Blocked = false
	if t.state == Done {
		found := false
		for i, x := range e.live {
			if x == t {
				e.live = append(e.live[:i], e.live[i+1:]...)
				found = true
				break
			}
		}
		if !found && t.Dead && e.zombies > 0 {
			e.zombies-- // a zombie got unblocked and ran to its end
		}
		if t.OnDone != nil {
			t.OnDone(t)
		}
	}
}

func (e *Exec) anyRunning() bool {
	for _, t := range e.live {
		if t.state == Running {
			return true
		}
	}
	return false
}

// Settle waits until no goroutine other than the scheduler can make progress.
func (e *Exec) Settle() { e.settle() }

func (e *Exec) settle() {
	spins := 0
	for {
		e.drain()
		running := e.anyRunning()
		if !running && !e.AlwaysInspect && runtime.NumGoroutine() <= 1+e.Base+e.zombies+len(e.live) {
			return
		}
		if running {
			// wait a moment for the usual case: the task signals quickly
			e.timer.Reset(40 * time.Microsecond)
			select {
			case t := <-e.sig:
				if !e.timer.Stop() {
					select {
					case <-e.timer.C:
					default:
					}
				}
				e.noteSignal(t)
				continue
			case <-e.timer.C:
			}
		}
		if e.quiescent() {
			e.drain()
			if !e.anyRunningUnblocked() {
				return
			}
		}
		spins++
		if spins > 4 {
			time.Sleep(20 * time.Microsecond)
		} else {
			runtime.Gosched()
		}
		if spins > 3000000 {
			panic("coro: settle did not converge (a goroutine keeps running)")
		}
	}
}

func (e *Exec) anyRunningUnblocked() bool {
	for _, t := range e.live {
		if t.state == Running && !t.Blocked {
			return true
		}
	}
	return false
}

var blockedStates = [][]byte{
	[]byte("chan receive"), []byte("chan send"), []byte("select"),
	[]byte("sync.Mutex.Lock"), []byte("sync.RWMutex.RLock"), []byte("sync.RWMutex.Lock"),
	[]byte("sync.Cond.Wait"), []byte("sync.WaitGroup.Wait"), []byte("semacquire"),
	[]byte("IO wait"),
}

// scan calls f for every goroutine with its id and whether it is blocked.
func (e *Exec) scan(f func(id int64, blocked bool)) {
	var n int
	for {
		n = runtime.Stack(e.buf, true)
		if n < len(e.buf) {
			break
		}
		e.buf = make([]byte, 2*len(e.buf))
	}
	b := e.buf[:n]
	for len(b) > 0 {
		if !bytes.HasPrefix(b, []byte("goroutine ")) {
			i := bytes.IndexByte(b, '\n')
			if i < 0 {
				break
			}
			b = b[i+1:]
			continue
		}
		nl := bytes.IndexByte(b, '\n')
		if nl < 0 {
			nl = len(b)
		}
		line := b[len("goroutine "):nl]
		sp := bytes.IndexByte(line, ' ')
		id, _ := strconv.ParseInt(string(line[:sp]), 10, 64)
		st := line[sp+2:] // skip " ["
		isBlocked := false
		for _, p := range blockedStates {
			if bytes.HasPrefix(st, p) {
				isBlocked = true
				break
			}
		}
		f(id, isBlocked)
		j := bytes.Index(b, []byte("\n\n"))
		if j < 0 {
			break
		}
		b = b[j+2:]
	}
}

// quiescent inspects all goroutines: true iff every goroutine other than the
// scheduler (and those that predate the executor) is blocked. It also
// refreshes Task.Blocked.
func (e *Exec) quiescent() bool {
	e.Polls++
	quiet := true
	blockedIDs := map[int64]bool{}
	e.scan(func(id int64, blocked bool) {
		if id == e.schedGoid || e.baseline[id] {
			return
		}
		if blocked {
			blockedIDs[id] = true
		} else {
			quiet = false
		}
	})
	for _, t := range e.live {
		if t.state == Running {
			t.Blocked = blockedIDs[t.goid]
		}
	}
	return quiet
}

// KillHost marks every live task of host as dead. Dead tasks are not unwound
// (unwinding would run the deferred calls of the code under test in states it
// never sees in production): parked and blocked ones are left as they are, for
// ever, and no longer counted as live. The exception are tasks that parked
// holding something process wide (Task.Unwind): they are resumed with poison
// so that their deferred unlocks run.
func (e *Exec) KillHost(host int) {
	var unwind []*Task
	keep := e.live[:0]
	for _, t := range e.live {
		if t.Host != host {
			keep = append(keep, t)
			continue
		}
		t.Dead = true
		if t.state == Parked && t.Unwind {
			unwind = append(unwind, t)
			keep = append(keep, t)
			continue
		}
		// parked or blocked: becomes a zombie goroutine
		e.zombies++
	}
	e.live = keep
	for _, t := range unwind {
		if t.state == Parked {
			e.Resume(t)
		}
	}
}

// Zombies returns the number of goroutines left behind by dead hosts.
func (e *Exec) Zombies() int { return e.zombies }

// Describe lists live tasks (for traces).
func (e *Exec) Describe() string {
	s := ""
	for _, t := range e.live {
		s += fmt.Sprintf("[%s h%d st=%d blk=%t at=%s] ", t.Name, t.Host, t.state, t.Blocked, t.Point)
	}
	return s
}

package coro

import (
	"sync"
	"testing"
)

func TestBasic(t *testing.T) {
	e := New()
	var mu sync.Mutex
	order := []string{}
	a := e.Start("a", 0, "a", func() {
		mu.Lock()
		order = append(order, "a1")
		e.Yield("p", 1)
		order = append(order, "a2")
		mu.Unlock()
	})
	if a.State() != Parked {
		t.Fatalf("a state %v", a.State())
	}
	b := e.Start("b", 0, "b", func() {
		mu.Lock()
		order = append(order, "b1")
		mu.Unlock()
	})
	if b.State() != Running || !b.Blocked {
		t.Fatalf("b should be blocked: %v %v", b.State(), b.Blocked)
	}
	e.Resume(a)
	if a.State() != Done || b.State() != Done {
		t.Fatalf("states %v %v", a.State(), b.State())
	}
	if len(order) != 3 || order[2] != "b1" {
		t.Fatalf("order %v", order)
	}
	c := e.Start("c", 1, "c", func() {
		defer func() { order = append(order, "c-unwound") }()
		e.Yield("q", 0)
		order = append(order, "c-not-reached")
	})
	c.Unwind = true
	e.KillHost(1)
	if c.State() != Done || order[len(order)-1] != "c-unwound" {
		t.Fatalf("kill failed %v %v", c.State(), order)
	}
	d := e.Start("d", 2, "d", func() {
		defer func() { order = append(order, "d-unwound") }()
		e.Yield("q", 0)
	})
	e.KillHost(2)
	if d.State() != Parked || e.Zombies() != 1 || order[len(order)-1] == "d-unwound" {
		t.Fatalf("zombie expected %v %d %v", d.State(), e.Zombies(), order)
	}
	if len(e.Live()) != 0 {
		t.Fatalf("live %d", len(e.Live()))
	}
}

func BenchmarkStep(b *testing.B) {
	e := New()
	for i := 0; i < b.N; i++ {
		e.Start("x", 0, "x", func() {})
	}
}

func BenchmarkYield(b *testing.B) {
	e := New()
	t := e.Start("x", 0, "x", func() {
		for {
			e.Yield("p", 0)
		}
	})
	b.ResetTimer()
	for i := 0; i < b.N; i++ {
		e.Resume(t)
	}
}

package simhost

import (
	"encoding/binary"
	"io"
	"time"

	"github.com/lni/dragonboat/v4/config"
	sm "github.com/lni/dragonboat/v4/statemachine"
)

// The ballast shard (param ballast=1): a second shard on every host, with that
// host as its only member, a counter as state machine and no oracle of its own.
// It is there to occupy what the shards of one NodeHost share - above all the
// snapshot worker pool, whose workers it keeps busy with snapshots that park
// at a yield point - so that jobs of the shard under test have to queue.
const ballastBase = 1000

func ballastShard(h *Host) uint64 { return ballastBase + uint64(h.id) }

type ballastSM struct {
	s *Sim
	n uint64
}

func (b *ballastSM) Update(e sm.Entry) (sm.Result, error) {
	b.n++
	return sm.Result{Value: b.n}, nil
}

func (b *ballastSM) Lookup(interface{}) (interface{}, error) { return b.n, nil }

func (b *ballastSM) SaveSnapshot(w io.Writer, _ sm.ISnapshotFileCollection, _ <-chan struct{}) error {
	b.s.ex.Yield("sm.ballast.save", 0)
	var d [8]byte
	binary.LittleEndian.PutUint64(d[:], b.n)
	_, err := w.Write(d[:])
	return err
}

func (b *ballastSM) RecoverFromSnapshot(r io.Reader, _ []sm.SnapshotFile, _ <-chan struct{}) error {
	var d [8]byte
	if _, err := io.ReadFull(r, d[:]); err != nil {
		return err
	}
	b.n = binary.LittleEndian.Uint64(d[:])
	return nil
}

func (b *ballastSM) Close() error { return nil }

func (s *Sim) startBallast(h *Host) {
	id := ballastShard(h)
	c := config.Config{ReplicaID: h.replicaID, ShardID: id, ElectionRTT: s.cfg.ElectionRTT, HeartbeatRTT: s.cfg.HeartbeatRTT,
		SnapshotEntries: 3, CompactionOverhead: 1}
	members := map[uint64]string{h.replicaID: h.addr}
	if h.ballastStarted {
		members = nil
	}
	mk := func(uint64, uint64) sm.IStateMachine { return &ballastSM{s: s} }
	err := h.nh.StartReplica(members, false, mk, c)
	if err != nil && members == nil {
		// the bootstrap record did not survive the crash: first start again
		err = h.nh.StartReplica(map[uint64]string{h.replicaID: h.addr}, false, mk, c)
	}
	if err != nil {
		panic("verifsim: ballast shard does not start: " + err.Error())
	}
	h.ballastStarted = true
}

// ballastTraffic keeps the ballast shard of a random host snapshotting.
func (s *Sim) ballastTraffic() {
	ups := s.upHosts()
	if len(ups) == 0 {
		return
	}
	h := ups[s.src.Intn(len(ups))]
	if h.nh == nil || h.booting || s.stalled(h.id) || h.busy["ballast"] != nil {
		return
	}
	nh, id := h.nh, ballastShard(h)
	s.ctx.Count("ev.ballast_propose", 1)
	s.runTask("ballast", h, "ballast", func() {
		_, _ = nh.Propose(nh.GetNoOPSession(id), []byte{1}, 50*time.Millisecond)
	})
}

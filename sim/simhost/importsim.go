package simhost

import (
	"fmt"
	"sort"
	"strings"

	dragonboat "github.com/lni/dragonboat/v4"
	"github.com/lni/dragonboat/v4/internal/fileutil"
	"github.com/lni/dragonboat/v4/internal/server"
	pb "github.com/lni/dragonboat/v4/raftpb"
	"github.com/lni/dragonboat/v4/tools"
	"github.com/lni/dragonboat/v4/verifsim/coro"
	"github.com/lni/dragonboat/v4/verifsim/runner"
)

// RunImport is the C20 scenario: a random history, an exported snapshot at a
// random point, more history, loss of all hosts, tools.ImportSnapshot on every
// listed host with a new member list (valid or invalid; export directory intact
// or damaged), restart, workload.
func RunImport(ctx *runner.Ctx) *runner.Result {
	s := newSim(ctx, func(c *Cfg) {
		if c.Hosts < 3 {
			c.Hosts = 3
		}
		if c.Voters >= c.Hosts {
			c.Voters = c.Hosts - 1 // keep at least one fresh host
		}
		c.PCrash, c.PStop, c.PRestart = 0, 0, 0
		c.Sessions = false
		c.NotifyCommit = false
		if c.Steps > 1200 {
			c.Steps = 1200
		}
	})
	defer s.teardown()
	s.importMode = true
	s.bootAll()
	s.faultsOn = true
	pre := s.cfg.Steps/4 + s.src.Intn(s.cfg.Steps/2+1)
	for s.step = 0; s.step < pre && !ctx.Violated(); s.step++ {
		s.oneStep()
		s.afterStep()
	}
	if ctx.Violated() {
		return s.finish()
	}
	// ---- export ----
	exp := s.exportSnapshot()
	if exp == nil || ctx.Violated() {
		s.ctx.Count("probe.export_failed", 1)
		return s.finish()
	}
	s.ctx.Count("probe.exported", 1)
	// more history after the export (it will be lost)
	post := s.src.Intn(s.cfg.Steps/4 + 1)
	for i := 0; i < post && !ctx.Violated(); i++ {
		s.oneStep()
		s.afterStep()
	}
	if ctx.Violated() {
		return s.finish()
	}
	// ---- quorum loss: everything goes down ----
	s.faultsOn = false
	s.healAll()
	for _, h := range s.hosts {
		if h.up || h.booting {
			s.crashHost(h, false)
		}
	}
	for _, c := range s.clients {
		c.abandonAll()
	}
	s.admin = nil
	s.doImport(exp)
	return s.finish()
}

type exported struct {
	host  *Host
	dir   string // directory of the exported snapshot on host's disk
	index uint64
	old   *memView
	state *smState // expected user state: all applied entries with index <= index
}

func (s *Sim) exportSnapshot() *exported {
	var cands []*Host
	for _, h := range s.runningHosts() {
		if h.role != roleWitness && !h.removed && h.sm != nil && h.sm.Updates > 0 {
			cands = append(cands, h)
		}
	}
	if len(cands) == 0 {
		return nil
	}
	h := cands[s.src.Intn(len(cands))]
	view := h.disk.View()
	s.runTask("mkexport", h, "", func() {
		_ = view.MkdirAll("/export", 0o755)
		if d, err := view.OpenDir("/"); err == nil {
			_ = d.Sync()
			_ = d.Close()
		}
	})
	a := &adminReq{what: "export", host: h}
	s.issueAdmin(a, func(nh *dragonboat.NodeHost) (*dragonboat.RequestState, error) {
		return nh.RequestSnapshot(shardID, dragonboat.SnapshotOption{Exported: true, ExportPath: "/export"}, s.adminTimeout())
	})
	if a.rs == nil {
		return nil
	}
	s.exportIndex = 0
	for i := 0; i < 4000 && !s.ctx.Violated(); i++ {
		s.oneStep()
		s.afterStep()
		if s.exportIndex > 0 {
			break
		}
		found := false
		for _, x := range s.admin {
			if x == a {
				found = true
			}
		}
		if !found {
			break
		}
	}
	if s.exportIndex == 0 {
		return nil
	}
	e := &exported{host: h, index: s.exportIndex}
	// locate the exported directory
	names, err := h.disk.Mem().List("/export")
	if err != nil || len(names) == 0 {
		return nil
	}
	sort.Strings(names)
	for _, n := range names {
		if strings.HasPrefix(n, "snapshot-") && !strings.HasSuffix(n, ".generating") {
			e.dir = "/export/" + n
		}
	}
	if e.dir == "" {
		return nil
	}
	// the membership captured by the export is the one recorded in its metadata
	var meta pb.Snapshot
	if err := fileutil.GetFlagFileContent(e.dir, server.MetadataFilename, &meta, h.disk.View()); err != nil {
		return nil
	}
	e.old = toMemView(meta.Membership, h.id)
	if meta.Index != e.index {
		s.ctx.Violate("C20", "export-index", "exported snapshot metadata says index %d, the request reported %d", meta.Index, e.index)
	}
	// expected state: replay of every user entry up to the export index
	st := newSMState()
	idxs := make([]uint64, 0, len(s.orc.appliedAt))
	for i := range s.orc.appliedAt {
		if i <= e.index {
			idxs = append(idxs, i)
		}
	}
	sort.Slice(idxs, func(a, b int) bool { return idxs[a] < idxs[b] })
	for _, i := range idxs {
		r := s.orc.appliedAt[i]
		st.apply(i, MakeCmd(r.key, r.wid, 0))
	}
	e.state = st
	return e
}

// copyTree copies dir from one disk to another (durably).
func copyTree(from, to *Host, dir string) {
	src, dst := from.disk, to.disk
	_ = dst.Mem().MkdirAll(dir, 0o755)
	src.Walk(dir, func(path string, isDir bool) {
		if isDir {
			_ = dst.Mem().MkdirAll(path, 0o755)
			return
		}
		b, err := src.ReadFile(path)
		if err != nil {
			return
		}
		f, err := dst.Mem().Create(path)
		if err != nil {
			return
		}
		_, _ = f.Write(b)
		_ = f.Sync()
		_ = f.Close()
	})
	dst.SyncAll()
}

func (s *Sim) doImport(e *exported) {
	src := s.src
	// ---- the new member list ----
	var oldMembers, fresh []*Host
	for _, h := range s.hosts {
		id := h.replicaID
		switch {
		case e.old.voters[id] != "":
			oldMembers = append(oldMembers, h)
		case e.old.nonVoting[id] == "" && e.old.witnesses[id] == "" && !e.old.removed[id]:
			// unknown to the exported membership: as good as a fresh host for the
			// import, provided it has never been part of the shard
			if !h.joined && !h.removed && !h.addIssued {
				fresh = append(fresh, h)
			}
		}
	}
	var listed []*Host
	switch src.Intn(3) {
	case 0: // subset of the old members (at least one)
		for _, h := range oldMembers {
			if len(listed) == 0 || src.Intn(2) == 0 {
				listed = append(listed, h)
			}
		}
	case 1: // single member
		all := append(append([]*Host{}, oldMembers...), fresh...)
		if len(all) > 0 {
			listed = []*Host{all[src.Intn(len(all))]}
		}
	default: // some old members plus fresh hosts, possibly only fresh ones
		for _, h := range oldMembers {
			if src.Intn(2) == 0 {
				listed = append(listed, h)
			}
		}
		for _, h := range fresh {
			if len(listed) == 0 || src.Intn(2) == 0 {
				listed = append(listed, h)
			}
		}
	}
	if len(listed) == 0 {
		return
	}
	members := map[uint64]string{}
	for _, h := range listed {
		members[h.replicaID] = h.addr
	}
	// ---- faults of the import itself ----
	// 0 none; 1 importing replica missing from the list; 2 wrong address for
	// the importing replica; 3 re-admit a removed replica; 4 changed address of
	// an old member; 5 kind change (old non-voting/witness listed as member);
	// 6 snapshot file missing; 7 bit flip in the snapshot file; 8 metadata truncated
	fault := src.Weighted([]int{6, 1, 1, 1, 1, 1, 1, 2, 1})
	invalid := ""
	var removedOld, otherKind []uint64
	if e.old != nil {
		for id := range e.old.removed {
			removedOld = append(removedOld, id)
		}
		for id := range e.old.nonVoting {
			otherKind = append(otherKind, id)
		}
		for id := range e.old.witnesses {
			otherKind = append(otherKind, id)
		}
		sort.Slice(removedOld, func(a, b int) bool { return removedOld[a] < removedOld[b] })
		sort.Slice(otherKind, func(a, b int) bool { return otherKind[a] < otherKind[b] })
	}
	importer := listed[src.Intn(len(listed))]
	callMembers := members
	clone := func() map[uint64]string {
		m := map[uint64]string{}
		for k, v := range members {
			m[k] = v
		}
		return m
	}
	switch fault {
	case 1:
		m := clone()
		delete(m, importer.replicaID)
		if len(m) > 0 {
			callMembers, invalid = m, "importing replica not in the member list"
		}
	case 2:
		m := clone()
		m[importer.replicaID] = "elsewhere:1"
		callMembers, invalid = m, "importing replica listed at another address"
	case 3:
		if len(removedOld) > 0 {
			m := clone()
			id := removedOld[src.Intn(len(removedOld))]
			m[id] = fmt.Sprintf("h%d:1", id)
			callMembers, invalid = m, "re-admits a removed replica"
		}
	case 4:
		for _, h := range oldMembers {
			if h != importer {
				m := clone()
				m[h.replicaID] = "moved:1"
				callMembers, invalid = m, "changes the address of a member"
				break
			}
		}
	case 5:
		if len(otherKind) > 0 {
			m := clone()
			id := otherKind[src.Intn(len(otherKind))]
			m[id] = fmt.Sprintf("h%d:1", id)
			if e.old.nonVoting[id] != "" {
				m[id] = e.old.nonVoting[id]
			} else {
				m[id] = e.old.witnesses[id]
			}
			callMembers, invalid = m, "changes the kind of a member"
		}
	}
	// ---- copy the export directory to every listed host ----
	for _, h := range listed {
		if h != e.host {
			copyTree(e.host, h, e.dir)
		}
	}
	corrupt := ""
	if invalid == "" {
		switch fault {
		case 6, 7, 8:
			files := []string{}
			importer.disk.Walk(e.dir, func(path string, isDir bool) {
				if !isDir {
					files = append(files, path)
				}
			})
			for _, f := range files {
				b, _ := importer.disk.ReadFile(f)
				isSnap := strings.HasSuffix(f, ".gbsnap")
				switch {
				case fault == 6 && isSnap:
					_ = importer.disk.Mem().Remove(f)
					corrupt = "snapshot file missing"
				case fault == 7 && isSnap && len(b) > 0:
					bit := src.Intn(len(b) * 8)
					b[bit/8] ^= 1 << uint(bit%8)
					if w, err := importer.disk.Mem().Create(f); err == nil {
						_, _ = w.Write(b)
						_ = w.Sync()
						_ = w.Close()
					}
					corrupt = fmt.Sprintf("bit %d of the snapshot file flipped", bit)
					s.flipBit = bit
					s.flipLen = len(b)
				case fault == 8 && strings.HasSuffix(f, "snapshot.metadata") && len(b) > 1:
					cut := src.Intn(len(b))
					if w, err := importer.disk.Mem().Create(f); err == nil {
						_, _ = w.Write(b[:cut])
						_ = w.Sync()
						_ = w.Close()
					}
					corrupt = fmt.Sprintf("metadata truncated to %d bytes", cut)
				}
			}
			importer.disk.SyncAll()
		}
	}
	s.ctx.Ev("import", uint64(importer.id), uint64(len(listed)), uint64(fault))
	s.ctx.Tracef("import: listed=%d fault=%d invalid=%q corrupt=%q index=%d", len(listed), fault, invalid, corrupt, e.index)
	// ---- run the imports ----
	for _, h := range listed {
		h := h
		m := members
		if h == importer {
			m = callMembers
		}
		before := h.disk.Snapshot()
		h.busy = map[string]*coro.Task{}
		var ierr error
		var ipanic interface{}
		nhc := s.nodeHostConfig(h)
		s.runTask("import", h, "boot", func() {
			defer func() {
				if r := recover(); r != nil {
					ipanic = r
				}
			}()
			ierr = tools.ImportSnapshot(nhc, e.dir, m, h.replicaID)
		})
		// let the import finish (it parks at file system yield points)
		for guard := 0; guard < 100000 && h.busy != nil && h.busy["boot"] != nil; guard++ {
			t := h.busy["boot"]
			s.ex.Resume(t)
			s.checkTask(t)
		}
		refused := ierr != nil || ipanic != nil
		s.ctx.Count("ev.import_call", 1)
		if h == importer && (invalid != "" || corrupt != "") {
			if invalid != "" {
				s.ctx.Count("fault.import_invalid_members", 1)
			} else {
				s.ctx.Count("fault.import_corrupt_export", 1)
			}
			if refused {
				s.ctx.Count("probe.import_refused", 1)
				after := h.disk.Snapshot()
				if d := diffTrees(before, after, e.dir); d != "" {
					s.ctx.Violate("C20", "refused-import-modified-data", "ImportSnapshot refused (%s%s: %v%v) but changed the disk: %s", invalid, corrupt, ierr, ipanic, d)
				}
				return // the repair is abandoned
			}
			if invalid != "" {
				s.ctx.Violate("C20", "invalid-import-accepted", "ImportSnapshot accepted a member list that %s", invalid)
				return
			}
			if fault == 6 || fault == 8 {
				s.ctx.Violate("C20", "corrupt-export-accepted", "ImportSnapshot accepted an export with %s", corrupt)
				return
			}
			// a flipped bit the recorded checksum does not cover (header): the
			// import was accepted; the restart must give exactly the exported
			// state or fail loudly
			s.ctx.Count("probe.import_accepted_flipped_bit", 1)
			s.importFlipAccepted = true
		} else if refused {
			s.ctx.Violate("C20", "valid-import-refused", "ImportSnapshot of a valid export with a valid member list failed on replica %d: %v %v", h.replicaID, ierr, ipanic)
			return
		}
	}
	// ---- restart the listed hosts; everybody else is gone for good ----
	s.expected = e
	s.expectedMembers = members
	for _, h := range s.hosts {
		h.removed = true
		h.joined = false
	}
	for _, h := range listed {
		h.removed, h.joined, h.initial = false, true, false
		h.imported = true
		h.role, h.joinRole = roleVoter, roleVoter
		h.selfRemoved = false
	}
	s.orc.latest = nil
	s.orc.lastCCID = 0
	s.orc.memByCCID = map[uint64]*memView{}
	s.orc.commitTerm = map[uint64]commitRec{} // the repaired shard starts a new history at the export
	s.orc.commitSeen = map[int][2]uint64{}
	s.orc.campaigns = nil
	s.orc.everRemoved = map[uint64]uint64{}
	for i := range s.orc.lastMem {
		s.orc.lastMem[i] = nil
	}
	for _, h := range listed {
		s.restartHost(h)
	}
	// fair fault free phase: leader, new proposals, convergence
	budget := int(s.cfg.ElectionRTT) * 60
	if !s.fairRounds(budget, func() bool { return s.orc.stableLeader() }) {
		if !s.ctx.Violated() {
			if s.importFlipAccepted {
				s.ctx.Count("probe.import_flipped_failed_loudly", 1)
				return
			}
			s.orc.livenessFailedFor("C20", "no leader after the import")
		}
		return
	}
	s.checkImportedState(listed)
	for _, c := range s.clients {
		c.beginFinal()
	}
	if !s.fairRounds(budget, s.finalDone) {
		if !s.ctx.Violated() {
			s.orc.livenessFailedFor("C20", "requests after the import")
		}
		return
	}
	s.ctx.Count("probe.import_completed", 1)
	// the restart path of an imported replica is taken again on every restart
	// until a newer snapshot replaces the imported record (meanwhile the image
	// of an on-disk state machine has been shrunk): in half of the runs all
	// imported replicas lose power once more and are started again
	if !s.ctx.Violated() && s.src.Chance(1, 2) {
		s.ctx.Ev("import.second_restart")
		s.ctx.Count("probe.import_second_restart", 1)
		for _, c := range s.clients {
			c.abandonAll()
		}
		s.admin = nil
		for _, h := range listed {
			if h.up || h.booting {
				s.crashHost(h, false)
			}
		}
		for _, h := range listed {
			s.restartHost(h)
		}
		if !s.fairRounds(budget, func() bool { return s.orc.stableLeader() }) {
			if !s.ctx.Violated() {
				s.orc.livenessFailedFor("C20", "no leader after the second restart of the imported replicas")
			}
			return
		}
		for _, c := range s.clients {
			c.beginFinal()
		}
		if !s.fairRounds(budget, s.finalDone) {
			if !s.ctx.Violated() {
				s.orc.livenessFailedFor("C20", "requests after the second restart of the imported replicas")
			}
			return
		}
		s.ctx.Count("probe.import_second_restart_completed", 1)
	}
	if !s.ctx.Violated() {
		s.orc.finalChecks()
	}
}

// diffTrees compares two disk images, ignoring the export directory itself.
func diffTrees(a, b map[string]string, ignore string) string {
	for k, v := range a {
		if strings.HasPrefix(k, ignore) {
			continue
		}
		w, ok := b[k]
		if !ok {
			return "removed " + k
		}
		if w != v {
			return "changed " + k
		}
	}
	for k := range b {
		if strings.HasPrefix(k, ignore) {
			continue
		}
		if _, ok := a[k]; !ok {
			return "created " + k
		}
	}
	return ""
}

// checkImportedState: membership is exactly the given list, previous members
// not listed are recorded as removed, every replica's state equals the state
// captured by the export.
func (s *Sim) checkImportedState(listed []*Host) {
	e := s.expected
	for _, h := range listed {
		if !h.up || h.nh == nil || !s.orc.hostQuiet(h) {
			continue
		}
		r, ok := h.nh.VerifGetReplica(shardID)
		if !ok {
			continue
		}
		m := r.Membership()
		v := toMemView(m, h.id)
		// only compare while no membership change has been applied after the import
		if v.ccid == e.index {
			want := &memView{ccid: e.index, voters: map[uint64]string{}, nonVoting: map[uint64]string{}, witnesses: map[uint64]string{}, removed: map[uint64]bool{}}
			for id, a := range s.expectedMembers {
				want.voters[id] = a
			}
			if e.old != nil {
				for _, mm := range []map[uint64]string{e.old.voters, e.old.nonVoting, e.old.witnesses} {
					for id := range mm {
						if _, ok := s.expectedMembers[id]; !ok {
							want.removed[id] = true
						}
					}
				}
				for id := range e.old.removed {
					want.removed[id] = true
				}
			}
			if e.old != nil && !want.equal(v) {
				s.ctx.Violate("C20", "membership-differs", "replica %d after import: %s, want %s", h.replicaID, v, want)
			} else if e.old == nil {
				for id := range s.expectedMembers {
					if v.voters[id] == "" {
						s.ctx.Violate("C20", "membership-differs", "replica %d after import: %s lacks listed member %d", h.replicaID, v, id)
					}
				}
				if len(v.voters) != len(s.expectedMembers) || len(v.nonVoting)+len(v.witnesses) != 0 {
					s.ctx.Violate("C20", "membership-differs", "replica %d after import: %s, want exactly the %d listed members", h.replicaID, v, len(s.expectedMembers))
				}
			}
			s.ctx.Count("probe.import_membership_checked", 1)
		}
	}
}

var _ = pb.Snapshot{}

package simhost

import (
	"encoding/binary"
	"errors"
	"fmt"
	"io"
	"sort"

	sm "github.com/lni/dragonboat/v4/statemachine"
	gvfs "github.com/lni/vfs"
)

// SM kinds.
const (
	KindRegular    = 1
	KindConcurrent = 2
	KindOnDisk     = 3
)

// command layout: magic, key, 8 byte unique write id, padding
const cmdMagic = 0xC1

// MakeCmd encodes a write of the unique id wid to key.
func MakeCmd(key byte, wid uint64, pad int) []byte {
	b := make([]byte, 10+pad)
	b[0] = cmdMagic
	b[1] = key
	binary.LittleEndian.PutUint64(b[2:], wid)
	for i := 10; i < len(b); i++ {
		b[i] = byte(wid) + byte(i)
	}
	return b
}

// ParseCmd decodes a command.
func ParseCmd(b []byte) (key byte, wid uint64, ok bool) {
	if len(b) < 10 || b[0] != cmdMagic {
		return 0, 0, false
	}
	return b[1], binary.LittleEndian.Uint64(b[2:]), true
}

// KVVal is the value of a key: the id of the last write and the number of
// writes applied to the key.
type KVVal struct {
	Val uint64
	Ver uint64
}

// QueryKey is the Lookup query for one key; QueryAll returns a copy of the
// whole map; QueryApplied the count of applied user entries.
type QueryKey byte
type QueryAll struct{}

// smState is the user state (the reference model RefKV has the same shape).
type smState struct {
	kv      map[byte]KVVal
	applied uint64 // index of the last entry applied to the user SM
	count   uint64
}

func newSMState() *smState { return &smState{kv: map[byte]KVVal{}} }

func (s *smState) clone() *smState {
	c := &smState{kv: make(map[byte]KVVal, len(s.kv)), applied: s.applied, count: s.count}
	for k, v := range s.kv {
		c.kv[k] = v
	}
	return c
}

func (s *smState) apply(index uint64, cmd []byte) sm.Result {
	key, wid, ok := ParseCmd(cmd)
	s.applied = index
	if !ok {
		return sm.Result{Value: 0}
	}
	v := s.kv[key]
	v.Val = wid
	v.Ver++
	s.kv[key] = v
	s.count++
	if QuietWrite(wid) {
		return sm.Result{}
	}
	d := make([]byte, 8)
	binary.LittleEndian.PutUint64(d, v.Ver)
	return sm.Result{Value: wid, Data: d}
}

// QuietWrite: the state machine answers these writes with the empty result (a
// legal answer, and one that leaves no trace in a session's response cache
// unless the cache remembers empty results too).
func QuietWrite(wid uint64) bool { return wid%8 == 5 }

func (s *smState) encode() []byte {
	keys := make([]int, 0, len(s.kv))
	for k := range s.kv {
		keys = append(keys, int(k))
	}
	sort.Ints(keys)
	b := make([]byte, 0, 24+17*len(keys))
	var tmp [8]byte
	put := func(v uint64) {
		binary.LittleEndian.PutUint64(tmp[:], v)
		b = append(b, tmp[:]...)
	}
	put(s.applied)
	put(s.count)
	put(uint64(len(keys)))
	for _, k := range keys {
		b = append(b, byte(k))
		put(s.kv[byte(k)].Val)
		put(s.kv[byte(k)].Ver)
	}
	return b
}

func decodeSMState(b []byte) (*smState, error) {
	if len(b) < 24 {
		return nil, errors.New("short sm image")
	}
	s := newSMState()
	s.applied = binary.LittleEndian.Uint64(b[0:])
	s.count = binary.LittleEndian.Uint64(b[8:])
	n := binary.LittleEndian.Uint64(b[16:])
	b = b[24:]
	if uint64(len(b)) != n*17 {
		return nil, fmt.Errorf("bad sm image: %d keys, %d bytes", n, len(b))
	}
	for i := uint64(0); i < n; i++ {
		k := b[0]
		s.kv[k] = KVVal{Val: binary.LittleEndian.Uint64(b[1:]), Ver: binary.LittleEndian.Uint64(b[9:])}
		b = b[17:]
	}
	return s, nil
}

func (s *smState) hash() uint64 {
	h := uint64(1469598103934665603)
	for _, c := range s.encode()[8:] { // exclude applied (not part of user data for regular SMs)
		h = (h ^ uint64(c)) * 1099511628211
	}
	return h
}

// SMEnv is what the instrumented state machines report to.
type SMEnv interface {
	// SMEnter is called on entry of every user state machine method; it checks
	// the threading contract and may park the calling task.
	SMEnter(inst *SMInst, method string)
	SMExit(inst *SMInst, method string)
	// SMUpdate is called for every entry delivered to Update.
	SMUpdate(inst *SMInst, index uint64, cmd []byte, res sm.Result)
	// SMRecovered is called after a successful RecoverFromSnapshot / Open.
	SMRecovered(inst *SMInst, how string, applied uint64)
}

// SMInst is one user state machine instance (one incarnation of a replica).
type SMInst struct {
	env           SMEnv
	Host          int
	Inc           int
	Kind          int
	ShardID       uint64
	ReplicaID     uint64
	st            *smState
	fs            gvfs.FS // on disk SM: where its data lives
	path          string
	Active        map[string]int
	Closed        bool
	Opened        bool
	OpenIndex     uint64
	LastIndex     uint64 // last index handed to Update in this incarnation
	Updates       uint64
	Dead          func() bool
	importChecked bool
	DurableIndex  uint64 // on-disk SM: index of the last entry its durable image contains
}

func (i *SMInst) enter(m string) { i.env.SMEnter(i, m) }
func (i *SMInst) exit(m string)  { i.env.SMExit(i, m) }

func (i *SMInst) lookup(q interface{}) (interface{}, error) {
	switch v := q.(type) {
	case QueryKey:
		return i.st.kv[byte(v)], nil
	case QueryAll:
		return i.st.clone(), nil
	}
	return nil, errors.New("unknown query")
}

func (i *SMInst) save(st *smState, w io.Writer, mid func()) error {
	b := st.encode()
	var hdr [4]byte
	binary.LittleEndian.PutUint32(hdr[:], uint32(len(b)))
	if _, err := w.Write(hdr[:]); err != nil {
		return err
	}
	half := len(b) / 2
	if _, err := w.Write(b[:half]); err != nil {
		return err
	}
	if mid != nil {
		mid()
	}
	_, err := w.Write(b[half:])
	return err
}

func loadImage(r io.Reader) (*smState, error) {
	var hdr [4]byte
	if _, err := io.ReadFull(r, hdr[:]); err != nil {
		return nil, err
	}
	n := binary.LittleEndian.Uint32(hdr[:])
	if n > 1<<20 {
		return nil, fmt.Errorf("absurd sm image size %d", n)
	}
	b := make([]byte, n)
	if _, err := io.ReadFull(r, b); err != nil {
		return nil, err
	}
	return decodeSMState(b)
}

// ---- regular ----

type regularSM struct{ i *SMInst }

func (s *regularSM) Update(e sm.Entry) (sm.Result, error) {
	s.i.enter("Update")
	defer s.i.exit("Update")
	r := s.i.st.apply(e.Index, e.Cmd)
	s.i.env.SMUpdate(s.i, e.Index, e.Cmd, r)
	return r, nil
}

func (s *regularSM) Lookup(q interface{}) (interface{}, error) {
	s.i.enter("Lookup")
	defer s.i.exit("Lookup")
	return s.i.lookup(q)
}

func (s *regularSM) SaveSnapshot(w io.Writer, fc sm.ISnapshotFileCollection, done <-chan struct{}) error {
	s.i.enter("SaveSnapshot")
	defer s.i.exit("SaveSnapshot")
	return s.i.save(s.i.st, w, func() { s.i.env.SMEnter(s.i, "SaveSnapshot.mid"); s.i.env.SMExit(s.i, "SaveSnapshot.mid") })
}

func (s *regularSM) RecoverFromSnapshot(r io.Reader, files []sm.SnapshotFile, done <-chan struct{}) error {
	s.i.enter("RecoverFromSnapshot")
	defer s.i.exit("RecoverFromSnapshot")
	st, err := loadImage(r)
	if err != nil {
		return err
	}
	s.i.st = st
	s.i.env.SMRecovered(s.i, "recover", st.applied)
	return nil
}

func (s *regularSM) Close() error {
	s.i.enter("Close")
	defer s.i.exit("Close")
	return nil
}

func (s *regularSM) GetHash() (uint64, error) { return s.i.st.hash(), nil }

// ---- concurrent ----

type concurrentSM struct{ i *SMInst }

func (s *concurrentSM) Update(ents []sm.Entry) ([]sm.Entry, error) {
	s.i.enter("Update")
	defer s.i.exit("Update")
	for k := range ents {
		ents[k].Result = s.i.st.apply(ents[k].Index, ents[k].Cmd)
		s.i.env.SMUpdate(s.i, ents[k].Index, ents[k].Cmd, ents[k].Result)
	}
	return ents, nil
}

func (s *concurrentSM) Lookup(q interface{}) (interface{}, error) {
	s.i.enter("Lookup")
	defer s.i.exit("Lookup")
	return s.i.lookup(q)
}

func (s *concurrentSM) PrepareSnapshot() (interface{}, error) {
	s.i.enter("PrepareSnapshot")
	defer s.i.exit("PrepareSnapshot")
	return s.i.st.clone(), nil
}

func (s *concurrentSM) SaveSnapshot(ctx interface{}, w io.Writer, fc sm.ISnapshotFileCollection, done <-chan struct{}) error {
	s.i.enter("SaveSnapshot")
	defer s.i.exit("SaveSnapshot")
	return s.i.save(ctx.(*smState), w, func() { s.i.env.SMEnter(s.i, "SaveSnapshot.mid"); s.i.env.SMExit(s.i, "SaveSnapshot.mid") })
}

func (s *concurrentSM) RecoverFromSnapshot(r io.Reader, files []sm.SnapshotFile, done <-chan struct{}) error {
	s.i.enter("RecoverFromSnapshot")
	defer s.i.exit("RecoverFromSnapshot")
	st, err := loadImage(r)
	if err != nil {
		return err
	}
	s.i.st = st
	s.i.env.SMRecovered(s.i, "recover", st.applied)
	return nil
}

func (s *concurrentSM) Close() error {
	s.i.enter("Close")
	defer s.i.exit("Close")
	return nil
}

func (s *concurrentSM) GetHash() (uint64, error) { return s.i.st.hash(), nil }

// ---- on disk ----

type diskSM struct {
	i *SMInst
}

func (s *diskSM) Open(stopc <-chan struct{}) (uint64, error) {
	s.i.enter("Open")
	defer s.i.exit("Open")
	st := newSMState()
	f, err := s.i.fs.Open(s.i.path)
	if err == nil {
		defer f.Close()
		img, lerr := loadImage(f)
		if lerr != nil {
			return 0, lerr
		}
		st = img
	}
	s.i.st = st
	s.i.Opened = true
	s.i.DurableIndex = st.applied
	s.i.OpenIndex = st.applied
	s.i.env.SMRecovered(s.i, "open", st.applied)
	return st.applied, nil
}

func (s *diskSM) Update(ents []sm.Entry) ([]sm.Entry, error) {
	s.i.enter("Update")
	defer s.i.exit("Update")
	for k := range ents {
		ents[k].Result = s.i.st.apply(ents[k].Index, ents[k].Cmd)
		s.i.env.SMUpdate(s.i, ents[k].Index, ents[k].Cmd, ents[k].Result)
	}
	return ents, nil
}

func (s *diskSM) Lookup(q interface{}) (interface{}, error) {
	s.i.enter("Lookup")
	defer s.i.exit("Lookup")
	return s.i.lookup(q)
}

func (s *diskSM) persist() error {
	fs := s.i.fs
	dir := fs.PathDir(s.i.path)
	if _, err := fs.Stat(dir); err != nil {
		if err := fs.MkdirAll(dir, 0o755); err != nil {
			return err
		}
		// make the new directories durable: sync every ancestor
		for p := fs.PathDir(dir); ; p = fs.PathDir(p) {
			d, err := fs.OpenDir(p)
			if err != nil {
				return err
			}
			if err := d.Sync(); err != nil {
				d.Close()
				return err
			}
			d.Close()
			if p == "/" || p == "." || p == "" {
				break
			}
		}
	}
	tmp := s.i.path + ".tmp"
	f, err := fs.Create(tmp)
	if err != nil {
		return err
	}
	if err := s.i.save(s.i.st, f, nil); err != nil {
		f.Close()
		return err
	}
	if err := f.Sync(); err != nil {
		f.Close()
		return err
	}
	if err := f.Close(); err != nil {
		return err
	}
	if err := fs.Rename(tmp, s.i.path); err != nil {
		return err
	}
	d, err := fs.OpenDir(dir)
	if err != nil {
		return err
	}
	defer d.Close()
	if err := d.Sync(); err != nil {
		return err
	}
	s.i.DurableIndex = s.i.st.applied
	return nil
}

func (s *diskSM) Sync() error {
	s.i.enter("Sync")
	defer s.i.exit("Sync")
	return s.persist()
}

func (s *diskSM) PrepareSnapshot() (interface{}, error) {
	s.i.enter("PrepareSnapshot")
	defer s.i.exit("PrepareSnapshot")
	return s.i.st.clone(), nil
}

func (s *diskSM) SaveSnapshot(ctx interface{}, w io.Writer, done <-chan struct{}) error {
	s.i.enter("SaveSnapshot")
	defer s.i.exit("SaveSnapshot")
	return s.i.save(ctx.(*smState), w, func() { s.i.env.SMEnter(s.i, "SaveSnapshot.mid"); s.i.env.SMExit(s.i, "SaveSnapshot.mid") })
}

func (s *diskSM) RecoverFromSnapshot(r io.Reader, done <-chan struct{}) error {
	s.i.enter("RecoverFromSnapshot")
	defer s.i.exit("RecoverFromSnapshot")
	st, err := loadImage(r)
	if err != nil {
		return err
	}
	s.i.st = st
	// "RecoverFromSnapshot is not required to synchronize its recovered in-core
	// state with that on disk" (statemachine/disk.go): the minimum the contract
	// asks for; dragonboat calls Sync when it needs the state to be durable
	s.i.env.SMRecovered(s.i, "recover", st.applied)
	return nil
}

func (s *diskSM) Close() error {
	s.i.enter("Close")
	defer s.i.exit("Close")
	return nil
}

func (s *diskSM) GetHash() (uint64, error) { return s.i.st.hash(), nil }

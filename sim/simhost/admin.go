package simhost

import (
	"fmt"
	"sort"
	"strconv"
	"strings"
	"time"

	dragonboat "github.com/lni/dragonboat/v4"
	pb "github.com/lni/dragonboat/v4/raftpb"
)

// replica kinds
const (
	roleVoter     = 0
	roleNonVoting = 1
	roleWitness   = 2
)

var roleNames = []string{"voter", "nonvoting", "witness"}

// adminReq is an outstanding membership / snapshot request.
type adminReq struct {
	what   string // add, addnv, addwitness, remove, snapshot, export
	target *Host
	role   int
	host   *Host
	hinc   int
	rs     *dragonboat.RequestState
	ccid   uint64
	stale  bool // issued with a ConfigChangeID known to be stale (ordered mode)
	issued int64
	desc   string
}

// observed membership (canonical per ConfigChangeId)
type memView struct {
	ccid      uint64
	voters    map[uint64]string
	nonVoting map[uint64]string
	witnesses map[uint64]string
	removed   map[uint64]bool
	host      int
}

func toMemView(m pb.Membership, host int) *memView {
	v := &memView{ccid: m.ConfigChangeId, voters: map[uint64]string{}, nonVoting: map[uint64]string{},
		witnesses: map[uint64]string{}, removed: map[uint64]bool{}, host: host}
	for k, a := range m.Addresses {
		v.voters[k] = a
	}
	for k, a := range m.NonVotings {
		v.nonVoting[k] = a
	}
	for k, a := range m.Witnesses {
		v.witnesses[k] = a
	}
	for k := range m.Removed {
		v.removed[k] = true
	}
	return v
}

func (v *memView) String() string {
	f := func(m map[uint64]string) string {
		ks := make([]int, 0, len(m))
		for k := range m {
			ks = append(ks, int(k))
		}
		sort.Ints(ks)
		return fmt.Sprint(ks)
	}
	rs := make([]int, 0)
	for k := range v.removed {
		rs = append(rs, int(k))
	}
	sort.Ints(rs)
	return fmt.Sprintf("ccid=%d voters=%s nonvoting=%s witnesses=%s removed=%v", v.ccid, f(v.voters), f(v.nonVoting), f(v.witnesses), rs)
}

func (v *memView) equal(o *memView) bool {
	return v.String() == o.String()
}

// maybeAdmin issues administrative requests (part of the fault phase).
func (s *Sim) maybeAdmin() {
	c := s.cfg
	src := s.src
	if src.Chance(c.PLeaderTransfer, 1000) {
		ups := s.runningHosts()
		if len(ups) > 0 {
			h := ups[src.Intn(len(ups))]
			target := s.hosts[src.Intn(len(s.hosts))]
			nh := h.nh
			s.ctx.Ev("admin.transfer", uint64(h.id), target.replicaID)
			s.ctx.Count("fault.leader_transfer_req", 1)
			s.runTask("admin.transfer", h, "", func() { _ = nh.RequestLeaderTransfer(shardID, target.replicaID) })
		}
	}
	if src.Chance(c.PSnapshotReq, 1000) && len(s.admin) < 3 {
		ups := s.runningHosts()
		if len(ups) > 0 {
			h := ups[src.Intn(len(ups))]
			if h.role != roleWitness {
				opt := dragonboat.SnapshotOption{}
				if src.Intn(2) == 1 {
					opt.OverrideCompactionOverhead = true
					opt.CompactionOverhead = uint64(src.Intn(8))
				}
				s.issueAdmin(&adminReq{what: "snapshot", host: h}, func(nh *dragonboat.NodeHost) (*dragonboat.RequestState, error) {
					return nh.RequestSnapshot(shardID, opt, s.adminTimeout())
				})
			}
		}
	}
	if src.Chance(c.PMembership, 1000) && len(s.admin) < 2 {
		s.membershipOp()
	}
	if src.Chance(c.PStop, 1000) {
		ups := s.runningHosts()
		if len(ups) > 0 {
			h := ups[src.Intn(len(ups))]
			s.stopShard(h)
		}
	} else if src.Chance(c.PStop*4, 1000) {
		for _, h := range s.hosts {
			if h.up && h.stopped && !h.removed && h.joined && h.busy["boot"] == nil {
				s.restartShard(h)
				break
			}
		}
	}
}

func (s *Sim) adminTimeout() time.Duration {
	return time.Duration(s.cfg.TimeoutTicks*2) * time.Millisecond
}

// runningHosts are hosts that are up with the shard started.
func (s *Sim) runningHosts() []*Host {
	var r []*Host
	for _, h := range s.hosts {
		if h.up && !h.stopped && h.started && s.shardLoaded(h) {
			r = append(r, h)
		}
	}
	return r
}

func (s *Sim) issueAdmin(a *adminReq, call func(nh *dragonboat.NodeHost) (*dragonboat.RequestState, error)) {
	h := a.host
	nh := h.nh
	var rs *dragonboat.RequestState
	var err error
	tg := uint64(0)
	if a.target != nil {
		tg = a.target.replicaID
	}
	s.ctx.Ev("admin."+a.what, uint64(h.id), tg, a.ccid)
	s.ctx.Count("ev.admin_"+a.what, 1)
	s.runTask("admin."+a.what, h, "", func() { rs, err = call(nh) })
	if err != nil || rs == nil {
		s.ctx.Count("probe.admin_refused", 1)
		s.ctx.Tracef("admin %s refused: %v", a.what, err)
		if strings.HasPrefix(a.what, "final-") && len(s.finalAdminLog) < 300 {
			s.finalAdminLog += fmt.Sprintf("%s via h%d refused: %v; ", a.what, h.id+1, err)
		}
		if a.target != nil && (a.what == "add" || a.what == "addnv" || a.what == "addwitness") {
			a.target.addIssued = false
		}
		return
	}
	a.rs = rs
	a.hinc = h.inc
	a.issued = h.ticks
	s.admin = append(s.admin, a)
}

func (s *Sim) membershipOp() {
	src := s.src
	ups := s.runningHosts()
	var cands []*Host
	for _, h := range ups {
		if h.role != roleWitness {
			cands = append(cands, h)
		}
	}
	if len(cands) == 0 {
		return
	}
	via := cands[src.Intn(len(cands))]
	ccid := s.orc.lastCCID
	stale := false
	if s.cfg.OrderedCC {
		if ccid > 0 && src.Chance(1, 5) {
			ccid = uint64(src.Intn(int(ccid))) // deliberately stale
			stale = true
		}
	} else if src.Intn(2) == 0 {
		ccid = 0
	}
	// pick an operation; 0 = add a spare as voter
	var spares, members []*Host
	for _, h := range s.hosts {
		if !h.joined && !h.removed && !h.addIssued {
			spares = append(spares, h)
		} else if h.joined && !h.removed {
			members = append(members, h)
		}
	}
	weights := []int{4, 2, 2, 3, 2, 1, 1}
	switch s.cfg.MemberBias {
	case 1: // mostly non-voting members
		weights = []int{1, 8, 1, 1, 1, 0, 0}
	case 2: // mostly witnesses
		weights = []int{1, 1, 8, 1, 1, 0, 0}
	case 3: // mostly removals
		weights = []int{1, 0, 0, 8, 0, 0, 0}
	}
	op := src.Weighted(weights)
	switch op {
	case 0, 1, 2: // add a spare
		if len(spares) == 0 {
			return
		}
		t := spares[src.Intn(len(spares))]
		t.addIssued = true
		role := op
		a := &adminReq{what: []string{"add", "addnv", "addwitness"}[role], target: t, role: role, host: via, ccid: ccid, stale: stale}
		s.issueAdmin(a, func(nh *dragonboat.NodeHost) (*dragonboat.RequestState, error) {
			switch role {
			case roleVoter:
				return nh.RequestAddReplica(shardID, t.replicaID, t.addr, ccid, s.adminTimeout())
			case roleNonVoting:
				return nh.RequestAddNonVoting(shardID, t.replicaID, t.addr, ccid, s.adminTimeout())
			}
			return nh.RequestAddWitness(shardID, t.replicaID, t.addr, ccid, s.adminTimeout())
		})
	case 3: // remove a member
		if len(members) == 0 {
			return
		}
		t := members[src.Intn(len(members))]
		a := &adminReq{what: "remove", target: t, host: via, ccid: ccid, stale: stale}
		s.issueAdmin(a, func(nh *dragonboat.NodeHost) (*dragonboat.RequestState, error) {
			return nh.RequestDeleteReplica(shardID, t.replicaID, ccid, s.adminTimeout())
		})
	case 4: // promote a non-voting member
		for _, t := range members {
			if t.role == roleNonVoting {
				t := t
				a := &adminReq{what: "promote", target: t, role: roleVoter, host: via, ccid: ccid, stale: stale}
				s.issueAdmin(a, func(nh *dragonboat.NodeHost) (*dragonboat.RequestState, error) {
					return nh.RequestAddReplica(shardID, t.replicaID, t.addr, ccid, s.adminTimeout())
				})
				return
			}
		}
	case 5: // invalid: re-admit a removed replica
		for _, t := range s.hosts {
			if t.removed {
				t := t
				a := &adminReq{what: "readd-removed", target: t, host: via, ccid: ccid, stale: stale}
				s.issueAdmin(a, func(nh *dragonboat.NodeHost) (*dragonboat.RequestState, error) {
					return nh.RequestAddReplica(shardID, t.replicaID, t.addr, ccid, s.adminTimeout())
				})
				return
			}
		}
	case 6: // invalid: a member's address under a new replica id, or a kind change other than promotion
		if len(members) == 0 {
			return
		}
		t := members[src.Intn(len(members))]
		if src.Intn(2) == 0 {
			newID := uint64(100 + src.Intn(50))
			a := &adminReq{what: "dup-address", target: t, host: via, ccid: ccid, stale: stale}
			s.issueAdmin(a, func(nh *dragonboat.NodeHost) (*dragonboat.RequestState, error) {
				return nh.RequestAddReplica(shardID, newID, t.addr, ccid, s.adminTimeout())
			})
		} else if t.role == roleVoter {
			a := &adminReq{what: "demote", target: t, host: via, ccid: ccid, stale: stale}
			s.issueAdmin(a, func(nh *dragonboat.NodeHost) (*dragonboat.RequestState, error) {
				return nh.RequestAddNonVoting(shardID, t.replicaID, t.addr, ccid, s.adminTimeout())
			})
		}
	}
}

// pollAdmin looks at the outstanding administrative requests.
func (s *Sim) pollAdmin() {
	keep := s.admin[:0]
	for _, a := range s.admin {
		if a.host.inc != a.hinc {
			continue // the host died; outcome unknown
		}
		select {
		case r := <-a.rs.ResultC():
			if r.Committed() && !r.Completed() {
				keep = append(keep, a)
				continue
			}
			s.adminResult(a, r)
			a.rs.Release()
		default:
			keep = append(keep, a)
			if !s.faultsOn && a.host.up && a.host.ticks-a.issued > int64(s.cfg.TimeoutTicks*2)+200 {
				s.ctx.Violate("C12", "no-terminal-result", "%s request has no result %d ticks after it was issued", a.what, a.host.ticks-a.issued)
			}
		}
	}
	s.admin = keep
}

func (s *Sim) adminResult(a *adminReq, r dragonboat.RequestResult) {
	kind := "other"
	switch {
	case r.Completed():
		kind = "completed"
	case r.Rejected():
		kind = "rejected"
	case r.Timeout():
		kind = "timeout"
	case r.Dropped():
		kind = "dropped"
	case r.Terminated():
		kind = "terminated"
	case r.Aborted():
		kind = "aborted"
	}
	s.ctx.Ev("admin.result:"+a.what+":"+kind, uint64(a.host.id))
	s.ctx.Count("probe.admin_"+a.what+"_"+kind, 1)
	switch a.what {
	case "final-remove":
		if len(s.finalAdminLog) < 300 {
			s.finalAdminLog += fmt.Sprintf("remove via h%d: %s; ", a.host.id+1, kind)
		}
		if r.Completed() {
			s.finalCCDone = true
		}
		return
	case "final-snapshot":
		if len(s.finalAdminLog) < 300 {
			s.finalAdminLog += fmt.Sprintf("snapshot via h%d: %s; ", a.host.id+1, kind)
		}
		// Rejected: nothing was applied since the replica's last snapshot
		if r.Completed() || r.Rejected() {
			s.finalSnapDone = true
			if r.Completed() {
				s.orc.onSnapshotCompleted(a.host, r.SnapshotIndex())
			}
		}
		return
	}
	if !r.Completed() {
		if (r.Dropped() || r.Rejected()) && a.target != nil && (a.what == "add" || a.what == "addnv" || a.what == "addwitness") {
			a.target.addIssued = false // certainly not applied
		}
		return
	}
	switch a.what {
	case "snapshot":
		s.orc.onSnapshotCompleted(a.host, r.SnapshotIndex())
	case "export":
		s.exportIndex = r.SnapshotIndex()
	case "add", "addnv", "addwitness":
		if a.stale {
			s.ctx.Violate("C07", "stale-ccid-accepted", "%s of replica %d with stale ConfigChangeID %d was applied (ordered config change on)", a.what, a.target.replicaID, a.ccid)
		}
		t := a.target
		if !t.joined {
			t.joined = true
			t.role = a.role
			t.joinRole = a.role
			s.ctx.Count("probe.member_added_"+roleNames[a.role], 1)
			if t.up && !t.started && t.busy["boot"] == nil {
				s.startLate(t)
			}
		}
	case "promote":
		if a.stale {
			s.ctx.Violate("C07", "stale-ccid-accepted", "promotion of replica %d with stale ConfigChangeID %d was applied", a.target.replicaID, a.ccid)
		}
		a.target.role = roleVoter
		s.ctx.Count("probe.member_promoted", 1)
	case "remove":
		if a.stale {
			s.ctx.Violate("C07", "stale-ccid-accepted", "removal of replica %d with stale ConfigChangeID %d was applied", a.target.replicaID, a.ccid)
		}
		a.target.removed = true
		s.ctx.Count("probe.member_removed", 1)
	case "readd-removed":
		s.ctx.Violate("C07", "removed-readmitted", "replica %d was removed and a later request to add it again completed", a.target.replicaID)
	case "dup-address":
		// legitimate if the member holding the address was removed before this
		// change applied; whether an address is in use twice is judged on the
		// memberships themselves (observeMembership)
		s.ctx.Count("probe.dup_address_completed", 1)
	case "demote":
		s.ctx.Violate("C07", "kind-change", "voting member %d was turned into a non-voting member", a.target.replicaID)
	}
}

// startLate starts the replica of a host that joined the shard after bootstrap.
func (s *Sim) startLate(h *Host) {
	s.ctx.Ev("startlate", uint64(h.id))
	s.runTask("boot", h, "boot", func() { s.startReplica(h) })
}

func (s *Sim) stopShard(h *Host) {
	if h.busy["boot"] != nil {
		return
	}
	s.ctx.Ev("stopshard", uint64(h.id))
	s.ctx.Count("fault.stop_shard", 1)
	nh := h.nh
	h.stopped = true
	for _, c := range s.clients {
		c.shardStopped(h)
	}
	s.runTask("stopshard", h, "", func() { _ = nh.StopShard(shardID) })
}

func (s *Sim) restartShard(h *Host) {
	// the previous incarnation of the node must be fully unloaded first
	s.ctx.Ev("restartshard", uint64(h.id))
	s.ctx.Count("fault.restart_shard", 1)
	for _, t := range s.ex.Live() {
		if t.Host == h.id && t.Name == "chunk" {
			// StartReplica (which cleans up "orphaned" snapshot directories) while
			// the transport is in the middle of receiving / finalizing a snapshot
			// for this replica: the history of the recorded finding
			h.restartedWhileReceiving = true
			s.ctx.Count("probe.shard_restarted_while_receiving_snapshot", 1)
		}
	}
	s.runTask("boot", h, "boot", func() {
		if s.tryStartReplica(h) {
			h.stopped = false
		}
	})
}

// reconcileMembership aligns the harness' idea of who is a member with the
// newest membership any replica has applied (requests whose outcome is unknown
// may have been applied).
func (s *Sim) reconcileMembership(v *memView) {
	for _, h := range s.hosts {
		id := h.replicaID
		switch {
		case v.removed[id]:
			h.removed = true
		case v.voters[id] != "":
			if !h.joined {
				h.joinRole = roleVoter
			}
			h.joined, h.role = true, roleVoter
		case v.nonVoting[id] != "":
			if !h.joined {
				h.joinRole = roleNonVoting
			}
			h.joined, h.role = true, roleNonVoting
		case v.witnesses[id] != "":
			if !h.joined {
				h.joinRole = roleWitness
			}
			h.joined, h.role = true, roleWitness
		}
		if h.joined && !h.removed && h.up && !h.started && !h.stopped && h.busy != nil && h.busy["boot"] == nil {
			s.startLate(h)
		}
	}
}

// shardLoaded: the NodeHost still has the shard registered (lock free).
func (s *Sim) shardLoaded(h *Host) bool {
	if h.nh == nil {
		return false
	}
	_, ok := h.nh.VerifGetReplica(shardID)
	return ok
}

const crashMarker = "verif.crashmarker"

// markSnapshotDirs is called right after a crash: every directory that
// survived in the replica's snapshot directory gets a (durable) marker file, so
// that the start-up cleanup can be judged on exactly what the crash left
// behind, not on what the new incarnation creates meanwhile.
func (s *Sim) markSnapshotDirs(h *Host) {
	if h.snapDir == "" {
		return
	}
	mem := h.disk.Mem()
	names, err := mem.List(h.snapDir)
	if err != nil {
		return
	}
	sort.Strings(names)
	for _, n := range names {
		p := mem.PathJoin(h.snapDir, n)
		st, err := mem.Stat(p)
		if err != nil || !st.IsDir() {
			continue
		}
		f, err := mem.Create(mem.PathJoin(p, crashMarker))
		if err != nil {
			continue
		}
		_ = f.Sync()
		_ = f.Close()
		if d, err := mem.OpenDir(p); err == nil {
			_ = d.Sync()
			_ = d.Close()
		}
		switch {
		case strings.HasSuffix(n, ".generating"):
			s.ctx.Count("probe.crash_left_generating_dir", 1)
		case strings.HasSuffix(n, ".receiving"):
			s.ctx.Count("probe.crash_left_receiving_dir", 1)
		default:
			if _, err := mem.Stat(mem.PathJoin(p, "dragonboat.snapshot.message")); err == nil {
				s.ctx.Count("probe.crash_left_flagged_dir", 1)
			}
		}
	}
}

// checkSnapshotDir is the C16 oracle evaluated when the start-up path of a
// restarted replica has run (end of the boot task): of the directories the
// crash left behind only the snapshot recorded in the log store may remain,
// without its flag file; that recorded snapshot exists with a file; temporary
// and orphaned directories are gone.
func (s *Sim) checkSnapshotDir(h *Host) {
	if !h.crashedBefore || h.nh == nil {
		return
	}
	dir := h.nh.VerifSnapshotDir(shardID, h.replicaID)
	h.snapDir = dir
	rec, err := h.nh.VerifLogDB().GetSnapshot(shardID, h.replicaID)
	if err != nil {
		return
	}
	s.ctx.Count("probe.snapshot_dir_checked", 1)
	mem := h.disk.Mem()
	names, err := mem.List(dir)
	if err != nil {
		return
	}
	sort.Strings(names)
	foundRecorded := false
	for _, n := range names {
		p := mem.PathJoin(dir, n)
		st, err := mem.Stat(p)
		if err != nil || !st.IsDir() {
			continue
		}
		idx, perr := strconv.ParseUint(strings.TrimPrefix(n, "snapshot-"), 16, 64)
		if perr == nil && !pb.IsEmptySnapshot(rec) && idx == rec.Index {
			foundRecorded = true
		}
		marker := mem.PathJoin(p, crashMarker)
		if _, err := mem.Stat(marker); err != nil {
			continue // created by the new incarnation
		}
		switch {
		case strings.HasSuffix(n, ".generating") || strings.HasSuffix(n, ".receiving"):
			s.ctx.Violate("C16", "temp-dir-survived", "replica %d restarted and the temporary snapshot directory %s left by the crash is still present", h.replicaID, n)
		case perr != nil:
			// not a snapshot directory name we know
		case pb.IsEmptySnapshot(rec) || idx != rec.Index:
			s.ctx.Violate("C16", "unrecorded-snapshot-survived", "replica %d restarted and snapshot directory %s left by the crash is still present although the log store records snapshot %d", h.replicaID, n, rec.Index)
		default:
			if _, err := mem.Stat(mem.PathJoin(p, "dragonboat.snapshot.message")); err == nil {
				s.ctx.Violate("C16", "flag-file-survived", "replica %d restarted and the recorded snapshot directory %s still carries its flag file", h.replicaID, n)
			}
		}
		_ = mem.Remove(marker)
	}
	if !pb.IsEmptySnapshot(rec) && !rec.Dummy && !rec.Witness {
		if !foundRecorded {
			s.ctx.Violate("C16", "recorded-snapshot-missing", "replica %d: the log store records snapshot %d but its directory is not on disk", h.replicaID, rec.Index)
			return
		}
		st, err := mem.Stat(rec.Filepath)
		if err != nil {
			s.ctx.Violate("C16", "recorded-snapshot-missing", "replica %d: snapshot file %s of the recorded snapshot %d is missing", h.replicaID, rec.Filepath, rec.Index)
		} else if st.Size() == 0 {
			s.ctx.Violate("C16", "recorded-snapshot-invalid", "replica %d: snapshot file of recorded snapshot %d is empty", h.replicaID, rec.Index)
		} else if rec.FileSize > 0 && s.cfg.SMKind != KindOnDisk && uint64(st.Size()) != rec.FileSize {
			s.ctx.Violate("C16", "recorded-snapshot-invalid", "replica %d: snapshot file of recorded snapshot %d has size %d, recorded %d", h.replicaID, rec.Index, st.Size(), rec.FileSize)
		}
		s.ctx.Count("probe.recorded_snapshot_verified", 1)
	}
}

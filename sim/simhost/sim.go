// Package simhost is the whole-system simulator: several real NodeHosts in one
// process, every worker loop body run as a task released one at a time by a
// seeded scheduler, over a simulated disk and a simulated network.
package simhost

import (
	"fmt"
	"os"
	"runtime"
	"sort"
	"strconv"
	"strings"
	"time"

	dragonboat "github.com/lni/dragonboat/v4"
	"github.com/lni/dragonboat/v4/client"
	"github.com/lni/dragonboat/v4/config"
	"github.com/lni/dragonboat/v4/internal/rsm"
	"github.com/lni/dragonboat/v4/internal/tan"
	"github.com/lni/dragonboat/v4/internal/transport"
	tanplugin "github.com/lni/dragonboat/v4/plugin/tan"
	"github.com/lni/dragonboat/v4/raftio"
	pb "github.com/lni/dragonboat/v4/raftpb"
	sm "github.com/lni/dragonboat/v4/statemachine"
	"github.com/lni/dragonboat/v4/verifsim/choice"
	"github.com/lni/dragonboat/v4/verifsim/coro"
	"github.com/lni/dragonboat/v4/verifsim/runner"
	"github.com/lni/dragonboat/v4/verifsim/simfs"
)

const shardID = 1

// Cfg is the per run (swarm) configuration, drawn from the head of the tape.
type Cfg struct {
	Hosts              int
	Voters             int // initial voting members (the other hosts may be added later)
	NonVoting          int // how many of the hosts start as non-voting (joined later)
	SMKind             int
	Steps              int
	Clients            int
	Keys               int
	TickNum            int // a tick is chosen with probability TickNum/TickDen per step
	TickDen            int
	ElectionRTT        uint64
	HeartbeatRTT       uint64
	CheckQuorum        bool
	PreVote            bool
	Quiesce            bool
	NotifyCommit       bool
	SnapshotEntries    uint64
	CompactionOverhead uint64
	Compress           bool
	OrderedCC          bool
	MaxInMem           uint64
	// fault rates, per mille per step (0 = never)
	PDrop, PDup, PReorder, PPartition, PHeal, PCrash, PRestart, PStop int
	PLeaderTransfer, PSnapshotReq, PMembership                        int
	FSYield                                                           int // per mille chance that a mutating FS op parks the task
	SMYield                                                           int // per mille chance that an SM method entry parks the task
	TornTail                                                          bool
	Sessions                                                          bool // clients use registered sessions and retry
	ReadMix                                                           int  // per cent of client ops that are reads
	TimeoutTicks                                                      int
	SyncInterval                                                      int // periodic Sync task of on-disk state machines, in ticks
	LRUSize                                                           int
	LogBuf                                                            int
	TanLogSize                                                        int
	OpsPerClient                                                      int
	GroupSplit                                                        int  // percent of partitions that isolate a pair of hosts from all others
	HoldCut                                                           bool // cut links hold their frames until they heal (delay) instead of dropping them
	PartialHeal                                                       int  // percent of heal events that reconnect one host only
	EngYield                                                          int  // per mille chance that an engine yield point (node.close, node.handleReadIndex, node.handleProposals) parks the task
	MemberBias                                                        int  // 0 any membership operation, 1 mostly non-voting adds, 2 mostly witness adds
	ClientRate                                                        int  // relative rate of client actions (10 = as likely as 1/8 of pending work)
	Pad                                                               int
	PStall                                                            int // per mille chance per step that a host is frozen (VM pause, long GC): none of its tasks, ticks or deliveries happen for a while
	StallLen                                                          int // longest stall, in steps
	TickSkew                                                          int // 1: hosts tick at different rates (drawn per host: 1x .. 8x)
	PHold                                                             int // per mille of the parks at state machine / engine yield points after which the task is not resumed for a while (a goroutine that lost the CPU, or the race for a mutex, for long)
	HoldLen                                                           int // longest hold, in steps
	ReplayWindow                                                      int // per cent of the restarts of a crashed host during faults after which the other hosts are cut off from each other (not from the restarted one): any leader elected now needs the restarted replica, which is still replaying its log - faults aimed at a restart
	Ballast                                                           int // 1: every host also runs a single-member ballast shard that keeps the shared snapshot workers busy (see ballast.go)
	SnapWorkers                                                       int // snapshot workers per NodeHost (default 2)
	FinalReads                                                        int // 1: in the fair final phase every running replica is asked for a ReadIndex in every round (a read-heavy service: every heartbeat of the leader carries a read confirmation hint)
	CCWindow                                                          int // per cent of the parks between a membership change's applied index and its raft update (node.ApplyConfigChange) on a non-leader that are held long while the links between that host and the leader are cut: faults aimed at a membership change, as the guidance asks
}

// Host is one simulated machine.
type Host struct {
	id                      int
	replicaID               uint64
	addr                    string
	disk                    *simfs.Disk
	inc                     int
	up                      bool
	booting                 bool
	nh                      *dragonboat.NodeHost
	drv                     *dragonboat.VerifDriver
	tr                      *transport.Transport
	rawTransport            *simTransport
	busy                    map[string]*coro.Task
	sm                      *SMInst
	ticks                   int64
	stopped                 bool // shard stopped gracefully (NodeHost still up)
	started                 bool // StartReplica was called in this incarnation
	joined                  bool // member of the shard (initial or added)
	initial                 bool // initial member
	removed                 bool
	selfRemoved             bool
	crashedBefore           bool
	ballastStarted          bool
	stepCovered             int64 // ticks of this host that a completed step of its step worker has certainly handled
	restartedWhileReceiving bool  // StartReplica ran while a snapshot chunk task of this host was in flight
	imported                bool
	snapDir                 string
	role                    int  // current role as far as the harness knows
	joinRole                int  // role it was first added with: what its config must say
	addIssued               bool // an add request for it is outstanding or of unknown outcome
}

// Sim is one simulated run.
type Sim struct {
	finalTraffic       bool
	finalCCDone        bool
	finalSnapDone      bool
	finalCCTries       int
	finalSnapTries     int
	finalAdminLog      string
	ctx                *runner.Ctx
	src                *choice.Source
	ex                 *coro.Exec
	cfg                Cfg
	hosts              []*Host
	net                *Net
	addrToHost         map[string]int
	trToHost           map[*transport.Transport]int
	clients            []*Client
	step               int
	seqno              int64 // global event sequence number (history stamps)
	ticks              int64
	faultsOn           bool
	now                int                // steps executed (stall clock)
	stallUntil         []int              // per host: frozen while now < stallUntil
	tickWeight         []int              // per host: relative tick rate (clock skew)
	holdUntil          map[*coro.Task]int // parked tasks that are not resumed before step now reaches the value
	pendingAsync       []asyncJob
	admin              []*adminReq
	orc                *oracles
	initialMembers     map[uint64]dragonboat.Target
	nextWID            uint64
	importMode         bool
	exportIndex        uint64
	expected           *exported
	expectedMembers    map[uint64]string
	importFlipAccepted bool
	flipBit, flipLen   int
	sessRand           *auxRand
	stateSig           uint64
}

type asyncJob struct {
	host int
	inc  int
	kind string
	f    func()
}

func pick(src *choice.Source, vals ...int) int { return vals[src.Intn(len(vals))] }

func drawCfg(ctx *runner.Ctx) Cfg {
	s := ctx.Src
	p := func(k string, def int) int {
		if v, ok := ctx.Params[k]; ok {
			n, _ := strconv.Atoi(v)
			return n
		}
		return def
	}
	c := Cfg{}
	c.Hosts = p("hosts", pick(s, 3, 3, 3, 1, 2, 4, 5))
	c.Voters = p("voters", 0)
	c.SMKind = p("sm", pick(s, KindRegular, KindConcurrent, KindOnDisk))
	c.Steps = p("steps", pick(s, 600, 300, 1200, 2500))
	c.Clients = p("clients", pick(s, 2, 1, 3, 4))
	c.Keys = p("keys", pick(s, 2, 1, 3))
	c.TickNum = p("ticknum", pick(s, 1, 1, 2, 3))
	c.TickDen = p("tickden", pick(s, 8, 4, 16, 30))
	c.ElectionRTT = uint64(p("election", pick(s, 10, 5, 8, 20)))
	c.HeartbeatRTT = uint64(p("heartbeat", pick(s, 1, 2)))
	c.CheckQuorum = p("checkquorum", s.Intn(2)) == 1
	c.PreVote = p("prevote", s.Intn(2)) == 1
	c.Quiesce = p("quiesce", pick(s, 0, 0, 0, 1)) == 1
	c.NotifyCommit = p("notifycommit", pick(s, 0, 0, 1)) == 1
	c.SnapshotEntries = uint64(p("snapshot", pick(s, 0, 5, 12, 25)))
	c.CompactionOverhead = uint64(p("overhead", pick(s, 2, 0, 5, 10)))
	c.Compress = p("compress", s.Intn(2)) == 1
	c.OrderedCC = p("orderedcc", s.Intn(2)) == 1
	c.MaxInMem = uint64(p("maxinmem", pick(s, 0, 0, 0, 4096)))
	c.PDrop = p("pdrop", pick(s, 0, 10, 30, 80))
	c.PDup = p("pdup", pick(s, 0, 0, 10, 30))
	c.PReorder = p("preorder", pick(s, 0, 10, 40))
	c.PPartition = p("ppartition", pick(s, 0, 3, 8))
	c.PHeal = p("pheal", pick(s, 20, 5, 50))
	c.PCrash = p("pcrash", pick(s, 0, 2, 5, 10))
	c.PRestart = p("prestart", pick(s, 20, 5, 50))
	c.PStop = p("pstop", pick(s, 0, 0, 2))
	c.PLeaderTransfer = p("ptransfer", pick(s, 0, 3, 8))
	c.PSnapshotReq = p("psnapreq", pick(s, 0, 3, 8))
	c.PMembership = p("pmember", pick(s, 0, 0, 3))
	c.FSYield = p("fsyield", pick(s, 0, 0, 50, 300))
	c.SMYield = p("smyield", pick(s, 0, 100, 400))
	c.TornTail = p("torn", s.Intn(2)) == 1
	c.Sessions = p("sessions", pick(s, 0, 0, 1)) == 1
	c.ReadMix = p("readmix", pick(s, 30, 50, 10))
	c.TimeoutTicks = p("timeout", pick(s, 100, 30, 300))
	c.OpsPerClient = p("ops", pick(s, 20, 8, 40))
	c.TanLogSize = p("tanlog", pick(s, 0, 0, 2048, 16384))
	c.LogBuf = p("logbuf", pick(s, 65536, 64, 4096))
	c.LRUSize = p("lru", pick(s, 4096, 4096, 2, 3))
	c.SyncInterval = p("syncinterval", pick(s, 180000, 25, 80))
	c.ClientRate = p("clientrate", pick(s, 10, 3, 30))
	c.GroupSplit = p("groupsplit", pick(s, 0, 0, 30))
	c.MemberBias = p("memberbias", 0)
	c.HoldCut = p("holdcut", pick(s, 0, 0, 1)) == 1
	c.PartialHeal = p("partialheal", pick(s, 0, 30, 60))
	c.EngYield = p("engyield", pick(s, 0, 0, 150, 400))
	c.Pad = p("pad", pick(s, 0, 0, 40, 300))
	c.PStall = p("pstall", pick(s, 0, 0, 0, 1, 3))
	c.StallLen = p("stalllen", pick(s, 60, 20, 200, 600))
	c.TickSkew = p("tickskew", pick(s, 0, 0, 1))
	c.PHold = p("phold", pick(s, 0, 0, 100, 300))
	c.HoldLen = p("holdlen", pick(s, 100, 30, 300, 800))
	c.CCWindow = p("ccwindow", 0)
	c.Ballast = p("ballast", 0)
	c.ReplayWindow = p("replaywindow", 0)
	c.SnapWorkers = p("snapworkers", 2)
	c.FinalReads = p("finalreads", pick(s, 0, 0, 1))
	if c.Hosts < 1 {
		c.Hosts = 1
	}
	if c.Hosts > 5 {
		c.Hosts = 5
	}
	if c.Voters <= 0 || c.Voters > c.Hosts {
		c.Voters = c.Hosts
		if c.PMembership > 0 && c.Hosts > 1 {
			c.Voters = 1 + s.Intn(c.Hosts)
		}
	}
	return c
}

func (c Cfg) String() string {
	return fmt.Sprintf("hosts=%d/%d sm=%d steps=%d clients=%d keys=%d tick=%d/%d el=%d hb=%d cq=%t pv=%t qs=%t nc=%t snap=%d ovh=%d cmp=%t occ=%t inmem=%d drop=%d dup=%d reord=%d part=%d crash=%d stop=%d xfer=%d snapreq=%d memb=%d fsy=%d smy=%d torn=%t sess=%t",
		c.Hosts, c.Voters, c.SMKind, c.Steps, c.Clients, c.Keys, c.TickNum, c.TickDen, c.ElectionRTT, c.HeartbeatRTT,
		c.CheckQuorum, c.PreVote, c.Quiesce, c.NotifyCommit, c.SnapshotEntries, c.CompactionOverhead, c.Compress,
		c.OrderedCC, c.MaxInMem, c.PDrop, c.PDup, c.PReorder, c.PPartition, c.PCrash, c.PStop, c.PLeaderTransfer,
		c.PSnapshotReq, c.PMembership, c.FSYield, c.SMYield, c.TornTail, c.Sessions)
}

// auxRand feeds goutils' process wide random source (election jitter, request
// keys) from a PRNG seeded with the run's aux seed: deterministic per run, but
// deliberately NOT taken from the tape, because a shrunk tape is mostly zeros
// and zero jitter makes two candidates time out in lockstep forever (a
// livelock that real randomness rules out).
type auxRand struct {
	r *choice.SplitMix64
}

func (t *auxRand) Uint64() uint64 { return t.r.Next() | 1 }
func (t *auxRand) Int() int       { return int(t.r.Next() >> 1) }
func (t *auxRand) Int63() int64   { return int64(t.r.Next() >> 1) }
func (t *auxRand) Seed(int64)     {}

func (s *Sim) nodeHostConfig(h *Host) config.NodeHostConfig {
	return config.NodeHostConfig{
		DeploymentID:   7,
		NodeHostDir:    "/nh",
		RTTMillisecond: 1,
		RaftAddress:    h.addr,
		// by default a random UUID is generated on the first start (and written
		// to the host's id file): fixed per host, a function of the run
		NodeHostID:   s.nodeHostID(h),
		NotifyCommit: s.cfg.NotifyCommit,
		Expert: config.ExpertConfig{
			FS:               h.disk.View(),
			TransportFactory: &simTransportFactory{sim: s, host: h.id},
			LogDB:            s.logdbConfig(),
			LogDBFactory:     &recFactory{inner: tanplugin.Factory, sim: s, host: h.id},
			Engine: config.EngineConfig{ExecShards: 1, CommitShards: 1, ApplyShards: 1,
				SnapshotShards: uint64(s.cfg.SnapWorkers), CloseShards: 1},
		},
	}
}

func (s *Sim) nodeHostID(h *Host) string {
	a := choice.Mix(s.src.Aux^0x6e686964, uint64(h.id))
	b := choice.Mix(s.src.Aux^0x6e686964, uint64(h.id), 1)
	return fmt.Sprintf("%08x-%04x-4%03x-8%03x-%012x", uint32(a>>32), uint16(a>>16), uint16(a)&0xfff, uint16(b>>48)&0xfff, b&0xffffffffffff)
}

// auxSource is the random source handed to client.NewSession.
func (s *Sim) auxSource() *auxRand {
	if s.sessRand == nil {
		s.sessRand = &auxRand{r: choice.NewSplitMix(s.src.Aux ^ 0x5e55)}
	}
	return s.sessRand
}

func (s *Sim) logdbConfig() config.LogDBConfig {
	c := config.GetTinyMemLogDBConfig()
	c.KVWriteBufferSize = uint64(s.cfg.LogBuf)
	return c
}

func (s *Sim) raftConfig(h *Host) config.Config {
	c := config.Config{
		ReplicaID:           h.replicaID,
		ShardID:             shardID,
		ElectionRTT:         s.cfg.ElectionRTT,
		HeartbeatRTT:        s.cfg.HeartbeatRTT,
		CheckQuorum:         s.cfg.CheckQuorum,
		PreVote:             s.cfg.PreVote,
		Quiesce:             s.cfg.Quiesce,
		SnapshotEntries:     s.cfg.SnapshotEntries,
		CompactionOverhead:  s.cfg.CompactionOverhead,
		OrderedConfigChange: s.cfg.OrderedCC,
		MaxInMemLogSize:     s.cfg.MaxInMem,
	}
	if !h.initial {
		switch h.joinRole {
		case roleNonVoting:
			c.IsNonVoting = true
		case roleWitness:
			c.IsWitness = true
			c.SnapshotEntries = 0
		}
	}
	if s.cfg.Compress {
		c.SnapshotCompressionType = config.Snappy
		c.EntryCompressionType = config.Snappy
	}
	return c
}

func (s *Sim) newSMInst(h *Host) *SMInst {
	inst := &SMInst{env: s.orc, Host: h.id, Inc: h.inc, Kind: s.cfg.SMKind, ShardID: shardID,
		ReplicaID: h.replicaID, st: newSMState(), Active: map[string]int{}}
	view := h.disk.View()
	inst.fs = view
	inst.path = fmt.Sprintf("/sm/%d-%d/data", shardID, h.replicaID)
	inst.Dead = view.Dead
	h.sm = inst
	return inst
}

// boot creates the NodeHost of h and starts its replica (runs inside a task).
func (s *Sim) boot(h *Host) {
	h.inc++
	h.busy = map[string]*coro.Task{}
	h.stopped = false
	nhc := s.nodeHostConfig(h)
	nh, err := dragonboat.NewNodeHost(nhc)
	if err != nil {
		panic(fmt.Sprintf("NewNodeHost failed: %v", err))
	}
	h.nh = nh
	h.drv = dragonboat.VerifNewDriver(nh)
	h.tr = nh.VerifTransport()
	s.trToHost[h.tr] = h.id
	h.started = false
	if s.cfg.Ballast > 0 {
		s.startBallast(h)
	}
	if h.joined && !h.removed {
		s.startReplica(h)
		if h.started {
			s.checkSnapshotDir(h)
		}
	}
	h.up = true
	h.booting = false
}

func (s *Sim) startReplica(h *Host) {
	if !s.tryStartReplica(h) {
		panic("StartReplica failed")
	}
}

// tryStartReplica starts the replica; false when the previous instance of the
// node is still being unloaded (ErrShardAlreadyExist).
func (s *Sim) tryStartReplica(h *Host) bool {
	cfg := s.raftConfig(h)
	var err error
	members := s.initialMembers
	join := false
	if !h.initial {
		members = nil
		join = true
	}
	if h.imported {
		// restarted "in the same way as after rebooting the host"
		members, join = nil, false
	}
	switch {
	case h.joinRole == roleWitness && !h.initial:
		// a witness has no user state machine worth the name
		err = h.nh.StartReplica(members, join, func(uint64, uint64) sm.IStateMachine {
			return &regularSM{i: s.newSMInst(h)}
		}, cfg)
	case s.cfg.SMKind == KindRegular:
		err = h.nh.StartReplica(members, join, func(uint64, uint64) sm.IStateMachine {
			return &regularSM{i: s.newSMInst(h)}
		}, cfg)
	case s.cfg.SMKind == KindConcurrent:
		err = h.nh.StartConcurrentReplica(members, join, func(uint64, uint64) sm.IConcurrentStateMachine {
			return &concurrentSM{i: s.newSMInst(h)}
		}, cfg)
	default:
		err = h.nh.StartOnDiskReplica(members, join, func(uint64, uint64) sm.IOnDiskStateMachine {
			return &diskSM{i: s.newSMInst(h)}
		}, cfg)
	}
	if err == dragonboat.ErrShardAlreadyExist {
		s.ctx.Count("probe.start_while_unloading", 1)
		return false
	}
	if err == dragonboat.ErrReplicaRemoved {
		h.removed = true
		return true
	}
	if err != nil {
		panic(fmt.Sprintf("StartReplica failed: %v", err))
	}
	h.started = true
	h.snapDir = h.nh.VerifSnapshotDir(shardID, h.replicaID)
	return true
}

// ---- hooks from the transport ----

func (s *Sim) hookSendBatch(t *transport.Transport, addr string, mb pb.MessageBatch) bool {
	from, ok := s.trToHost[t]
	if !ok {
		return false
	}
	to, ok := s.addrToHost[addr]
	if !ok {
		s.ctx.Tracef("send from h%d to unknown address %q", from+1, addr)
		return false
	}
	h := s.hosts[from]
	if !h.up && !h.booting || h.tr != t {
		s.ctx.Tracef("send by a dead incarnation of h%d", from+1)
		return false // a dead incarnation is talking
	}
	s.sendBatch(from, to, mb)
	return true
}

func (s *Sim) sendBatch(from, to int, mb pb.MessageBatch) {
	s.orc.onSend(from, mb)
	data := pb.MustMarshal(&mb)
	typ := pb.MessageType(0)
	if len(mb.Requests) > 0 {
		typ = mb.Requests[0].Type
	}
	s.ctx.Tracef("send h%d->h%d %s", from+1, to+1, typ)
	s.net.push(laneKey{from: from, to: to}, frame{data: data, typ: typ})
	s.ctx.Count("ev.send", 1)
}

func (s *Sim) sendChunk(from, to int, c pb.Chunk) error {
	if s.net.cut[from][to] || !s.hosts[to].up {
		s.ctx.Count("fault.chunk_send_failed", 1)
		return errUnreachable
	}
	data := pb.MustMarshal(&c)
	s.net.push(laneKey{from: from, to: to, chunk: true}, frame{data: data, chunk: true})
	s.ctx.Count("ev.sendchunk", 1)
	return nil
}

func (s *Sim) hookTanObsolete(name string, job func() error) {
	t := s.ex.Current()
	if t == nil || t.Host < 0 {
		return
	}
	h := s.hosts[t.Host]
	for _, j := range s.pendingAsync {
		if j.host == h.id && j.inc == h.inc && j.kind == "tan.obsolete" {
			return // already pending (the worker's channel has capacity 1)
		}
	}
	s.pendingAsync = append(s.pendingAsync, asyncJob{host: h.id, inc: h.inc, kind: "tan.obsolete", f: func() {
		if err := job(); err != nil {
			panic(err)
		}
	}})
}

func (s *Sim) hookAsync(t *transport.Transport, kind string, shard uint64, to uint64, f func()) {
	from, ok := s.trToHost[t]
	if !ok {
		return
	}
	h := s.hosts[from]
	s.pendingAsync = append(s.pendingAsync, asyncJob{host: from, inc: h.inc, kind: kind, f: f})
}

// ---- the simulation ----

// Run executes one simulated run.
func Run(ctx *runner.Ctx) *runner.Result {
	s := newSim(ctx, nil)
	defer s.teardown()
	s.bootAll()
	s.faultsOn = true
	for s.step = 0; s.step < s.cfg.Steps && !ctx.Violated(); s.step++ {
		s.oneStep()
		s.afterStep()
	}
	if !ctx.Violated() {
		s.finalPhase()
	}
	if !ctx.Violated() {
		s.orc.finalChecks()
	}
	return s.finish()
}

// newSim draws the configuration (adjusted by tweak) and prepares hosts,
// network, clients and hooks.
func newSim(ctx *runner.Ctx, tweak func(c *Cfg)) *Sim {
	s := &Sim{ctx: ctx, src: ctx.Src, addrToHost: map[string]int{}, trToHost: map[*transport.Transport]int{}}
	s.cfg = drawCfg(ctx)
	if tweak != nil {
		tweak(&s.cfg)
	}
	ctx.Tracef("cfg %s", s.cfg.String())
	LogSink = nil
	if showLogs && ctx.Tracing {
		LogSink = func(pkg, level, msg string) { ctx.Tracef("log %s %s %s", pkg, level, msg) }
	}
	SetProcessRand(&auxRand{r: choice.NewSplitMix(ctx.Src.Aux)})
	s.ex = coro.New()
	// with NotifyCommit every request owns a bridging goroutine (ResultC), so
	// goroutine states must be inspected after every step
	s.ex.AlwaysInspect = s.cfg.NotifyCommit
	tan.VerifObsoleteHook = s.hookTanObsolete
	rsm.LRUMaxSessionCount = uint64(s.cfg.LRUSize)
	dragonboat.VerifSetSyncTaskInterval(uint64(s.cfg.SyncInterval))
	if s.cfg.TanLogSize > 0 {
		tan.VerifMaxLogFileSize = int64(s.cfg.TanLogSize)
	} else {
		tan.VerifMaxLogFileSize = 0
	}
	s.orc = newOracles(s)
	s.ex.YieldFilter = s.yieldFilter
	s.ex.ParkHook = parkHook
	transport.VerifHooks.SendBatch = s.hookSendBatch
	transport.VerifHooks.Async = s.hookAsync
	dragonboat.VerifYieldHook = func(point string) {
		if point == "node.ApplyUpdate" || point == "node.ApplyConfigChange" || point == "node.RestoreRemotes" {
			s.ex.Yield("sm."+point, 0)
		} else {
			s.ex.Yield("eng."+point, 0)
		}
	}
	s.net = newNet(s, s.cfg.Hosts)
	s.initialMembers = map[uint64]dragonboat.Target{}
	for i := 0; i < s.cfg.Hosts; i++ {
		h := &Host{id: i, replicaID: uint64(i + 1), addr: fmt.Sprintf("h%d:1", i+1)}
		h.disk = simfs.NewDisk(h.addr, s)
		s.hosts = append(s.hosts, h)
		s.addrToHost[h.addr] = i
		if i < s.cfg.Voters {
			s.initialMembers[h.replicaID] = h.addr
			h.joined = true
			h.initial = true
		}
	}
	for i := 0; i < s.cfg.Clients; i++ {
		s.clients = append(s.clients, &Client{id: i, sim: s})
	}
	s.stallUntil = make([]int, s.cfg.Hosts)
	s.holdUntil = map[*coro.Task]int{}
	s.tickWeight = make([]int, s.cfg.Hosts)
	for i := range s.tickWeight {
		s.tickWeight[i] = 1
		if s.cfg.TickSkew > 0 {
			s.tickWeight[i] = pick(s.src, 2, 1, 4, 8, 16)
		}
	}
	return s
}

// stalled reports whether the host is frozen by a stall fault: its parked
// tasks are not resumed, its workers get no events, it does not tick and
// nothing is delivered to it (the frames wait in their lanes) - then it
// carries on exactly where it was.
func (s *Sim) stalled(id int) bool {
	return s.faultsOn && id >= 0 && id < len(s.stallUntil) && s.now < s.stallUntil[id]
}

func (s *Sim) bootAll() {
	for _, h := range s.hosts {
		h := h
		h.booting = true
		s.runTask("boot", h, "boot", func() { s.boot(h) })
	}
}

func (s *Sim) finish() *runner.Result {
	o := s.orc
	nontrivial := o.appliedUser >= 3 && o.completedOps >= 2
	sig := s.stateSig ^ uint64(o.appliedUser)<<32 ^ uint64(len(o.history))
	summary := fmt.Sprintf("%s | ticks=%d applied=%d ops=%d/%d reads=%d leaders=%d crashes=%d",
		s.cfg.String(), s.ticks, o.appliedUser, o.completedOps, len(o.history), o.completedReads, len(o.leaderOfTerm), o.crashes)
	return s.ctx.Finish(nontrivial, sig, s.ticks, summary)
}

func (s *Sim) teardown() {
	// kill everything that is still parked; close what can be closed cheaply
	for _, h := range s.hosts {
		if h.up || h.booting {
			s.crashHost(h, true)
		}
	}
	transport.VerifHooks.SendBatch = nil
	transport.VerifHooks.Async = nil
	tan.VerifObsoleteHook = nil
	dragonboat.VerifYieldHook = nil
}

// runTask starts fn as a task of host h.
func (s *Sim) runTask(name string, h *Host, owner string, fn func()) *coro.Task {
	hid := -1
	if h != nil {
		hid = h.id
	}
	var t *coro.Task
	inc := 0
	if h != nil {
		inc = h.inc
		if owner != "" && h.busy != nil {
			if h.busy[owner] != nil {
				panic("verifsim: owner busy " + owner)
			}
		}
	}
	var tickAtStart int64
	if h != nil {
		tickAtStart = h.ticks
	}
	t = s.ex.Start(name, hid, owner, fn)
	if taskTrace {
		s.ctx.Tracef("task %s -> state=%d blocked=%t at=%s | %s", name, t.State(), t.Blocked, t.Point, s.ex.Describe())
	}
	if h != nil && owner != "" && t.State() != coro.Done && h.inc == inc && h.busy != nil {
		h.busy[owner] = t
		t.OnDone = func(t *coro.Task) {
			if h.busy != nil && h.busy[owner] == t {
				delete(h.busy, owner)
			}
			if name == "step.work" && h.inc == inc && !t.Dead && t.Panic == nil && tickAtStart > h.stepCovered {
				h.stepCovered = tickAtStart
			}
		}
	} else if h != nil && name == "step.work" && t.State() == coro.Done && t.Panic == nil && h.inc == inc && tickAtStart > h.stepCovered {
		// a completed step of the step worker has handled every tick handed to
		// the host before the step began
		h.stepCovered = tickAtStart
	}
	s.checkTask(t)
	return t
}

func (s *Sim) checkTask(t *coro.Task) {
	if t.State() == coro.Done && t.Panic != nil {
		s.taskPanicked(t)
	}
}

// taskPanicked handles a panic raised by the code under test inside a task.
// A panic is what it is in production: the process dies. The host is crashed
// (fail-stop) and the run goes on; in addition, panics by which the code
// itself detects a broken invariant are reported as violations of the
// property that invariant belongs to, and a panic while a crashed host is
// being restarted means the replica is not restartable (C04, C10, C16).
func (s *Sim) taskPanicked(t *coro.Task) {
	if t.Dead {
		return // unwinding of a dead host's task: anything goes
	}
	msg := fmt.Sprint(t.Panic)
	if len(msg) > 400 {
		msg = msg[:400]
	}
	origin := panicOrigin(t.Stack)
	if strings.Contains(origin, "/verifsim/") || strings.Contains(origin, "verifsim.") {
		panic(runner.ForwardedPanic{Val: t.Panic, Stack: t.Stack}) // harness bug: infrastructure error
	}
	s.ctx.Tracef("PANIC in task %s host %d: %s @ %s", t.Name, t.Host, msg, origin)
	s.ctx.Tracef("%s", t.Stack)
	short := msg
	if i := strings.Index(short, "\n"); i > 0 {
		short = short[:i]
	}
	if t.Host < 0 {
		panic(runner.ForwardedPanic{Val: t.Panic, Stack: t.Stack})
	}
	h := s.hosts[t.Host]
	explained := false
	if s.orc.dupFired > 0 && (strings.Contains(msg, "committedC is full") || strings.Contains(msg, "CompletedC is full")) {
		// the network duplicated a forwarded proposal: the same request key is in
		// the log twice and the requesting NodeHost panics on the second
		// notification. Duplication is outside the quantifier of C12.
		s.ctx.Count("probe.panic_duplicate_notification", 1)
		explained = true
	}
	if !explained {
		s.ctx.Count("probe.internal_panic", 1)
		for _, pr := range panicProperties(msg, origin) {
			s.ctx.Violate(pr, "panic", "%s @ %s", short, origin)
		}
		// the start-up of a replica is over when its initial recovery (from the
		// recorded snapshot and the log) has completed
		// (only the tasks that carry out the start-up count: the boot task and
		// the snapshot worker job that runs the initial recovery; a chunk or a
		// message that happens to arrive meanwhile is not part of it)
		starting := t.Name == "boot"
		if !starting && h.nh != nil && t.Name == "ss.job" {
			if r, ok := h.nh.VerifGetReplica(shardID); ok && !r.Initialized() {
				starting = true
			}
		}
		if starting && h.crashedBefore {
			// C08: "a replica that recovers from ... its own [snapshot] on restart
			// ... ends in exactly the state ..." and "compaction never removes an
			// entry that is not covered by a snapshot the replica can durably
			// recover from": a replica that cannot get through its recovery at all
			cause := ""
			if h.restartedWhileReceiving && strings.Contains(short, "file does not exist") {
				cause = "cause=shard-restarted-while-receiving-snapshot: "
			}
			for _, pr := range []string{"C04", "C08", "C10", "C16"} {
				s.ctx.Violate(pr, "restart-failed", "%sreplica %d cannot be restarted after a crash: %s @ %s", cause, h.replicaID, short, origin)
			}
			if h.imported && !s.importFlipAccepted {
				// (an export with a flipped bit that ImportSnapshot did not notice is
				// expected to fail loudly when it is loaded: importFlipAccepted)
				// C20: a shard repaired by import runs on (and restarts) like any other
				s.ctx.Violate("C20", "restart-failed", "%simported replica %d cannot be restarted after a crash: %s @ %s", cause, h.replicaID, short, origin)
			}
		}
		s.orc.panics = append(s.orc.panics, short+" @ "+origin)
		s.ctx.Count("panic@"+origin, 1)
	}
	if h.up || h.booting {
		s.crashHost(h, false)
	}
}

// panicProperties maps the code's own invariant panics to properties.
func panicProperties(msg, origin string) []string {
	has := func(subs ...string) bool {
		for _, x := range subs {
			if strings.Contains(msg, x) {
				return true
			}
		}
		return false
	}
	switch {
	case has("is full", "not ready for local read"):
		return []string{"C12"}
	case has("becoming candidate", "transitioning to", "is witness", "is not a nonVoting", "is not witness"):
		return []string{"C18"}
	case has("not committed entry", "not saved entry"):
		return []string{"C19", "C02"}
	case has("gap in log entries"):
		return []string{"C02", "C08"}
	case has("gap", "hole found", "moving backward", "committed entries being changed", "conflicts with committed entry",
		"applied index", "applied term", "older than current state", "out of range state", "invalid commitTo", "alignment error"):
		return []string{"C02"}
	case has("out of date snapshot", "OnDiskIndex", "OnDiskInit", "on disk index", "init on disk"):
		return []string{"C08", "C11"}
	}
	return nil
}

// panicOrigin: first frame below the panic that is neither runtime nor logger.
func panicOrigin(stack string) string {
	lines := strings.Split(stack, "\n")
	seen := false
	for i := 0; i < len(lines); i++ {
		l := lines[i]
		if strings.HasPrefix(l, "panic(") {
			seen = true
			continue
		}
		if !seen || strings.HasPrefix(l, "\t") || l == "" {
			continue
		}
		if strings.HasPrefix(l, "runtime.") || strings.Contains(l, "logger.") || strings.Contains(l, "sinkLogger.") ||
			strings.Contains(l, "panicNow") {
			continue
		}
		if j := strings.LastIndex(l, "("); j > 0 {
			l = l[:j]
		}
		return l
	}
	return "unknown"
}

type option struct {
	kind   int // 0 resume, 1 worker event, 2 deliver, 3 client, 4 async job
	task   *coro.Task
	host   *Host
	ev     dragonboat.VerifEvent
	lane   laneKey
	client *Client
	idx    int
}

func (s *Sim) options(tickers bool) []option {
	var opts []option
	for _, t := range s.ex.Live() {
		if t.State() == coro.Parked && !t.Dead && !s.stalled(t.Host) {
			if u, held := s.holdUntil[t]; held {
				if s.faultsOn && s.now < u {
					continue
				}
				delete(s.holdUntil, t)
			}
			opts = append(opts, option{kind: 0, task: t})
		}
	}
	for _, h := range s.hosts {
		if !h.up || s.stalled(h.id) {
			continue
		}
		for _, ev := range h.drv.Enabled(tickers) {
			if h.busy[ev.Owner()] == nil {
				opts = append(opts, option{kind: 1, host: h, ev: ev})
			}
		}
	}
	for i, j := range s.pendingAsync {
		h := s.hosts[j.host]
		if h.up && h.inc == j.inc && !s.stalled(h.id) {
			opts = append(opts, option{kind: 4, host: h, idx: i})
		}
	}
	for _, k := range s.net.nonEmpty() {
		// one connection = one reader: the next frame of a lane is handled only
		// after the previous one has been handled completely
		if to := s.hosts[k.to]; to.up && to.busy != nil && to.busy[laneOwner(k)] != nil {
			continue
		}
		if s.stalled(k.to) {
			continue
		}
		if s.cfg.HoldCut && !k.chunk && s.net.cut[k.from][k.to] && len(s.net.lanes[k].frames) < 300 {
			// a partition that delays instead of losing: what was in flight, and
			// what is sent meanwhile, arrives (late) when the link heals
			continue
		}
		opts = append(opts, option{kind: 2, lane: k})
	}
	for _, c := range s.clients {
		if c.canAct() {
			opts = append(opts, option{kind: 3, client: c})
		}
	}
	return opts
}

func (s *Sim) upHosts() []*Host {
	var r []*Host
	for _, h := range s.hosts {
		if h.up {
			r = append(r, h)
		}
	}
	return r
}

func (s *Sim) oneStep() {
	s.now++
	if s.faultsOn {
		s.maybeFaults()
	}
	opts := s.options(s.src.Chance(1, 40))
	var work, cl []option
	for _, o := range opts {
		if o.kind == 3 {
			cl = append(cl, o)
		} else {
			work = append(work, o)
		}
	}
	ups := s.upHosts()
	if s.cfg.PStall > 0 {
		var awake []*Host
		for _, h := range ups {
			if !s.stalled(h.id) {
				awake = append(awake, h)
			}
		}
		ups = awake
	}
	// categories: 0 = pending work (benign), 1 = tick, 2 = client
	w := []int{0, 0, 0}
	if len(work) > 0 {
		w[0] = 8 * s.cfg.TickDen
	}
	if len(ups) > 0 {
		w[1] = 8 * s.cfg.TickNum
		if len(work) == 0 {
			w[1] = 8 * s.cfg.TickDen
		}
	}
	if len(cl) > 0 {
		w[2] = s.cfg.TickDen * s.cfg.ClientRate / 10
		if w[2] == 0 {
			w[2] = 1
		}
	}
	if w[0]+w[1]+w[2] == 0 {
		return
	}
	switch s.src.Weighted(w) {
	case 0:
		s.execOption(work[s.src.Intn(len(work))])
	case 1:
		if s.cfg.TickSkew > 0 {
			w := make([]int, len(ups))
			for i, h := range ups {
				w[i] = s.tickWeight[h.id]
			}
			s.tickHost(ups[s.src.Weighted(w)])
		} else {
			s.tickHost(ups[s.src.Intn(len(ups))])
		}
	case 2:
		s.execOption(cl[s.src.Intn(len(cl))])
	}
}

func (s *Sim) tickHost(h *Host) {
	if h.busy["tick"] != nil {
		return
	}
	s.ticks++
	h.ticks++
	s.ctx.Ev("tick", uint64(h.id))
	s.ctx.Count("ev.tick", 1)
	s.runTask("tick", h, "tick", func() { h.drv.Tick() })
	s.orc.onTick(h)
}

func (s *Sim) execOption(o option) {
	switch o.kind {
	case 0:
		s.ctx.Ev("resume:"+o.task.Name+"@"+o.task.Point, uint64(o.task.Host+1))
		s.ctx.Count("ev.resume", 1)
		s.ex.Resume(o.task)
		s.checkTask(o.task)
	case 1:
		s.ctx.Ev("run:"+o.ev.Kind.String(), uint64(o.host.id), o.ev.Worker)
		s.ctx.Count("ev."+o.ev.Kind.String(), 1)
		h, ev := o.host, o.ev
		s.runTask(ev.Kind.String(), h, ev.Owner(), func() { h.drv.Run(ev) })
	case 2:
		s.deliver(o.lane, 0)
	case 3:
		o.client.act()
	case 4:
		j := s.pendingAsync[o.idx]
		s.pendingAsync = append(s.pendingAsync[:o.idx], s.pendingAsync[o.idx+1:]...)
		s.ctx.Ev("async:"+j.kind, uint64(j.host))
		s.ctx.Count("ev.async_"+j.kind, 1)
		s.runTask("async."+j.kind, s.hosts[j.host], "", j.f)
	}
}

func laneOwner(k laneKey) string {
	if k.chunk {
		return fmt.Sprintf("conn-chunk-%d", k.from)
	}
	return fmt.Sprintf("conn-msg-%d", k.from)
}

func (s *Sim) deliver(k laneKey, idx int) {
	if to := s.hosts[k.to]; to.up && to.busy != nil && to.busy[laneOwner(k)] != nil {
		return
	}
	f := s.net.take(k, idx)
	to := s.hosts[k.to]
	if s.net.cut[k.from][k.to] {
		s.ctx.Count("fault.partition_drop", 1)
		s.ctx.Ev("cutdrop", uint64(k.from), uint64(k.to))
		return
	}
	if !to.up {
		s.ctx.Count("fault.dead_target_drop", 1)
		s.ctx.Ev("deaddrop", uint64(k.from), uint64(k.to))
		return
	}
	if f.chunk {
		var c pb.Chunk
		pb.MustUnmarshal(&c, f.data)
		s.ctx.Ev("deliverchunk", uint64(k.from), uint64(k.to), c.ChunkId, c.Index)
		s.ctx.Count("ev.deliverchunk", 1)
		raw := to.rawTransport
		s.runTask("chunk", to, laneOwner(k), func() { raw.chunks(c) })
		return
	}
	var mb pb.MessageBatch
	pb.MustUnmarshal(&mb, f.data)
	s.ctx.Ev("deliver:"+f.typ.String(), uint64(k.from), uint64(k.to), f.seq)
	s.ctx.Count("ev.deliver", 1)
	s.orc.onDeliver(k.from, k.to, mb)
	tr := to.tr
	s.runTask("deliver", to, laneOwner(k), func() { tr.VerifHandleRequest(mb) })
}

// afterStep polls client results and runs the per-step invariants.
func (s *Sim) afterStep() {
	for _, c := range s.clients {
		c.poll()
	}
	s.pollAdmin()
	s.orc.afterStep()
}

// ---- faults ----

func (s *Sim) maybeFaults() {
	c := s.cfg
	src := s.src
	lanes := s.net.nonEmpty()
	if len(lanes) > 0 {
		if src.Chance(c.PDrop, 1000) {
			k := lanes[src.Intn(len(lanes))]
			f := s.net.take(k, 0)
			s.ctx.Count("fault.drop", 1)
			s.ctx.Ev("drop:"+f.typ.String(), uint64(k.from), uint64(k.to))
			lanes = s.net.nonEmpty()
		}
	}
	if len(lanes) > 0 && s.orc.allowDup && src.Chance(c.PDup, 1000) {
		k := lanes[src.Intn(len(lanes))]
		if !k.chunk {
			l := s.net.lanes[k]
			f := l.frames[0]
			s.net.push(k, frame{data: f.data, typ: f.typ})
			s.ctx.Count("fault.dup", 1)
			s.orc.dupFired++
			if f.typ == pb.ReadIndex {
				s.orc.dupReadIndex++
			}
			s.ctx.Ev("dup:"+f.typ.String(), uint64(k.from), uint64(k.to))
		}
	}
	if len(lanes) > 0 && src.Chance(c.PReorder, 1000) {
		k := lanes[src.Intn(len(lanes))]
		l := s.net.lanes[k]
		if len(l.frames) > 1 && !k.chunk {
			i := 1 + src.Intn(len(l.frames)-1)
			s.ctx.Count("fault.reorder", 1)
			s.deliver(k, i)
		}
	}
	if c.PStall > 0 && !s.importMode && src.Chance(c.PStall, 1000) {
		var cand []*Host
		for _, h := range s.upHosts() {
			if !s.stalled(h.id) {
				cand = append(cand, h)
			}
		}
		if len(cand) > 0 {
			h := cand[src.Intn(len(cand))]
			s.stallUntil[h.id] = s.now + 1 + src.Intn(c.StallLen)
			s.ctx.Count("fault.stall", 1)
			s.ctx.Ev("stall", uint64(h.id), uint64(s.stallUntil[h.id]-s.now))
			for _, t := range s.ex.Live() {
				if t.Host == h.id && t.State() == coro.Parked && !t.Dead {
					s.ctx.Count("probe.stall_with_task_in_flight", 1)
					break
				}
			}
		}
	}
	if c.Ballast > 0 && src.Chance(30, 1000) {
		s.ballastTraffic()
	}
	n := len(s.hosts)
	if n > 1 && src.Chance(c.PPartition, 1000) {
		a := src.Intn(n)
		b := src.Intn(n)
		if c.GroupSplit > 0 && src.Chance(c.GroupSplit, 100) {
			// isolate a together with b from everybody else
			for x := 0; x < n; x++ {
				if x == a || x == b {
					continue
				}
				for _, y := range []int{a, b} {
					s.net.cut[x][y], s.net.cut[y][x] = true, true
				}
			}
			s.ctx.Count("fault.partition_group", 1)
			s.ctx.Ev("split", uint64(a), uint64(b))
		} else if a != b {
			s.net.cut[a][b] = true
			sym := src.Intn(3) != 0
			if sym {
				s.net.cut[b][a] = true
			}
			s.ctx.Count("fault.partition", 1)
			s.ctx.Ev("partition", uint64(a), uint64(b))
		}
	}
	if s.anyCut() && src.Chance(c.PHeal, 1000) {
		// mostly everything heals at once; sometimes only one host gets its
		// links back (the rest of a group split stays cut off)
		if len(s.hosts) > 2 && src.Chance(c.PartialHeal, 100) {
			x := src.Intn(len(s.hosts))
			for y := range s.hosts {
				s.net.cut[x][y], s.net.cut[y][x] = false, false
			}
			s.ctx.Count("fault.heal_one_host", 1)
			s.ctx.Ev("healhost", uint64(x))
		} else {
			s.healAll()
		}
	}
	if src.Chance(c.PCrash, 1000) {
		ups := s.upHosts()
		if len(ups) > 0 {
			h := ups[src.Intn(len(ups))]
			// half of the crashes land on a host that is in the middle of a file
			// system operation (a task parked at a SimFS yield point): that is
			// where in-flight state is
			if src.Chance(1, 2) {
				var mid []*Host
				for _, t := range s.ex.Live() {
					if t.State() == coro.Parked && strings.HasPrefix(t.Point, "fs.") && t.Host >= 0 && s.hosts[t.Host].up {
						dup := false
						for _, m := range mid {
							if m.id == t.Host {
								dup = true
							}
						}
						if !dup {
							mid = append(mid, s.hosts[t.Host])
						}
					}
				}
				if len(mid) > 0 {
					sort.Slice(mid, func(i, j int) bool { return mid[i].id < mid[j].id })
					h = mid[src.Intn(len(mid))]
					s.ctx.Count("fault.crash_mid_fs_op", 1)
				}
			}
			s.crashHost(h, false)
		}
	}
	s.maybeAdmin()
	if src.Chance(c.PRestart, 1000) {
		for _, h := range s.hosts {
			if !h.up && !h.booting && !h.removed {
				s.restartHost(h)
				break
			}
		}
	}
}

func (s *Sim) anyCut() bool {
	for _, r := range s.net.cut {
		for _, c := range r {
			if c {
				return true
			}
		}
	}
	return false
}

func (s *Sim) healAll() {
	for _, r := range s.net.cut {
		for j := range r {
			r[j] = false
		}
	}
	s.ctx.Count("fault.heal", 1)
	s.ctx.Ev("heal")
}

// crashHost kills a host: volatile disk state is lost, its tasks unwind, its
// frames in flight are lost with the connections.
func (s *Sim) crashHost(h *Host, teardown bool) {
	if !h.up && !h.booting {
		return
	}
	if !teardown {
		s.ctx.Count("fault.crash", 1)
		s.ctx.Ev("crash", uint64(h.id))
		s.orc.crashes++
	}
	h.up = false
	h.booting = false
	h.crashedBefore = true
	s.orc.onCrash(h)
	var torn simfs.TornChooser
	if s.cfg.TornTail && !teardown {
		torn = func(path string, unsynced int) (int, bool) {
			keep := s.src.Intn(unsynced + 1)
			garble := false // garbage sectors are outside the fault model of the properties (unsynced data is lost, never invented)
			if keep > 0 {
				s.ctx.Count("fault.torn_tail", 1)
			}
			return keep, garble
		}
	}
	h.disk.Crash(torn)
	if !teardown {
		s.markSnapshotDirs(h)
	}
	delete(s.trToHost, h.tr)
	h.busy = nil
	s.ex.KillHost(h.id)
	s.net.clearHost(h.id)
	for _, c := range s.clients {
		c.hostDied(h)
	}
	// release what the dead incarnation holds so that its goroutines can go
	old := h.nh
	h.nh, h.drv, h.tr = nil, nil, nil
	_ = old
}

func (s *Sim) restartHost(h *Host) {
	s.ctx.Count("fault.restart", 1)
	s.ctx.Ev("restart", uint64(h.id))
	h.booting = true
	if s.faultsOn && s.cfg.ReplayWindow > 0 && len(s.hosts) > 2 && s.src.Chance(s.cfg.ReplayWindow, 100) {
		for a := range s.hosts {
			for b := range s.hosts {
				if a != b {
					s.net.cut[a][b] = a != h.id && b != h.id
				}
			}
		}
		s.ctx.Count("fault.replay_window", 1)
		s.ctx.Ev("replaywindow", uint64(h.id))
	}
	s.runTask("boot", h, "boot", func() { s.boot(h) })
}

var fsTrace = os.Getenv("VERIF_FSTRACE") != ""
var showLogs = os.Getenv("VERIF_LOGS") != ""
var taskTrace = os.Getenv("VERIF_TASKTRACE") != ""

// ---- simfs.Env ----

// FSOp is called before every file system operation of any host.
func (s *Sim) FSOp(d *simfs.Disk, op simfs.Op, path string, size int, index int64) (error, int) {
	if fsTrace && op.Mutating() {
		s.ctx.Tracef("fs %s %s %s", d.Name, op, path)
	}
	if op.Mutating() {
		s.ex.Yield("fs."+op.String(), uint64(index))
	}
	return nil, 0
}

// parkHook marks tasks that park while holding the process wide finalizeLock
// of internal/server (SSEnv.FinalizeSnapshot): they must be unwound when their
// host dies, or no other host could ever finalize a snapshot again.
func parkHook(t *coro.Task) {
	var pcs [48]uintptr
	n := runtime.Callers(3, pcs[:])
	frames := runtime.CallersFrames(pcs[:n])
	t.Unwind = false
	for {
		f, more := frames.Next()
		if strings.HasSuffix(f.Function, "(*SSEnv).FinalizeSnapshot") {
			t.Unwind = true
			return
		}
		if !more {
			return
		}
	}
}

func (s *Sim) yieldFilter(t *coro.Task, point string, arg uint64) bool {
	if len(point) > 3 && point[:3] == "fs." {
		return s.cfg.FSYield > 0 && s.src.Chance(s.cfg.FSYield, 1000)
	}
	if s.cfg.CCWindow > 0 && (point == "sm.node.ApplyConfigChange" || point == "sm.node.RestoreRemotes") && s.faultsOn && t.Host >= 0 {
		if s.src.Chance(s.cfg.CCWindow, 100) && s.aimAtConfigChange(t) {
			return true
		}
	}
	if len(point) > 3 && point[:3] == "sm." {
		return s.hold(t, s.cfg.SMYield > 0 && s.src.Chance(s.cfg.SMYield, 1000))
	}
	if len(point) > 4 && point[:4] == "eng." {
		return s.hold(t, s.cfg.EngYield > 0 && s.src.Chance(s.cfg.EngYield, 1000))
	}
	return true
}

// aimAtConfigChange: the apply worker of a replica that does not lead is about
// to tell its raft core about a membership change whose index its state machine
// already reports as applied. It loses the CPU there for long, and the links
// between its host and the leader's fail.
func (s *Sim) aimAtConfigChange(t *coro.Task) bool {
	leader := -1
	var term uint64
	for _, h := range s.hosts {
		if st, ok := s.orc.peek(h); ok && st.Role == "Leader" && st.Term >= term {
			leader, term = h.id, st.Term
		}
	}
	if leader < 0 || leader == t.Host {
		return false
	}
	s.holdUntil[t] = s.now + s.cfg.HoldLen/2 + s.src.Intn(s.cfg.HoldLen/2+1)
	s.net.cut[leader][t.Host], s.net.cut[t.Host][leader] = true, true
	s.ctx.Count("fault.config_change_window", 1)
	s.ctx.Ev("ccwindow", uint64(t.Host), uint64(leader))
	return true
}

// hold decides, for a task that is about to park at a state machine or engine
// yield point, whether it stays parked for a while (it holds no lock there).
func (s *Sim) hold(t *coro.Task, park bool) bool {
	if park && s.faultsOn && s.cfg.PHold > 0 && s.src.Chance(s.cfg.PHold, 1000) {
		s.holdUntil[t] = s.now + 1 + s.src.Intn(s.cfg.HoldLen)
		s.ctx.Count("fault.task_hold", 1)
	}
	return park
}

// ---- final phase: faults stop, fair schedule ----

func (s *Sim) finalPhase() {
	s.faultsOn = false
	s.healAll()
	for _, h := range s.hosts {
		if !h.up && !h.booting && !h.removed {
			s.restartHost(h)
		}
	}
	for _, h := range s.hosts {
		if h.up && h.stopped && h.joined && !h.removed && h.busy["boot"] == nil {
			s.restartShard(h)
		}
	}
	// bound chosen by us, generously: 60 election timeouts of fair fault-free
	// running for a leader to emerge, then as many again for the final requests
	budget := int(s.cfg.ElectionRTT) * 60
	s.ctx.Ev("final")
	if !s.quorumPossible() {
		// no majority of the voting members can run: nothing is required to
		// complete, but nothing may hang either (checked by the deadline oracle)
		s.ctx.Count("probe.final_without_quorum", 1)
		s.fairRounds(int(s.cfg.TimeoutTicks)+300, func() bool { return s.noClientWaiting() })
		return
	}
	// requests are submitted from the start of the fair period (a shard that
	// went quiescent without a leader only wakes up when it is asked to do
	// something); those issued before a leader exists may fail and are retried
	for _, c := range s.clients {
		c.beginFinal()
	}
	s.finalTraffic = true
	if !s.fairRounds(budget, func() bool { return s.orc.stableLeader() }) {
		if !s.ctx.Violated() {
			s.orc.livenessFailed("no leader")
		}
		return
	}
	s.ctx.Count("probe.final_leader", 1)
	if !s.fairRounds(budget, s.finalDone) {
		if !s.ctx.Violated() {
			s.orc.livenessFailed("requests / catch-up")
		}
		return
	}
	s.ctx.Count("probe.final_converged", 1)
	// "... membership changes and snapshot requests submitted afterwards
	// complete": one of each is submitted now and repeated (through another
	// replica) until it completes
	// (a membership request of the fault phase that has not reached its deadline
	// yet occupies the replica's only slot - ErrSystemBusy - for up to the
	// request timeout: that much is added to the budget of this stage)
	if !s.fairRounds(budget+int(s.cfg.TimeoutTicks)*2+200, s.finalAdminDone) {
		if !s.ctx.Violated() {
			what := ""
			if !s.finalCCDone {
				what = "membership change"
			}
			if !s.finalSnapDone {
				if what != "" {
					what += " and "
				}
				what += "snapshot request"
			}
			s.orc.livenessFailed(what + " not completed (" + s.finalAdminLog + ")")
		}
		return
	}
	s.ctx.Count("probe.final_admin_completed", 1)
}

// ghostReplicaID is a replica id that never was a member: removing it is a
// membership change without any effect on quorums or traffic.
const ghostReplicaID = 999

// finalAdminDone drives the last stage of the fair phase: a membership change
// (removal of a replica id that never was a member) and a snapshot request
// must complete. A request that fails (Dropped, Timeout, Rejected because the
// ConfigChangeId was overtaken, refused because the replica is busy) is
// submitted again through the next running replica.
func (s *Sim) finalAdminDone() bool {
	s.pollAdmin()
	ccOut, snapOut := false, false
	for _, a := range s.admin {
		if a.what == "final-remove" {
			ccOut = true
		}
		if a.what == "final-snapshot" {
			snapOut = true
		}
	}
	var cands []*Host
	for _, h := range s.runningHosts() {
		if h.role != roleWitness && !h.removed {
			cands = append(cands, h)
		}
	}
	if len(cands) == 0 {
		return false
	}
	if !s.finalCCDone && !ccOut {
		via := cands[s.finalCCTries%len(cands)]
		s.finalCCTries++
		ccid := uint64(0)
		if s.cfg.OrderedCC {
			ccid = s.orc.lastCCID
		}
		s.issueAdmin(&adminReq{what: "final-remove", host: via, ccid: ccid}, func(nh *dragonboat.NodeHost) (*dragonboat.RequestState, error) {
			return nh.RequestDeleteReplica(shardID, ghostReplicaID, ccid, s.adminTimeout())
		})
	}
	if !s.finalSnapDone && !snapOut {
		via := cands[s.finalSnapTries%len(cands)]
		s.finalSnapTries++
		s.issueAdmin(&adminReq{what: "final-snapshot", host: via}, func(nh *dragonboat.NodeHost) (*dragonboat.RequestState, error) {
			return nh.RequestSnapshot(shardID, dragonboat.SnapshotOption{}, s.adminTimeout())
		})
	}
	return s.finalCCDone && s.finalSnapDone
}

// fairRounds runs the fair schedule: every live host ticks once per round and
// all pending work is drained in FIFO order, until done() or the budget ends.
func (s *Sim) fairRounds(budget int, done func() bool) bool {
	for round := 0; round < budget && !s.ctx.Violated(); round++ {
		for _, h := range s.hosts {
			// a process that fail-stopped on a panic during the fair phase is
			// started again by its supervisor
			if !h.up && !h.booting && !h.removed {
				s.ctx.Count("probe.final_restart_after_panic", 1)
				s.restartHost(h)
			}
		}
		if s.cfg.FinalReads > 0 {
			for _, h := range s.runningHosts() {
				if h.role == roleWitness || h.busy["final.read"] != nil {
					continue
				}
				nh := h.nh
				s.ctx.Count("ev.final_read_pump", 1)
				s.runTask("final.read", h, "final.read", func() { _, _ = nh.ReadIndex(shardID, 40*time.Millisecond) })
			}
		}
		for _, h := range s.upHosts() {
			s.tickHost(h)
			if h.stopped && h.joined && !h.removed && h.busy["boot"] == nil {
				s.restartShard(h)
			}
		}
		if round%4 == 3 {
			// the engine's workers reload and rescan their nodes on a ticker
			// (nodeReloadInterval); a replica started while its apply worker was
			// handling another shard depends on it for its initial recovery
			for _, h := range s.upHosts() {
				if s.stalled(h.id) {
					continue
				}
				for _, ev := range h.drv.Enabled(true) {
					if ev.IsTicker() && h.busy[ev.Owner()] == nil && !s.ctx.Violated() {
						s.execOption(option{kind: 1, host: h, ev: ev})
						s.afterStep()
					}
				}
			}
		}
		for guard := 0; guard < 5000 && !s.ctx.Violated(); guard++ {
			opts := s.options(guard == 0)
			if len(opts) == 0 {
				break
			}
			s.execOption(opts[0])
			s.afterStep()
		}
		s.afterStep()
		if done() {
			return true
		}
		// the shard is not where it has to be yet although every client has
		// finished: keep requests coming (an idle shard may go quiescent, and a
		// restarted non-voting member or witness, which never campaigns, is only
		// brought up to date when there is traffic)
		if s.finalTraffic && round%int(2*s.cfg.ElectionRTT) == int(2*s.cfg.ElectionRTT)-1 {
			idle := true
			for _, c := range s.clients {
				if !c.finalDone() {
					idle = false
				}
			}
			if idle && len(s.clients) > 0 {
				s.clients[0].finalLeft = 2
				s.ctx.Count("probe.final_extra_traffic", 1)
			}
		}
	}
	return false
}

func (s *Sim) noClientWaiting() bool {
	for _, c := range s.clients {
		if c.phase != 0 {
			return false
		}
	}
	return len(s.admin) == 0
}

// quorumPossible: a majority of the voting members (and witnesses) of the
// newest applied membership is not removed, i.e. can run in the final phase.
func (s *Sim) quorumPossible() bool {
	v := s.orc.latest
	if v == nil {
		return true
	}
	total, alive := 0, 0
	for _, m := range []map[uint64]string{v.voters, v.witnesses} {
		for id := range m {
			total++
			for _, h := range s.hosts {
				if h.replicaID == id && !h.removed {
					alive++
				}
			}
		}
	}
	return alive >= total/2+1
}

func (s *Sim) finalDone() bool {
	for _, c := range s.clients {
		if !c.finalDone() {
			return false
		}
	}
	return s.orc.converged()
}

// stamp returns the next global event sequence number.
func (s *Sim) stamp() int64 {
	s.seqno++
	return s.seqno
}

var _ = client.Session{}
var _ = raftio.NoLeader
var _ = time.Second

package simhost

import (
	"context"
	"errors"
	"sort"

	"github.com/lni/dragonboat/v4/config"
	"github.com/lni/dragonboat/v4/raftio"
	pb "github.com/lni/dragonboat/v4/raftpb"
)

// frame is one unit on a lane: a really encoded MessageBatch or Chunk.
type frame struct {
	data  []byte
	chunk bool
	seq   uint64 // global send sequence
	typ   pb.MessageType
	desc  string
}

type laneKey struct {
	from, to int
	chunk    bool
}

type lane struct {
	key    laneKey
	frames []frame
	sent   uint64
}

// Net is the simulated network.
type Net struct {
	sim      *Sim
	lanes    map[laneKey]*lane
	order    []laneKey // sorted keys of non empty lanes (rebuilt lazily)
	dirty    bool
	cut      [][]bool // cut[a][b]: frames from a to b are lost
	seq      uint64
	InFlight int
}

func newNet(s *Sim, n int) *Net {
	nt := &Net{sim: s, lanes: map[laneKey]*lane{}}
	nt.cut = make([][]bool, n)
	for i := range nt.cut {
		nt.cut[i] = make([]bool, n)
	}
	return nt
}

func (n *Net) nonEmpty() []laneKey {
	if n.dirty {
		n.order = n.order[:0]
		for k, l := range n.lanes {
			if len(l.frames) > 0 {
				n.order = append(n.order, k)
			}
		}
		sort.Slice(n.order, func(i, j int) bool {
			a, b := n.order[i], n.order[j]
			if a.from != b.from {
				return a.from < b.from
			}
			if a.to != b.to {
				return a.to < b.to
			}
			return !a.chunk && b.chunk
		})
		n.dirty = false
	}
	return n.order
}

func (n *Net) push(k laneKey, f frame) {
	l := n.lanes[k]
	if l == nil {
		l = &lane{key: k}
		n.lanes[k] = l
	}
	l.sent++
	f.seq = l.sent // per lane: the order in which a broadcast fills the lanes is map order in the raft core
	l.frames = append(l.frames, f)
	n.InFlight++
	n.dirty = true
}

func (n *Net) take(k laneKey, idx int) frame {
	l := n.lanes[k]
	f := l.frames[idx]
	l.frames = append(l.frames[:idx], l.frames[idx+1:]...)
	n.InFlight--
	n.dirty = true
	return f
}

// clearHost drops every frame to or from a host (its connections died).
func (n *Net) clearHost(h int) int {
	dropped := 0
	for k, l := range n.lanes {
		if k.from == h || k.to == h {
			dropped += len(l.frames)
			n.InFlight -= len(l.frames)
			l.frames = nil
		}
	}
	n.dirty = true
	return dropped
}

// ---- raftio.ITransport given to each NodeHost ----

type simTransportFactory struct {
	sim  *Sim
	host int
}

func (f *simTransportFactory) Create(nhc config.NodeHostConfig,
	h raftio.MessageHandler, ch raftio.ChunkHandler) raftio.ITransport {
	t := &simTransport{sim: f.sim, host: f.host, handler: h, chunks: ch}
	f.sim.hosts[f.host].rawTransport = t
	return t
}

func (f *simTransportFactory) Validate(addr string) bool { return len(addr) > 0 }

type simTransport struct {
	sim     *Sim
	host    int
	handler raftio.MessageHandler
	chunks  raftio.ChunkHandler
	closed  bool
}

func (t *simTransport) Name() string { return "simnet" }
func (t *simTransport) Start() error { return nil }
func (t *simTransport) Close() error { t.closed = true; return nil }

var errUnreachable = errors.New("simnet: target unreachable")

func (t *simTransport) GetConnection(ctx context.Context, target string) (raftio.IConnection, error) {
	to, ok := t.sim.addrToHost[target]
	if !ok {
		return nil, errUnreachable
	}
	return &simConn{t: t, to: to}, nil
}

func (t *simTransport) GetSnapshotConnection(ctx context.Context, target string) (raftio.ISnapshotConnection, error) {
	to, ok := t.sim.addrToHost[target]
	if !ok {
		return nil, errUnreachable
	}
	if !t.sim.hosts[to].up || t.sim.net.cut[t.host][to] {
		t.sim.ctx.Count("fault.snapshot_conn_refused", 1)
		return nil, errUnreachable
	}
	return &simConn{t: t, to: to}, nil
}

type simConn struct {
	t  *simTransport
	to int
}

func (c *simConn) Close() {}

func (c *simConn) SendMessageBatch(mb pb.MessageBatch) error {
	c.t.sim.sendBatch(c.t.host, c.to, mb)
	return nil
}

func (c *simConn) SendChunk(chunk pb.Chunk) error {
	return c.t.sim.sendChunk(c.t.host, c.to, chunk)
}

package simhost

import (
	"encoding/binary"
	"fmt"
	"sort"
	"strings"
	"time"

	"github.com/anishathalye/porcupine"
	dragonboat "github.com/lni/dragonboat/v4"
	"github.com/lni/dragonboat/v4/internal/raft"
	pb "github.com/lni/dragonboat/v4/raftpb"
	sm "github.com/lni/dragonboat/v4/statemachine"
	"github.com/lni/dragonboat/v4/verifsim/coro"
)

type appliedRec struct {
	key  byte
	wid  uint64
	host int
}

// promise ledger of one replica: what it has told the outside world.
type ledger struct {
	maxTerm   uint64            // highest term made visible
	voteOf    map[uint64]uint64 // term -> candidate it granted its vote to (incl. itself)
	maxAcked  uint64            // highest index acknowledged with a non-reject ReplicateResp
	ackedTerm uint64
}

// durable shadow of one replica: what SaveRaftState has returned nil for.
type shadow struct {
	term, vote, commit uint64
	log                map[uint64]uint64 // index -> term
	last               uint64
	ssIndex            uint64
}

type oracles struct {
	s *Sim
	// C02 / C11
	appliedAt   map[uint64]appliedRec // index -> what was applied there (first replica wins)
	appliedUser int
	widCount    map[*SMInst]map[uint64]int
	// C03
	leaderOfTerm map[uint64]uint64
	// C01
	history        []*histOp
	completedOps   int
	completedReads int
	allowDup       bool
	// C04
	ledgers       []*ledger
	shadows       []*shadow
	checkRecovery []bool
	crashes       int
	// C12
	results  map[*Client]int
	stateSet map[uint64]struct{}
	// C07
	lastCCID        uint64
	latest          *memView
	memByCCID       map[uint64]*memView
	raftMemSeen     map[string]bool
	contact         map[int]map[int]contactRec // receiving host -> sending host -> last deliveries
	leaderSinceTick map[[2]uint64]int64        // (host incarnation, term) -> host tick when first seen leading
	contactSeen     map[[2]uint64]bool
	leaderMemSig    map[[2]uint64]uint64
	readConf        map[int]map[pb.SystemCtx]map[uint64]bool
	readWatch       map[int]*readWatch
	dupReadIndex    int
	roleWatch       map[int]roleRec
	matchSeen       map[[3]uint64]bool // (leader replica, term, follower replica<<40|match) already compared
	campaigns       []campaignRec
	commitTerm      map[uint64]commitRec // index -> term of the entry the shard committed there (first observer wins)
	commitSeen      map[int][2]uint64    // host -> (incarnation, highest index checked)
	lastMem         []*memView           // last membership observed per host
	everRemoved     map[uint64]uint64    // replica id -> ccid at which it was seen removed
	maxCommitted    uint64
	dupFired        int
	deadWids        []uint64 // writes proposed with unregistered sessions: must never be applied
	panics          []string
	abandoned       []*pendingReq
	snapshotsDone   int
}

func newOracles(s *Sim) *oracles {
	o := &oracles{s: s, appliedAt: map[uint64]appliedRec{}, widCount: map[*SMInst]map[uint64]int{},
		leaderOfTerm: map[uint64]uint64{}, results: map[*Client]int{}, stateSet: map[uint64]struct{}{}}
	// the network never duplicates for C01 (its quantifier excludes it)
	o.memByCCID = map[uint64]*memView{}
	o.raftMemSeen = map[string]bool{}
	o.contact = map[int]map[int]contactRec{}
	o.leaderSinceTick = map[[2]uint64]int64{}
	o.contactSeen = map[[2]uint64]bool{}
	o.leaderMemSig = map[[2]uint64]uint64{}
	o.readConf = map[int]map[pb.SystemCtx]map[uint64]bool{}
	o.readWatch = map[int]*readWatch{}
	o.roleWatch = map[int]roleRec{}
	o.matchSeen = map[[3]uint64]bool{}
	o.commitTerm = map[uint64]commitRec{}
	o.commitSeen = map[int][2]uint64{}
	o.everRemoved = map[uint64]uint64{}
	o.lastMem = make([]*memView, s.cfg.Hosts)
	o.allowDup = s.ctx.Property != "C01"
	for i := 0; i < s.cfg.Hosts; i++ {
		o.ledgers = append(o.ledgers, &ledger{voteOf: map[uint64]uint64{}})
		o.shadows = append(o.shadows, &shadow{log: map[uint64]uint64{}})
		o.checkRecovery = append(o.checkRecovery, false)
	}
	return o
}

// ---------------- SMEnv: C11 threading contract, C02 apply agreement ----------------

var exclusive = map[string]bool{"Update": true, "Sync": true, "PrepareSnapshot": true,
	"RecoverFromSnapshot": true, "Close": true, "Open": true}

func (o *oracles) SMEnter(i *SMInst, m string) {
	s := o.s
	if i.Dead != nil && i.Dead() {
		return // calls made by a dead incarnation while it unwinds
	}
	if m != "SaveSnapshot.mid" {
		if i.Closed && exclusive[m] {
			s.ctx.Violate("C11", "call-after-close", "%s called after Close on replica %d (kind %d)", m, i.ReplicaID, i.Kind)
		}
		if exclusive[m] {
			for a, n := range i.Active {
				if n > 0 && exclusive[a] {
					s.ctx.Violate("C11", "overlap", "%s started while %s is in progress on replica %d (kind %d)", m, a, i.ReplicaID, i.Kind)
				}
			}
		}
		if i.Kind == KindRegular {
			excl3 := map[string]bool{"Update": true, "RecoverFromSnapshot": true, "Close": true}
			if m == "Lookup" || m == "SaveSnapshot" {
				for a, n := range i.Active {
					if n > 0 && excl3[a] {
						s.ctx.Violate("C11", "overlap-plain", "%s started while %s is in progress on plain replica %d", m, a, i.ReplicaID)
					}
				}
			}
			if excl3[m] {
				for a, n := range i.Active {
					if n > 0 && (a == "Lookup" || a == "SaveSnapshot") {
						s.ctx.Violate("C11", "overlap-plain", "%s started while %s is in progress on plain replica %d", m, a, i.ReplicaID)
					}
				}
			}
		}
		i.Active[m]++
		if len(i.Active) > 1 {
			n := 0
			for _, c := range i.Active {
				if c > 0 {
					n++
				}
			}
			if n > 1 {
				s.ctx.Count("probe.sm_methods_overlapped", 1)
			}
		}
	}
	s.ex.Yield("sm."+m, uint64(i.Host))
}

func (o *oracles) SMExit(i *SMInst, m string) {
	if i.Dead != nil && i.Dead() {
		return
	}
	if m == "SaveSnapshot.mid" {
		return
	}
	i.Active[m]--
	if m == "Close" {
		i.Closed = true
	}
}

func (o *oracles) SMUpdate(i *SMInst, index uint64, cmd []byte, res sm.Result) {
	s := o.s
	if i.Dead != nil && i.Dead() {
		return
	}
	if index <= i.LastIndex {
		s.ctx.Violate("C11", "update-order", "Update index %d after %d on replica %d", index, i.LastIndex, i.ReplicaID)
	}
	if i.Kind == KindOnDisk && i.Opened && index <= i.OpenIndex {
		s.ctx.Violate("C11", "ondisk-reapply", "on-disk SM of replica %d handed index %d <= Open() index %d", i.ReplicaID, index, i.OpenIndex)
	}
	i.LastIndex = index
	i.Updates++
	key, wid, ok := ParseCmd(cmd)
	if !ok {
		s.ctx.Violate("C02", "foreign-cmd", "Update got a command nobody proposed at index %d (len %d)", index, len(cmd))
		return
	}
	rec, seen := o.appliedAt[index]
	if !seen {
		o.appliedAt[index] = appliedRec{key: key, wid: wid, host: i.Host}
		o.appliedUser++
	} else if rec.key != key || rec.wid != wid {
		s.ctx.Violate("C02", "apply-divergence", "index %d: replica %d applied wid %d key %d, replica %d applied wid %d key %d",
			index, rec.host+1, rec.wid, rec.key, i.ReplicaID, wid, key)
	}
	wc := o.widCount[i]
	if wc == nil {
		wc = map[uint64]int{}
		o.widCount[i] = wc
	}
	wc[wid]++
	if wc[wid] > 1 && s.cfg.Sessions && s.cfg.SMKind != KindOnDisk {
		s.ctx.Violate("C05", "dup-apply", "write id %d (proposed with a registered session, retried with the same series id) was applied twice by the state machine of replica %d", wid, i.ReplicaID)
	}
	if wc[wid] > 1 && !o.allowDup {
		// without network duplication and without client retries a proposal is in
		// the log at most once, so it reaches a state machine at most once
		s.ctx.Violate("C01", "dup-apply", "write id %d delivered twice to the same state machine incarnation on replica %d", wid, i.ReplicaID)
	}
	s.ctx.Ev("apply", uint64(i.Host), index, wid)
}

func (o *oracles) SMRecovered(i *SMInst, how string, applied uint64) {
	if i.Dead != nil && i.Dead() {
		return
	}
	o.s.ctx.Count("probe.sm_"+how, 1)
	// (a later incarnation may recover from a newer snapshot of its own or of the
	// leader: only a recovery that ends at the export's index is from the export)
	if e := o.s.expected; e != nil && how == "recover" && !i.importChecked && applied == e.index {
		i.importChecked = true
		o.s.ctx.Count("probe.import_state_checked", 1)
		if i.st.hash() != e.state.hash() {
			o.s.ctx.Violate("C20", "state-differs", "replica %d recovered from the imported snapshot (index %d) into a state that is not the exported one: got %v want %v", i.ReplicaID, e.index, i.st.kv, e.state.kv)
		}
	}
	// after a recover the stream restarts above the image
	i.LastIndex = applied
	if how == "recover" {
		i.OpenIndex = applied
	}
}

// ---------------- per step ----------------

func (o *oracles) onTick(h *Host) {}

// hostQuiet reports whether no task of h is alive (then nothing of h can hold
// a lock and the scheduler may call into its objects).
func (o *oracles) hostQuiet(h *Host) bool {
	for _, t := range o.s.ex.Live() {
		if t.Host == h.id {
			return false
		}
	}
	return true
}

func (o *oracles) peekFull(h *Host) (raft.VerifState, bool) {
	if !h.up || h.nh == nil || !o.hostQuiet(h) {
		return raft.VerifState{}, false
	}
	r, ok := h.nh.VerifGetReplica(shardID)
	if !ok {
		return raft.VerifState{}, false
	}
	p, _ := r.Peer().(*raft.Peer)
	if p == nil {
		return raft.VerifState{}, false
	}
	return raft.VerifPeekFull(p), true
}

func (o *oracles) peek(h *Host) (raft.VerifState, bool) {
	if !h.up || h.nh == nil {
		return raft.VerifState{}, false
	}
	r, ok := h.nh.VerifGetReplica(shardID)
	if !ok {
		return raft.VerifState{}, false
	}
	p, _ := r.Peer().(*raft.Peer)
	if p == nil {
		return raft.VerifState{}, false
	}
	return raft.VerifPeek(p), true
}

func (o *oracles) afterStep() {
	s := o.s
	o.pollAbandoned()
	var sig uint64 = 14695981039346656037
	for _, h := range s.hosts {
		if h.up && h.started && !h.stopped && !h.selfRemoved && h.busy != nil && h.busy["boot"] == nil && !s.shardLoaded(h) {
			// the node stopped itself: the only reason is that it applied its own removal
			h.removed = true
			h.selfRemoved = true
			s.ctx.Count("probe.self_removed", 1)
		}
		st, ok := o.peek(h)
		if !ok {
			delete(o.readWatch, h.id)
			delete(o.readConf, h.id)
			sig = sig*1099511628211 ^ 0xdead
			continue
		}
		if st.Role == "Leader" {
			if prev, seen := o.leaderOfTerm[st.Term]; seen && prev != st.ReplicaID {
				s.ctx.Violate("C03", "two-leaders", "term %d has leaders %d and %d", st.Term, prev, st.ReplicaID)
			} else if !seen {
				o.leaderOfTerm[st.Term] = st.ReplicaID
				s.ctx.Count("probe.leader_elected", 1)
				o.checkElectionQuorum(h, st)
			}
			o.checkLeaderContact(h, st)
		}
		// the commit index a replica holds in memory is a fact about the shard
		// only up to what that replica has durably saved: the leader of a single
		// voter quorum counts its own append before it is saved, and loses that
		// "commit" together with the entry if it crashes first
		eff := st.Committed
		if sh := o.shadows[h.id]; sh != nil {
			dur := sh.last
			if sh.ssIndex > dur {
				dur = sh.ssIndex
			}
			if dur < eff {
				eff = dur
				s.ctx.Count("probe.commit_ahead_of_durable_log", 1)
			}
		}
		if eff > o.maxCommitted {
			o.maxCommitted = eff
		}
		o.checkReadConfirmation(h, st)
		o.noteCampaign(h, st)
		quiet := o.hostQuiet(h)
		if o.checkRecovery[h.id] {
			if fst, ok := o.peekFull(h); ok {
				o.checkRecovered(h, fst)
			}
		}
		if st.Role == "Leader" {
			o.checkMatchIndexes(h, st)
		}
		if quiet {
			o.checkCommittedTerms(h, eff)
			o.observeMembership(h, st)
			if st.Role == "Leader" {
				o.checkOneChangeAtATime(h, st)
			}
		}
		lag := st.Committed - st.Applied
		if lag > 3 {
			lag = 3
		}
		roleCode := uint64(len(st.Role))
		sig = (sig ^ (roleCode<<8 | lag<<4 | uint64(len(st.PendingReads)&3))) * 1099511628211
	}
	sig ^= uint64(s.net.InFlight&7) << 40
	if _, ok := o.stateSet[sig]; !ok {
		o.stateSet[sig] = struct{}{}
		s.ctx.State(sig)
		s.stateSig ^= sig * 0x9e3779b97f4a7c15
	}
}

// ---------------- C07 / C18 membership ----------------

// checkRaftMembership: the raft core's replication targets by kind (remotes,
// nonVotings, witnesses - what its quorums are computed from) are updated only
// from applied membership changes and restored snapshots, so on a replica that
// is doing nothing (no task of the host is live) and has applied everything it
// knows to be committed they are exactly the applied membership of its state
// machine. (The bootstrap members are known to raft before their entries are
// applied, hence nothing is compared before those are.)
func (o *oracles) checkRaftMembership(h *Host, st raft.VerifState, m pb.Membership) {
	s := o.s
	if st.Applied != st.Committed || st.Committed < uint64(len(s.initialMembers)) || h.removed {
		return
	}
	if _, gone := m.Removed[st.ReplicaID]; gone {
		return
	}
	kinds := map[string]map[uint64]bool{"voter": {}, "nonvoting": {}, "witness": {}}
	for _, rm := range st.Remotes {
		kinds[rm.Kind][rm.ReplicaID] = true
	}
	sm := map[string]map[uint64]bool{"voter": {}, "nonvoting": {}, "witness": {}}
	for id := range m.Addresses {
		sm["voter"][id] = true
	}
	for id := range m.NonVotings {
		sm["nonvoting"][id] = true
	}
	for id := range m.Witnesses {
		sm["witness"][id] = true
	}
	s.ctx.Count("probe.raft_membership_compared", 1)
	for _, k := range []string{"voter", "nonvoting", "witness"} {
		same := len(kinds[k]) == len(sm[k])
		for id := range kinds[k] {
			if !sm[k][id] {
				same = false
			}
		}
		if same {
			continue
		}
		key := fmt.Sprintf("%d/%d/%s", h.id, m.ConfigChangeId, k)
		if o.raftMemSeen[key] {
			continue
		}
		o.raftMemSeen[key] = true
		ids := func(x map[uint64]bool) []uint64 {
			r := make([]uint64, 0, len(x))
			for id := range x {
				r = append(r, id)
			}
			sort.Slice(r, func(i, j int) bool { return r[i] < r[j] })
			return r
		}
		for _, pr := range []string{"C07", "C18"} {
			s.ctx.Violate(pr, "raft-membership-differs", "replica %d (idle, applied %d = committed): its raft core counts %v as %s members, the applied membership (config change %d) has %v", st.ReplicaID, st.Applied, ids(kinds[k]), k, m.ConfigChangeId, ids(sm[k]))
		}
	}
}

func (o *oracles) observeMembership(h *Host, st raft.VerifState) {
	s := o.s
	r, ok := h.nh.VerifGetReplica(shardID)
	if !ok || !r.Initialized() {
		return
	}
	m := r.Membership()
	if m.ConfigChangeId == 0 && len(m.Addresses) == 0 {
		return
	}
	if !r.Stopped() {
		o.checkRaftMembership(h, st, m)
	}
	prev := o.lastMem[h.id]
	if prev != nil && prev.ccid == m.ConfigChangeId {
		o.checkRole(h, st, prev, r.Stopped())
		return
	}
	v := toMemView(m, h.id)
	o.lastMem[h.id] = v
	if v.ccid > o.lastCCID {
		o.lastCCID = v.ccid
		o.latest = v
		o.s.reconcileMembership(v)
	}
	if c, ok := o.memByCCID[v.ccid]; ok {
		if !c.equal(v) {
			s.ctx.Violate("C07", "membership-divergence", "replicas %d and %d disagree on the membership after config change %d: %s vs %s", c.host+1, h.id+1, v.ccid, c, v)
		}
	} else {
		o.memByCCID[v.ccid] = v
		s.ctx.Count("probe.membership_versions", 1)
	}
	// invariants of C07 on every membership ever observed
	if len(v.voters) == 0 {
		s.ctx.Violate("C07", "no-voter", "membership without a voting member: %s", v)
	}
	for id := range v.removed {
		if _, ok := v.voters[id]; ok {
			s.ctx.Violate("C07", "removed-is-member", "replica %d is both removed and a member: %s", id, v)
		}
		if _, ok := v.nonVoting[id]; ok {
			s.ctx.Violate("C07", "removed-is-member", "replica %d is both removed and a member: %s", id, v)
		}
		if _, ok := v.witnesses[id]; ok {
			s.ctx.Violate("C07", "removed-is-member", "replica %d is both removed and a member: %s", id, v)
		}
		if _, seen := o.everRemoved[id]; !seen {
			o.everRemoved[id] = v.ccid
		}
	}
	for id, at := range o.everRemoved {
		if v.ccid > at && !v.removed[id] {
			s.ctx.Violate("C07", "removed-readmitted", "replica %d was removed by change %d but membership %s no longer records it as removed", id, at, v)
		}
	}
	addrs := map[string]uint64{}
	for _, mm := range []map[uint64]string{v.voters, v.nonVoting, v.witnesses} {
		for id, a := range mm {
			if other, dup := addrs[a]; dup && other != id {
				s.ctx.Violate("C07", "address-added-twice", "address %s belongs to replicas %d and %d: %s", a, other, id, v)
			}
			addrs[a] = id
		}
	}
	if prev != nil && v.ccid > prev.ccid {
		for id := range prev.voters {
			if _, ok := v.nonVoting[id]; ok {
				s.ctx.Violate("C07", "kind-change", "replica %d went from voting to non-voting: %s -> %s", id, prev, v)
			}
			if _, ok := v.witnesses[id]; ok {
				s.ctx.Violate("C07", "kind-change", "replica %d went from voting to witness: %s -> %s", id, prev, v)
			}
		}
		for id := range prev.witnesses {
			if _, ok := v.voters[id]; ok {
				s.ctx.Violate("C07", "kind-change", "witness %d became a voting member: %s -> %s", id, prev, v)
			}
			if _, ok := v.nonVoting[id]; ok {
				s.ctx.Violate("C07", "kind-change", "witness %d became a non-voting member: %s -> %s", id, prev, v)
			}
		}
		for id := range prev.nonVoting {
			if _, ok := v.witnesses[id]; ok {
				s.ctx.Violate("C07", "kind-change", "non-voting %d became a witness: %s -> %s", id, prev, v)
			}
		}
	}
	o.checkRole(h, st, v, r.Stopped())
}

type contactRec struct {
	tick       int64 // receiver's tick count at the last delivery from the sender
	votingTick int64 // ... at the last delivery while the receiver did not count the sender as non-voting
	asVoting   bool
}

// checkLeaderContact (C18, "non-voting members never count" for the quorum a
// leader with CheckQuorum needs to stay in power): a leader that has more than
// one voting member, and to which nothing from any member other than its
// non-voting members has been delivered for more than three election timeouts
// of its own ticks - all of them handled by completed steps of its step worker -
// cannot have seen a quorum in a whole check interval and must have stepped down.
func (o *oracles) checkLeaderContact(h *Host, st raft.VerifState) {
	s := o.s
	if !s.cfg.CheckQuorum || s.cfg.Quiesce || st.Quiesce {
		return
	}
	voting := 0
	nv := map[uint64]bool{}
	for _, rm := range st.Remotes {
		if rm.Kind == "nonvoting" {
			nv[rm.ReplicaID] = true
		} else {
			voting++
		}
	}
	if voting < 2 {
		return
	}
	key := [2]uint64{uint64(h.id)<<32 | uint64(h.inc), st.Term}
	// the clock starts when the replica is first seen leading the term, and
	// again whenever the set of its voting members changes
	msig := uint64(14695981039346656037)
	for _, rm := range st.Remotes {
		if rm.Kind != "nonvoting" {
			msig = (msig ^ rm.ReplicaID) * 1099511628211
		}
	}
	since, ok := o.leaderSinceTick[key]
	if !ok || o.leaderMemSig[key] != msig {
		o.leaderSinceTick[key] = h.ticks
		o.leaderMemSig[key] = msig
		return
	}
	base := since
	for from, c := range o.contact[h.id] {
		t := c.votingTick
		if !c.asVoting {
			t = 0
		}
		if !nv[s.hosts[from].replicaID] && c.tick > t {
			t = c.tick // not (or no longer) a non-voting member for this leader
		}
		if t > base {
			base = t
		}
	}
	limit := int64(3*s.cfg.ElectionRTT + 2)
	if h.stepCovered-base > limit {
		if o.contactSeen[key] {
			return
		}
		o.contactSeen[key] = true
		s.ctx.Violate("C18", "leader-kept-without-voter-contact", "replica %d (CheckQuorum on, %d voting members) still leads term %d although for %d of its ticks (election timeout %d), all handled by its step worker, nothing was delivered to it from any member but its non-voting ones", st.ReplicaID, voting, st.Term, h.stepCovered-base, s.cfg.ElectionRTT)
	}
}

// checkElectionQuorum (C03 "leader iff votes from a quorum of voting members",
// C18 "election quorums are majorities of voting members plus witnesses"): when
// a replica is first seen leading a term, the votes for it in that term that
// have left the other voting members and witnesses (a superset of those that
// reached it), plus its own, must be a majority of the voters and witnesses of
// its own membership.
func (o *oracles) checkElectionQuorum(h *Host, st raft.VerifState) {
	s := o.s
	kind := map[uint64]string{}
	voting := 0
	for _, rm := range st.Remotes {
		kind[rm.ReplicaID] = rm.Kind
		if rm.Kind != "nonvoting" {
			voting++
		}
	}
	if voting == 0 {
		return
	}
	n := 1
	var who []uint64
	for i, lg := range o.ledgers {
		x := s.hosts[i]
		if x == h || lg == nil {
			continue
		}
		k, member := kind[x.replicaID]
		if cand, ok := lg.voteOf[st.Term]; ok && cand == st.ReplicaID && member && k != "nonvoting" {
			n++
			who = append(who, x.replicaID)
		}
	}
	if n < voting/2+1 {
		msg := fmt.Sprintf("replica %d leads term %d with %d of %d voting members (voters and witnesses) behind it - itself and %v - quorum is %d", st.ReplicaID, st.Term, n, voting, who, voting/2+1)
		s.ctx.Violate("C18", "leader-without-quorum", "%s", msg)
		s.ctx.Violate("C03", "leader-without-quorum", "%s", msg)
		return
	}
	// the same votes against the membership the new leader's own state machine
	// has applied (it is never behind the raft core's): if the members of that
	// membership that did not vote for it are a quorum of it, they can elect a
	// second leader in this term
	r, ok := h.nh.VerifGetReplica(shardID)
	if !ok || !r.Initialized() {
		return
	}
	m := r.MembershipNoLock()
	if len(m.Addresses) == 0 {
		return
	}
	size := len(m.Addresses) + len(m.Witnesses)
	in := func(id uint64) bool {
		_, a := m.Addresses[id]
		_, w := m.Witnesses[id]
		return a || w
	}
	behind := 0
	if in(st.ReplicaID) {
		behind++
	}
	for _, id := range who {
		if in(id) {
			behind++
		}
	}
	if size-behind >= size/2+1 {
		msg := fmt.Sprintf("replica %d leads term %d elected by itself and %v, but the membership its own state machine had applied (config change %d) has %d voters and witnesses of which only %d voted for it: the other %d are a quorum and can elect a second leader of this term (raft core counted %d voting members)", st.ReplicaID, st.Term, who, m.ConfigChangeId, size, behind, size-behind, voting)
		s.ctx.Violate("C18", "leader-without-quorum", "cause=stale-membership: %s", msg)
		s.ctx.Violate("C03", "leader-without-quorum", "cause=stale-membership: %s", msg)
	}
}

type roleRec struct {
	inc  int
	role string
	term uint64
}

type campaignRec struct {
	replica   uint64
	term      uint64
	applied   uint64
	committed uint64
}

// noteCampaign records every start of a campaign (a replica turning
// (pre-vote) candidate, or a candidate moving to a higher term) together with
// its commit index and the applied index of its state machine at the moment it
// is observed. A candidate's commit index does not move, and the raft core's
// own copy of the applied index is never ahead of the state machine's, so
// every membership change entry in (applied, committed] was committed and not
// applied when the campaign started (C03: "no campaign while a committed
// membership change is unapplied"). Which indexes hold membership changes is
// only known once some replica has applied them: judged in finalChecks.
func (o *oracles) noteCampaign(h *Host, st raft.VerifState) {
	prev, ok := o.roleWatch[h.id]
	o.roleWatch[h.id] = roleRec{inc: h.inc, role: st.Role, term: st.Term}
	cand := st.Role == "Candidate" || st.Role == "PreVoteCandidate"
	if !cand || !ok || prev.inc != h.inc {
		return
	}
	wasCand := prev.role == "Candidate" || prev.role == "PreVoteCandidate"
	if wasCand && prev.term == st.Term && prev.role == st.Role {
		return
	}
	if prev.role == "PreVoteCandidate" && st.Role == "Candidate" {
		return // the second stage of one campaign
	}
	r, rok := h.nh.VerifGetReplica(shardID)
	if !rok {
		return
	}
	o.s.ctx.Count("probe.campaign_started", 1)
	o.campaigns = append(o.campaigns, campaignRec{replica: st.ReplicaID, term: st.Term, applied: r.Applied(), committed: st.Committed})
}

func (o *oracles) checkCampaigns() {
	ccids := make([]uint64, 0, len(o.memByCCID))
	for ccid := range o.memByCCID {
		ccids = append(ccids, ccid)
	}
	sort.Slice(ccids, func(i, j int) bool { return ccids[i] < ccids[j] })
	for _, c := range o.campaigns {
		for _, ccid := range ccids {
			if ccid != 0 && c.applied < ccid && ccid <= c.committed {
				o.s.ctx.Violate("C03", "campaign-with-unapplied-config-change", "replica %d started a campaign (term %d) with commit index %d while its state machine had applied %d only: the membership change at index %d was committed and not applied there", c.replica, c.term, c.committed, c.applied, ccid)
				return
			}
		}
	}
}

// logSafe: the raft log of h can be read by the scheduler now (no task of the
// host is blocked or parked inside a file system operation, i.e. possibly
// inside the log store or the LogReader with their locks held).
func (o *oracles) logSafe(h *Host) bool {
	if !h.up || h.nh == nil || h.booting {
		return false
	}
	for _, t := range o.s.ex.Live() {
		if t.Host == h.id && (t.Blocked || t.State() != coro.Parked || strings.HasPrefix(t.Point, "fs.") || strings.HasPrefix(t.Point, "eng.")) {
			return false
		}
	}
	return true
}

func (o *oracles) peerOf(h *Host) *raft.Peer {
	r, ok := h.nh.VerifGetReplica(shardID)
	if !ok || r.Stopped() {
		return nil
	}
	p, _ := r.Peer().(*raft.Peer)
	return p
}

// checkMatchIndexes (C02, log matching): what a leader records as the match
// index of a member is an index up to which that member's log is identical
// with the leader's. Compared whenever both logs can be read: the member must
// not be in a higher term (then the leader is deposed and the member may have
// been overwritten by its successor), and the entry must still be in both
// logs (not compacted).
func (o *oracles) checkMatchIndexes(lh *Host, st raft.VerifState) {
	s := o.s
	if !o.logSafe(lh) {
		return
	}
	var lp *raft.Peer
	for _, rm := range st.Remotes {
		if rm.ReplicaID == st.ReplicaID || rm.Match == 0 {
			continue
		}
		key := [3]uint64{st.ReplicaID, st.Term, rm.ReplicaID<<40 | rm.Match}
		if o.matchSeen[key] {
			continue
		}
		var fh *Host
		for _, x := range s.hosts {
			if x.replicaID == rm.ReplicaID && x.up && x.started && !x.stopped {
				fh = x
			}
		}
		if fh == nil || !o.logSafe(fh) {
			continue
		}
		fst, ok := o.peek(fh)
		if !ok || fst.Term > st.Term {
			continue
		}
		fp := o.peerOf(fh)
		if lp == nil {
			lp = o.peerOf(lh)
		}
		if fp == nil || lp == nil {
			continue
		}
		lt, err1 := raft.VerifTermAt(lp, rm.Match)
		ft, err2 := raft.VerifTermAt(fp, rm.Match)
		if err1 != nil || err2 != nil || lt == 0 || ft == 0 {
			continue // compacted on one side (or not there any more: a restart without the unsynced tail never loses acknowledged entries, C04 judges that)
		}
		o.matchSeen[key] = true
		s.ctx.Count("probe.match_index_compared", 1)
		if lt != ft {
			s.ctx.Violate("C02", "match-index-lies", "leader %d (term %d) records match index %d for replica %d, whose entry at that index is of term %d while the leader's is of term %d", st.ReplicaID, st.Term, rm.Match, rm.ReplicaID, ft, lt)
			return
		}
	}
}

type commitRec struct {
	term    uint64
	replica uint64
}

// checkCommittedTerms (C02, state machine safety): two replicas never hold
// different entries at an index both consider committed. upTo is the replica's
// commit index capped by what it has durably saved (see maxCommitted). Terms
// identify entries (one leader per term, C03). Only called when the host has
// no live task (the log is read through the LogReader).
func (o *oracles) checkCommittedTerms(h *Host, upTo uint64) {
	s := o.s
	r, ok := h.nh.VerifGetReplica(shardID)
	if !ok || r.Stopped() {
		return
	}
	p, _ := r.Peer().(*raft.Peer)
	if p == nil {
		return
	}
	seen := o.commitSeen[h.id]
	if seen[0] != uint64(h.inc) {
		seen = [2]uint64{uint64(h.inc), 0}
	}
	from := seen[1] + 1
	if upTo >= 24 && from < upTo-24 {
		from = upTo - 24
	}
	for i := from; i <= upTo; i++ {
		t, err := raft.VerifTermAt(p, i)
		if err != nil || t == 0 {
			continue // compacted away or covered by a snapshot only
		}
		if rec, ok := o.commitTerm[i]; ok {
			if rec.term != t {
				s.ctx.Violate("C02", "committed-entries-differ", "index %d is committed on replica %d with the entry of term %d and on replica %d with the entry of term %d", i, rec.replica, rec.term, h.replicaID, t)
				return
			}
		} else {
			o.commitTerm[i] = commitRec{term: t, replica: h.replicaID}
		}
	}
	if upTo > seen[1] {
		seen[1] = upTo
	}
	o.commitSeen[h.id] = seen
}

// checkOneChangeAtATime: membership changes take effect one at a time - a
// leader admits a new config change entry only when every earlier one has
// been applied, so its log holds at most one config change above its own
// applied index (C07).
func (o *oracles) checkOneChangeAtATime(h *Host, st raft.VerifState) {
	s := o.s
	r, ok := h.nh.VerifGetReplica(shardID)
	if !ok || r.Stopped() {
		return
	}
	p, _ := r.Peer().(*raft.Peer)
	if p == nil {
		return
	}
	full := raft.VerifPeekFull(p)
	// the state machine's applied index, not the raft core's (lagging) copy of it
	applied := r.Applied()
	if full.LastIndex <= applied || full.LastIndex-applied > 64 {
		return
	}
	full.Applied = applied
	ents, err := raft.VerifEntries(p, applied+1, full.LastIndex+1)
	if err != nil {
		return
	}
	n := 0
	var idx []uint64
	for _, e := range ents {
		if e.Type == pb.ConfigChangeEntry {
			n++
			idx = append(idx, e.Index)
		}
	}
	if n > 0 {
		s.ctx.Count("probe.leader_with_pending_config_change", 1)
	}
	if n > 1 {
		s.ctx.Violate("C07", "two-pending-config-changes", "leader %d (term %d, applied %d, committed %d) holds %d config change entries that are not applied yet, at indexes %v", h.replicaID, st.Term, full.Applied, full.Committed, n, idx)
	}
}

// checkRole: only regular voting members campaign or lead (C18).
func (o *oracles) checkRole(h *Host, st raft.VerifState, v *memView, stopped bool) {
	if stopped {
		return
	}
	switch st.Role {
	case "Leader", "Candidate", "PreVoteCandidate":
		if _, ok := v.voters[h.replicaID]; !ok {
			kind := "not a member"
			if _, ok := v.nonVoting[h.replicaID]; ok {
				kind = "a non-voting member"
			} else if _, ok := v.witnesses[h.replicaID]; ok {
				kind = "a witness"
			} else if v.removed[h.replicaID] {
				kind = "removed"
			}
			o.s.ctx.Violate("C18", "non-voter-campaigns", "replica %d is %s in its own applied membership (%s) but its role is %s in term %d", h.replicaID, kind, v, st.Role, st.Term)
		}
	}
}

func (o *oracles) onSnapshotCompleted(h *Host, index uint64) {
	o.snapshotsDone++
	o.s.ctx.Count("probe.snapshot_request_completed", 1)
}

// ---------------- C04 persist before send ----------------

func (o *oracles) onSend(from int, mb pb.MessageBatch) {
	s := o.s
	sh := o.shadows[from]
	lg := o.ledgers[from]
	for _, m := range mb.Requests {
		// C18: witnesses are never sent user payloads, only entry metadata and
		// membership changes, and only witness (dummy) snapshots
		if int(m.To) >= 1 && int(m.To) <= len(s.hosts) {
			if t := s.hosts[m.To-1]; t.joined && t.role == roleWitness && t.joinRole == roleWitness {
				for _, e := range m.Entries {
					if (e.Type == pb.ApplicationEntry || e.Type == pb.EncodedEntry) && len(e.Cmd) > 0 {
						s.ctx.Violate("C18", "payload-to-witness", "replica %d sent entry %d (type %s, %d payload bytes) to witness %d", m.From, e.Index, e.Type, len(e.Cmd), m.To)
					}
				}
				if len(m.Entries) > 0 {
					s.ctx.Count("probe.replicate_to_witness", 1)
				}
			}
		}
		switch m.Type {
		case pb.RequestVote:
			if sh.term < m.Term || (sh.term == m.Term && sh.vote != m.From) {
				s.ctx.Violate("C04", "send-before-persist", "RequestVote term %d left replica %d while durable term=%d vote=%d", m.Term, m.From, sh.term, sh.vote)
				s.ctx.Violate("C03", "vote-visible-before-durable", "RequestVote term %d left replica %d (its vote for itself) while durable term=%d vote=%d", m.Term, m.From, sh.term, sh.vote)
			}
			o.noteTerm(lg, m.Term)
			lg.voteOf[m.Term] = m.From
		case pb.RequestVoteResp:
			if !m.Reject {
				if sh.term < m.Term || (sh.term == m.Term && sh.vote != m.To) {
					s.ctx.Violate("C04", "send-before-persist", "vote for %d in term %d left replica %d while durable term=%d vote=%d", m.To, m.Term, m.From, sh.term, sh.vote)
					// C03: one vote per term "also across restarts" - a vote that is
					// visible before it is durable is forgotten by a crash at this very
					// instant, after which the replica is free to vote again in the term
					s.ctx.Violate("C03", "vote-visible-before-durable", "vote for %d in term %d left replica %d while durable term=%d vote=%d: a crash now makes it forget the vote", m.To, m.Term, m.From, sh.term, sh.vote)
				}
				if prev, ok := lg.voteOf[m.Term]; ok && prev != m.To {
					s.ctx.Violate("C03", "two-votes", "replica %d granted its vote in term %d to %d and to %d", m.From, m.Term, prev, m.To)
				}
				lg.voteOf[m.Term] = m.To
			}
			o.noteTerm(lg, m.Term)
			if sh.term < m.Term {
				s.ctx.Violate("C04", "send-before-persist", "RequestVoteResp term %d left replica %d while durable term=%d", m.Term, m.From, sh.term)
			}
		case pb.ReplicateResp:
			if sh.term < m.Term {
				s.ctx.Violate("C04", "send-before-persist", "ReplicateResp term %d left replica %d while durable term=%d", m.Term, m.From, sh.term)
			}
			if !m.Reject {
				if m.LogIndex > sh.last && m.LogIndex > sh.ssIndex {
					s.ctx.Violate("C04", "ack-before-persist", "replica %d acknowledged index %d while its durable log ends at %d (snapshot %d)", m.From, m.LogIndex, sh.last, sh.ssIndex)
				}
				if m.LogIndex > lg.maxAcked {
					lg.maxAcked = m.LogIndex
				}
			}
			o.noteTerm(lg, m.Term)
		case pb.HeartbeatResp:
			if sh.term < m.Term {
				s.ctx.Violate("C04", "send-before-persist", "HeartbeatResp term %d left replica %d while durable term=%d", m.Term, m.From, sh.term)
			}
			o.noteTerm(lg, m.Term)
		}
	}
}

func (o *oracles) noteTerm(lg *ledger, t uint64) {
	if t > lg.maxTerm {
		lg.maxTerm = t
	}
}

// onSaved is called by the recording log store when SaveRaftState returned nil.
func (o *oracles) onSaved(host int, uds []pb.Update) {
	sh := o.shadows[host]
	for _, ud := range uds {
		if !pb.IsEmptyState(ud.State) {
			sh.term, sh.vote, sh.commit = ud.State.Term, ud.State.Vote, ud.State.Commit
		}
		if !pb.IsEmptySnapshot(ud.Snapshot) {
			if ud.Snapshot.Index > sh.ssIndex {
				sh.ssIndex = ud.Snapshot.Index
			}
		}
		if len(ud.EntriesToSave) > 0 {
			first := ud.EntriesToSave[0].Index
			for i := first; i <= sh.last; i++ {
				delete(sh.log, i)
			}
			for _, e := range ud.EntriesToSave {
				sh.log[e.Index] = e.Term
			}
			sh.last = ud.EntriesToSave[len(ud.EntriesToSave)-1].Index
		}
	}
	o.s.ctx.Count("probe.saves", 1)
}

func (o *oracles) onCrash(h *Host) {
	o.checkRecovery[h.id] = true
}

// checkRecovered compares the state a restarted replica came back with against
// what it had promised before the crash.
func (o *oracles) checkRecovered(h *Host, st raft.VerifState) {
	s := o.s
	r, ok := h.nh.VerifGetReplica(shardID)
	if !ok || !r.Initialized() {
		return
	}
	o.checkRecovery[h.id] = false
	lg := o.ledgers[h.id]
	sh := o.shadows[h.id]
	s.ctx.Count("probe.recovery_checked", 1)
	if st.Term < lg.maxTerm {
		s.ctx.Violate("C04", "term-lost", "replica %d restarted with term %d, it had made term %d visible", st.ReplicaID, st.Term, lg.maxTerm)
	}
	if st.Term < sh.term {
		s.ctx.Violate("C04", "term-lost", "replica %d restarted with term %d, a save of term %d had been reported durable", st.ReplicaID, st.Term, sh.term)
	}
	if v, ok := lg.voteOf[st.Term]; ok && st.Vote != v && st.Term == lg.maxTerm {
		s.ctx.Violate("C04", "vote-lost", "replica %d restarted in term %d with vote %d, it had voted for %d", st.ReplicaID, st.Term, st.Vote, v)
	}
	// every entry whose save was reported durable is still there (the shadow
	// follows legitimate overwrites by newer leaders, so its end is what must
	// have survived; acknowledgements were checked against it when they left)
	// a snapshot record that arrived through SaveRaftState (InstallSnapshot on a
	// follower) stands for every entry up to its index: the replica
	// acknowledges that index to the leader right after the save
	if sh.ssIndex > 0 && sh.ssIndex >= sh.last && !s.importMode {
		s.ctx.Count("probe.recovery_checked_snapshot_record", 1)
		if st.LastIndex < sh.ssIndex {
			s.ctx.Violate("C04", "acked-entry-lost", "replica %d restarted with last index %d, the save of a snapshot record at index %d had been reported durable", st.ReplicaID, st.LastIndex, sh.ssIndex)
		}
	}
	if sh.last > 0 && sh.last > sh.ssIndex && !s.importMode {
		if st.LastIndex < sh.last {
			s.ctx.Violate("C04", "acked-entry-lost", "replica %d restarted with last index %d, saves up to index %d had been reported durable", st.ReplicaID, st.LastIndex, sh.last)
		} else if p, ok := r.Peer().(*raft.Peer); ok {
			if t, err := raft.VerifTermAt(p, sh.last); err == nil && t != sh.log[sh.last] && t != 0 {
				s.ctx.Violate("C04", "acked-entry-lost", "replica %d restarted with term %d at index %d, the durable entry there had term %d", st.ReplicaID, t, sh.last, sh.log[sh.last])
			}
		}
	}
}

// onDeliver records which replicas have answered which ReadIndex confirmation
// round (heartbeat responses echoing the hint) of which host.
func (o *oracles) onDeliver(from, to int, mb pb.MessageBatch) {
	if th := o.s.hosts[to]; th.up && len(mb.Requests) > 0 {
		// who the receiver has heard from, and when (in its own ticks); whether
		// the sender counted as a non-voting member for the receiver at that time
		nonVoting := false
		if st, ok := o.peek(th); ok {
			for _, rm := range st.Remotes {
				if rm.ReplicaID == o.s.hosts[from].replicaID && rm.Kind == "nonvoting" {
					nonVoting = true
				}
			}
		}
		if o.contact[to] == nil {
			o.contact[to] = map[int]contactRec{}
		}
		c := o.contact[to][from]
		c.tick = th.ticks
		if !nonVoting {
			c.votingTick, c.asVoting = th.ticks, true
		}
		o.contact[to][from] = c
	}
	for _, m := range mb.Requests {
		if m.Type == pb.HeartbeatResp && (m.Hint != 0 || m.HintHigh != 0) {
			ctx := pb.SystemCtx{Low: m.Hint, High: m.HintHigh}
			if o.readConf[to] == nil {
				o.readConf[to] = map[pb.SystemCtx]map[uint64]bool{}
			}
			if o.readConf[to][ctx] == nil {
				o.readConf[to][ctx] = map[uint64]bool{}
			}
			o.readConf[to][ctx][m.From] = true
		}
	}
}

type readWatch struct {
	leader  bool
	term    uint64
	pending []pb.SystemCtx
	members string
}

// checkReadConfirmation (C18): a pending ReadIndex round of a leader that
// disappears from its queue while it stays leader of the same term was
// confirmed; the replicas whose echoes had been delivered by then, without the
// non-voting ones, plus the leader itself must be a majority of voters +
// witnesses. Skipped when the leader's membership changed in the same step.
func (o *oracles) checkReadConfirmation(h *Host, st raft.VerifState) {
	s := o.s
	members := ""
	voting := 0
	kind := map[uint64]string{}
	for _, rm := range st.Remotes {
		members += fmt.Sprintf("%d%s,", rm.ReplicaID, rm.Kind)
		kind[rm.ReplicaID] = rm.Kind
		if rm.Kind != "nonvoting" {
			voting++
		}
	}
	prev := o.readWatch[h.id]
	cur := &readWatch{leader: st.Role == "Leader", term: st.Term, members: members,
		pending: append([]pb.SystemCtx(nil), st.PendingReads...)}
	o.readWatch[h.id] = cur
	if prev != nil && (len(prev.pending) > 0 || len(cur.pending) > 0) && fmt.Sprint(prev.pending) != fmt.Sprint(cur.pending) {
		s.ctx.Tracef("reads h%d leader=%t term=%d pending %v -> %v conf=%v", h.id+1, cur.leader, cur.term, prev.pending, cur.pending, o.readConf[h.id])
	}
	if prev == nil || !prev.leader || !cur.leader || prev.term != cur.term || prev.members != cur.members || len(prev.pending) == 0 {
		if !cur.leader {
			delete(o.readConf, h.id)
		}
		return
	}
	still := map[pb.SystemCtx]bool{}
	for _, c := range cur.pending {
		still[c] = true
	}
	// the queue is released front to back: the last one gone is the confirmed one
	last := -1
	for i, c := range prev.pending {
		if !still[c] {
			last = i
		}
	}
	if last < 0 {
		return
	}
	if o.dupReadIndex > 0 {
		// the network duplicated a forwarded ReadIndex message (outside the fault
		// model of C06/C18, which names heartbeat duplication): the same round id
		// can then be queued a second time behind later rounds, and a late echo
		// of its first life releases those too - seen, recorded in DESIGN.md as an
		// observation, not judged here
		s.ctx.Count("probe.readindex_round_after_dup_readindex", 1)
		return
	}
	ctx := prev.pending[last]
	n := 1 // the leader itself
	var who []uint64
	for id := range o.readConf[h.id][ctx] {
		if id != st.ReplicaID && kind[id] != "nonvoting" {
			n++
		}
		who = append(who, id)
	}
	sort.Slice(who, func(i, j int) bool { return who[i] < who[j] })
	s.ctx.Count("probe.readindex_round_confirmed", 1)
	if n < voting/2+1 {
		// C06: "answered only by a replica that was confirmed as leader by a quorum
		// of voting members after it received the request" - the echoes of this
		// very round, not of an earlier one
		s.ctx.Violate("C06", "unconfirmed-round", "leader %d (term %d, members %s) released ReadIndex round %d/%d although the echoes of that round delivered to it came from %v only: %d of %d voting members incl. itself, quorum is %d", st.ReplicaID, st.Term, members, ctx.Low, ctx.High, who, n, voting, voting/2+1)
		s.ctx.Violate("C18", "read-quorum", "leader %d (term %d, members %s) released ReadIndex round %d/%d when the echoes delivered to it came from %v: %d of %d voting members incl. itself, quorum is %d", st.ReplicaID, st.Term, members, ctx.Low, ctx.High, who, n, voting, voting/2+1)
	}
	for i := 0; i <= last; i++ {
		delete(o.readConf[h.id], prev.pending[i])
	}
}

// pendingReq is an abandoned request that must still terminate (C12).
type pendingReq struct {
	rs      *dragonboat.RequestState
	host    *Host
	hinc    int
	issued  int64
	timeout int64
	results int
}

func (o *oracles) pollAbandoned() {
	s := o.s
	for _, p := range o.abandoned {
		if p.host.inc != p.hinc {
			continue
		}
		select {
		case r := <-p.rs.ResultC():
			if r.Committed() && !r.Completed() {
				continue
			}
			p.results++
			if p.results > 1 {
				s.ctx.Violate("C12", "second-result", "abandoned request delivered a second terminal result")
			}
		default:
			if p.results == 0 && p.host.up && !s.faultsOn && p.host.ticks-p.issued > p.timeout+200 {
				s.ctx.Violate("C12", "no-terminal-result", "request has no result %d ticks after it was issued (timeout %d)", p.host.ticks-p.issued, p.timeout)
				p.results = -1000
			}
		}
	}
}

// ---------------- C12 / C01 ----------------

func (o *oracles) onAccepted(c *Client) { o.results[c] = 0 }

func (o *oracles) onResult(c *Client, r dragonboat.RequestResult) {}

func (o *oracles) onWriteCompleted(c *Client, op *histOp, res sm.Result) {
	s := o.s
	o.completedOps++
	if QuietWrite(op.wid) {
		if res.Value != 0 || len(res.Data) != 0 {
			s.ctx.Violate("C12", "foreign-result", "write %d (answered with the empty result by the state machine) completed with the result {%d %x}", op.wid, res.Value, res.Data)
		}
		return
	}
	if res.Value != op.wid {
		s.ctx.Violate("C12", "foreign-result", "write %d completed with the result of write %d", op.wid, res.Value)
		return
	}
	if len(res.Data) == 8 {
		op.outVer = binary.LittleEndian.Uint64(res.Data)
	}
	// Completed only after the entry was applied on the local replica
	h := c.host
	if h.sm != nil && h.inc == c.hinc {
		if n := o.widCount[h.sm][op.wid]; n == 0 {
			// the local SM may have been rebuilt from a snapshot containing it
			v := h.sm.st.kv[op.key]
			if v.Ver < op.outVer {
				s.ctx.Violate("C12", "completed-before-apply", "write %d reported Completed on replica %d whose state machine has not applied it", op.wid, h.replicaID)
			}
		}
	}
}

// onReadIndexCompleted: C06 - the reader is released only after the local
// applied index has reached an index that is at least the shard's commit index
// at the moment the request was issued.
func (o *oracles) onReadIndexCompleted(c *Client) {
	s := o.s
	h := c.host
	if h.nh == nil || h.inc != c.hinc {
		return
	}
	r, ok := h.nh.VerifGetReplica(shardID)
	if !ok {
		return
	}
	applied := r.Applied()
	s.ctx.Count("probe.readindex_completed", 1)
	if applied < c.commitAtIssue {
		s.ctx.Violate("C06", "stale-read-index", "ReadIndex issued on replica %d when the shard's commit index was %d was released with local applied index %d", h.replicaID, c.commitAtIssue, applied)
	}
	if h.role == roleWitness {
		s.ctx.Violate("C18", "witness-served-read", "ReadIndex completed on witness replica %d", h.replicaID)
	}
}

func (o *oracles) checkDeadline(c *Client) {
	s := o.s
	if c.host.inc != c.hinc || !c.host.up {
		return
	}
	// generous bound chosen by us (not read from the code): the request's own
	// timeout plus 200 ticks of slack, only while the host keeps ticking and
	// its workers are being scheduled fairly (final phase)
	if !s.faultsOn {
		if c.host.ticks-c.issuedTick > int64(s.cfg.TimeoutTicks)+200 {
			s.ctx.Violate("C12", "no-terminal-result", "request of client %d has no result %d ticks after it was issued (timeout %d)", c.id, c.host.ticks-c.issuedTick, s.cfg.TimeoutTicks)
		}
	}
}

func (o *oracles) recordOp(op *histOp) {
	if op.recorded {
		return
	}
	op.recorded = true
	o.history = append(o.history, op)
}

// recordOutstanding adds every write still in flight when the run ends (no
// result yet, or a session proposal waiting to be retried) to the history with
// an unknown outcome: it may have been applied.
func (o *oracles) recordOutstanding() {
	for _, c := range o.s.clients {
		for _, op := range []*histOp{c.op, c.retry} {
			if op != nil && op.write && op.wid != 0 && !op.known {
				if op.failed == "" {
					op.failed = "outstanding"
				}
				o.recordOp(op)
			}
		}
	}
}

// ---------------- liveness / convergence ----------------

func (o *oracles) converged() bool {
	s := o.s
	var applied uint64
	first := true
	for _, h := range s.hosts {
		if !h.joined || h.removed {
			continue
		}
		if !h.up || !h.started || h.stopped {
			return false
		}
		st, ok := o.peek(h)
		if !ok {
			return false
		}
		if first {
			applied, first = st.Applied, false
		} else if st.Applied != applied {
			return false
		}
		if st.Committed != st.Applied {
			return false
		}
	}
	return !first
}

func (o *oracles) livenessFailed(what string) { o.livenessFailedFor("C17", what) }

func (o *oracles) livenessFailedFor(prop string, what string) {
	s := o.s
	desc := what + ": "
	for _, h := range s.hosts {
		st, ok := o.peek(h)
		desc += fmt.Sprintf("[h%d up=%t ok=%t role=%s term=%d leader=%d commit=%d applied=%d last=%d] ", h.id+1, h.up, ok, st.Role, st.Term, st.LeaderID, st.Committed, st.Applied, st.LastIndex)
	}
	for _, c := range s.clients {
		desc += fmt.Sprintf("[c%d phase=%d finalLeft=%d", c.id, c.phase, c.finalLeft)
		if c.phase == 1 && c.host != nil {
			desc += fmt.Sprintf(" on=h%d inc=%d/%d issuedTick=%d hostTicks=%d write=%t", c.host.id+1, c.hinc, c.host.inc, c.issuedTick, c.host.ticks, c.op.write)
		}
		desc += "] "
	}
	for _, x := range s.hosts {
		if !x.removed {
			continue
		}
		// the log index of the membership change that removed x (ConfigChangeId
		// of the first observed membership that lists it as removed)
		var removalIndex uint64
		for ccid, v := range o.memByCCID {
			if v.removed[x.replicaID] && (removalIndex == 0 || ccid < removalIndex) {
				removalIndex = ccid
			}
		}
		if removalIndex == 0 {
			continue // nobody ever applied the removal
		}
		for _, h := range s.hosts {
			if st, ok := o.peek(h); ok && h != x && st.Committed < removalIndex {
				for _, rm := range st.Remotes {
					if rm.ReplicaID == x.replicaID && !strings.HasPrefix(desc, "cause=") {
						desc = fmt.Sprintf("cause=removed-replica-still-counted: the removal of replica %d (log index %d) was applied and the replica is gone; replica %d (commit index %d) does not know that the removal committed - it never learned it, or it lost the knowledge in a crash (the commit index is not synced) - and still counts it as a member; ", x.replicaID, removalIndex, h.replicaID, st.Committed) + desc
					}
				}
			}
		}
	}
	// a second consequence of a leader that stops the moment it applies its own
	// removal: entries it appended after the removal entry were committed by
	// itself plus the witness; no remaining full member holds them, and the
	// witness (whose log is now the longest) refuses every remaining voter
	for _, x := range s.hosts {
		// x.removed without selfRemoved: the removed leader crashed right after
		// (or while) applying its removal; removed hosts are not restarted
		if !x.removed || strings.HasPrefix(desc, "cause=") {
			continue
		}
		for _, w := range s.hosts {
			ws, ok := o.peekFull(w)
			if !ok || !ws.IsWitness {
				continue
			}
			behind, voters := 0, 0
			for _, h := range s.hosts {
				hs, ok := o.peekFull(h)
				if !ok || hs.IsWitness || h == x {
					continue
				}
				// a full member counts as a voter if the newest membership applied
				// anywhere says so, even if it does not know yet (promoted by
				// entries it never received)
				if o.latest != nil {
					if _, isVoter := o.latest.voters[h.replicaID]; !isVoter {
						continue
					}
				} else if hs.IsNonVoting {
					continue
				}
				voters++
				if hs.LastTerm < ws.LastTerm || (hs.LastTerm == ws.LastTerm && hs.LastIndex < ws.LastIndex) {
					behind++
				}
			}
			// the entries only the witness holds were written by the replica that
			// was removed (it led the term of the witness's last entry): a witness
			// that is ahead for any other reason is not this finding
			if voters > 0 && behind == voters && o.leaderOfTerm[ws.LastTerm] == x.replicaID {
				desc = fmt.Sprintf("cause=witness-ahead-of-every-voter: replica %d was removed and is gone, witness %d holds the metadata of entries up to (term %d, index %d) that no remaining full member has; ", x.replicaID, w.replicaID, ws.LastTerm, ws.LastIndex) + desc
				break
			}
		}
	}
	s.ctx.Violate(prop, "no-progress", "fair fault-free phase of %d ticks per host did not finish: %s tasks=%s", int(s.cfg.ElectionRTT)*60, desc, s.ex.Describe())
}

// stableLeader: every running member knows the same leader, which is itself
// in the leader role in that term.
func (o *oracles) stableLeader() bool {
	s := o.s
	var leader, term uint64
	n := 0
	for _, h := range s.hosts {
		if !h.joined || h.removed {
			continue
		}
		if !h.up || !h.started || h.stopped {
			s.ctx.Tracef("stableLeader: h%d not running up=%t started=%t stopped=%t", h.id+1, h.up, h.started, h.stopped)
			return false
		}
		st, ok := o.peek(h)
		if !ok || st.LeaderID == 0 {
			s.ctx.Tracef("stableLeader: h%d no leader ok=%t", h.id+1, ok)
			return false
		}
		if n == 0 {
			leader, term = st.LeaderID, st.Term
		} else if st.LeaderID != leader || st.Term != term {
			s.ctx.Tracef("stableLeader: h%d disagrees", h.id+1)
			return false
		}
		n++
	}
	if n == 0 {
		return false
	}
	for _, h := range s.hosts {
		if h.replicaID == leader {
			st, ok := o.peek(h)
			return ok && st.Role == "Leader" && st.Term == term
		}
	}
	return false
}

// ---------------- final checks ----------------

type regInput struct {
	write bool
	wid   uint64
}
type regOutput struct {
	known bool
	val   uint64
	ver   uint64
}

func (o *oracles) finalChecks() {
	s := o.s
	// C02: replicas that applied the same index hold the same user state
	type stRec struct {
		hash uint64
		host int
	}
	byApplied := map[uint64]stRec{}
	for _, h := range s.hosts {
		if !h.up || h.sm == nil || h.role == roleWitness || !h.started || h.removed {
			continue
		}
		st, ok := o.peek(h)
		if !ok {
			continue
		}
		busy := false
		for _, n := range h.sm.Active {
			if n > 0 {
				busy = true
			}
		}
		if busy {
			continue
		}
		hs := h.sm.st.hash()
		if prev, ok := byApplied[st.Applied]; ok {
			if prev.hash != hs {
				s.ctx.Violate("C02", "state-divergence", "replicas %d and %d both applied index %d but hold different user state", prev.host+1, h.id+1, st.Applied)
			}
		} else {
			byApplied[st.Applied] = stRec{hash: hs, host: h.id}
		}
	}
	o.checkCampaigns()
	o.recordOutstanding()
	o.checkStaleReads()
	o.checkLinearizable()
}

// checkStaleReads: a linearizable read invoked after a write to the same key
// was acknowledged must see that write or a later one. Every applied write
// bumps the key's version, so the comparison of versions is exact whatever the
// network did (a duplicated proposal only adds versions).
func (o *oracles) checkStaleReads() {
	s := o.s
	for _, r := range o.history {
		if r.write || !r.known {
			continue
		}
		for _, w := range o.history {
			if w.write && w.known && w.key == r.key && w.outVer != 0 && w.ret < r.call && w.outVer > r.outVer {
				s.ctx.Violate("C06", "stale-read", "read of key %d by client %d (invoked at %d) returned version %d, but write %d had been acknowledged with version %d at %d", r.key, r.client, r.call, r.outVer, w.wid, w.outVer, w.ret)
				// the same fact is a linearizability violation (C01, which is stated
				// for networks that do not duplicate messages)
				if o.dupFired == 0 {
					s.ctx.Violate("C01", "stale-read", "read of key %d by client %d (invoked at %d) returned version %d, but write %d had been acknowledged with version %d at %d", r.key, r.client, r.call, r.outVer, w.wid, w.outVer, w.ret)
				}
				return
			}
		}
	}
}

func (o *oracles) checkLinearizable() {
	s := o.s
	if len(o.history) == 0 {
		return
	}
	if o.dupFired > 0 {
		// C01 holds "as long as no message is fabricated or duplicated by the network"
		return
	}
	const inf = int64(1) << 60
	byKey := map[byte][]porcupine.Operation{}
	appliedWids := map[uint64]bool{}
	for _, rec := range o.appliedAt {
		appliedWids[rec.wid] = true
	}
	for _, op := range o.history {
		if op.write && !op.known && !appliedWids[op.wid] {
			// a write with unknown outcome that no replica ever applied never took
			// effect (the state machines themselves report every application)
			continue
		}
		in := regInput{write: op.write, wid: op.wid}
		out := regOutput{known: op.known, val: op.outVal, ver: op.outVer}
		ret := op.ret
		if !op.known {
			ret = inf
		}
		byKey[op.key] = append(byKey[op.key], porcupine.Operation{ClientId: op.client, Input: in,
			Call: op.call, Output: out, Return: ret})
	}
	nm := porcupine.NondeterministicModel{
		Init: func() []interface{} { return []interface{}{KVVal{}} },
		Step: func(state, input, output interface{}) []interface{} {
			st := state.(KVVal)
			in := input.(regInput)
			out := output.(regOutput)
			if in.write {
				ns := KVVal{Val: in.wid, Ver: st.Ver + 1}
				if out.known && out.ver != 0 && out.ver != ns.Ver {
					return nil
				}
				// unknown outcome but applied by some replica: took effect once at
				// some point after its invocation
				return []interface{}{ns}
			}
			if st.Val == out.val && st.Ver == out.ver {
				return []interface{}{st}
			}
			return nil
		},
		Equal: func(a, b interface{}) bool { return a.(KVVal) == b.(KVVal) },
	}
	model := nm.ToModel()
	keys := make([]int, 0, len(byKey))
	for k := range byKey {
		keys = append(keys, int(k))
	}
	sort.Ints(keys)
	for _, k := range keys {
		ops := byKey[byte(k)]
		res := porcupine.CheckOperationsTimeout(model, ops, 5*time.Second)
		switch res {
		case porcupine.Illegal:
			s.ctx.Violate("C01", "not-linearizable", "history of key %d (%d operations) is not linearizable: %s", k, len(ops), describeOps(ops))
		case porcupine.Unknown:
			s.ctx.Count("probe.linearizability_inconclusive", 1)
		default:
			s.ctx.Count("probe.linearizable_histories", 1)
		}
	}
	for _, w := range o.deadWids {
		for _, rec := range o.appliedAt {
			if rec.wid == w {
				s.ctx.Violate("C05", "unregistered-session-applied", "write %d proposed with an unregistered session was applied", w)
			}
		}
	}
	// Dropped/Rejected writes never reach the state machine
	for _, op := range o.history {
		if op.dropped && op.write {
			for _, rec := range o.appliedAt {
				if rec.wid == op.wid {
					s.ctx.Violate("C12", "dropped-but-applied", "write %d was reported %s but was applied", op.wid, op.failed)
				}
			}
		}
	}
}

func describeOps(ops []porcupine.Operation) string {
	sort.Slice(ops, func(i, j int) bool { return ops[i].Call < ops[j].Call })
	out := ""
	for _, op := range ops {
		in := op.Input.(regInput)
		o := op.Output.(regOutput)
		ret := fmt.Sprint(op.Return)
		if op.Return >= int64(1)<<60 {
			ret = "inf"
		}
		if in.write {
			out += fmt.Sprintf("[c%d w(%d) %d..%s known=%t ver=%d] ", op.ClientId, in.wid, op.Call, ret, o.known, o.ver)
		} else {
			out += fmt.Sprintf("[c%d r->(%d,v%d) %d..%s] ", op.ClientId, o.val, o.ver, op.Call, ret)
		}
		if len(out) > 1500 {
			out += "..."
			break
		}
	}
	return out
}

package simhost

import (
	"time"

	dragonboat "github.com/lni/dragonboat/v4"
	"github.com/lni/dragonboat/v4/client"
)

// histOp is one client operation of the recorded history.
type histOp struct {
	client  int
	host    int
	write   bool
	key     byte
	wid     uint64
	call    int64
	ret     int64 // 0 = never returned (maybe)
	outVal  uint64
	outVer  uint64
	known   bool // outcome known (Completed)
	failed  string
	dropped bool // op provably never took effect (rejected before acceptance)
}

// Client is a simulated user of the public API.
type Client struct {
	id    int
	sim   *Sim
	phase int // 0 idle, 1 waiting for result, 2 read index confirmed: local read pending, 3 local read running
	host  *Host
	hinc  int
	rs    *dragonboat.RequestState
	op    *histOp
	issuedTick int64
	commitAtIssue uint64 // highest commit index seen on any replica when the request was issued
	committedSeen int
	session *client.Session
	final     bool
	finalLeft int
	readVal   KVVal
	readErr   error
	readDone  bool
	held      []*heldReq // completed requests kept (not released) to detect a second result
	nextAt    int64      // earliest global tick of the next operation (back off after failures)
	issued    int
}

type heldReq struct {
	rs   *dragonboat.RequestState
	host *Host
	hinc int
	desc string
}

func (c *Client) canAct() bool {
	switch c.phase {
	case 0:
		if c.sim.ticks < c.nextAt {
			return false
		}
		if c.final {
			return c.finalLeft > 0
		}
		return c.issued < c.sim.cfg.OpsPerClient
	case 2:
		return c.host.up && c.host.inc == c.hinc
	}
	return false
}

func (c *Client) beginFinal() {
	// liveness is about requests submitted after the faults stopped: a request
	// still outstanding from the fault phase is abandoned (its outcome stays
	// unknown; its channel keeps being watched for C12)
	if c.phase == 1 {
		if c.op != nil && c.op.write {
			c.op.failed = "abandoned"
			c.sim.orc.recordOp(c.op)
		}
		c.sim.orc.abandoned = append(c.sim.orc.abandoned, &pendingReq{rs: c.rs, host: c.host, hinc: c.hinc, issued: c.issuedTick, timeout: int64(c.sim.cfg.TimeoutTicks)})
		c.op, c.phase, c.rs = nil, 0, nil
	} else if c.phase == 2 {
		c.rs.Release()
		c.op, c.phase, c.rs = nil, 0, nil
	}
	c.final = true
	c.finalLeft = 2
	c.nextAt = 0
}

func (c *Client) finalDone() bool {
	return c.final && c.finalLeft == 0 && c.phase == 0
}

func (c *Client) pickHost() *Host {
	s := c.sim
	var cands []*Host
	for _, h := range s.hosts {
		if h.up && !h.stopped && !h.removed && h.started && s.shardLoaded(h) && (h.role != roleWitness || h.initial || s.src.Chance(1, 10)) {
			cands = append(cands, h)
		}
	}
	if len(cands) == 0 {
		return nil
	}
	return cands[s.src.Intn(len(cands))]
}

func (c *Client) timeout() time.Duration {
	if c.final {
		return 40 * time.Millisecond
	}
	return time.Duration(c.sim.cfg.TimeoutTicks) * time.Millisecond
}

// act issues the next step of the client's program.
func (c *Client) act() {
	s := c.sim
	if c.phase == 2 {
		c.localRead()
		return
	}
	h := c.pickHost()
	if h == nil {
		return
	}
	key := byte(s.src.Intn(s.cfg.Keys))
	isRead := s.src.Intn(100) < s.cfg.ReadMix
	if c.final {
		// the last operations of every client: a write then a read
		isRead = c.finalLeft == 1
	}
	op := &histOp{client: c.id, host: h.id, key: key, write: !isRead}
	nh := h.nh
	var rs *dragonboat.RequestState
	var err error
	if isRead {
		s.ctx.Ev("client.readindex", uint64(c.id), uint64(h.id), uint64(key))
		op.call = s.stamp()
		s.runTask("client.readindex", h, "", func() {
			rs, err = nh.ReadIndex(shardID, c.timeout())
		})
	} else {
		s.nextWID++
		op.wid = s.nextWID
		cmd := MakeCmd(key, op.wid, s.cfg.Pad)
		s.ctx.Ev("client.propose", uint64(c.id), uint64(h.id), uint64(key), op.wid)
		op.call = s.stamp()
		s.runTask("client.propose", h, "", func() {
			rs, err = nh.Propose(nh.GetNoOPSession(shardID), cmd, c.timeout())
		})
	}
	s.ctx.Count("ev.client_op", 1)
	c.issued++
	if err != nil || rs == nil {
		c.nextAt = s.ticks + 4
		// not accepted: never takes effect
		s.ctx.Count("probe.request_refused", 1)
		s.ctx.Tracef("client %d refused: %v", c.id, err)
		if c.final && err != nil {
			// keep trying in the final phase
		}
		return
	}
	c.op = op
	c.rs = rs
	c.host = h
	c.hinc = h.inc
	c.phase = 1
	c.issuedTick = h.ticks
	c.commitAtIssue = s.orc.maxCommitted
	c.committedSeen = 0
	s.orc.onAccepted(c)
}

// poll looks at the result channel without blocking.
func (c *Client) poll() {
	s := c.sim
	for _, hr := range c.held {
		if hr.host.inc != hr.hinc {
			continue
		}
		select {
		case r := <-hr.rs.ResultC():
			_ = r
			s.ctx.Violate("C12", "second-result", "request %s delivered a second result on its channel", hr.desc)
		default:
		}
	}
	if c.phase == 3 && c.readDone {
		c.readDone = false
		op := c.op
		if c.readErr != nil {
			// the read did not happen
			s.ctx.Count("probe.localread_failed", 1)
			c.op, c.phase = nil, 0
			return
		}
		op.ret = s.stamp()
		op.known = true
		op.outVal, op.outVer = c.readVal.Val, c.readVal.Ver
		s.orc.recordOp(op)
		s.orc.completedReads++
		if c.final {
			c.finalLeft--
		}
		c.op, c.phase = nil, 0
		return
	}
	if c.phase != 1 {
		return
	}
	if c.host.inc != c.hinc {
		return // handled by hostDied
	}
	select {
	case r := <-c.rs.ResultC():
		if r.Committed() && !r.Completed() {
			c.committedSeen++
			if c.committedSeen > 1 {
				s.ctx.Violate("C12", "double-committed", "two Committed notifications for one request")
			}
			if !s.cfg.NotifyCommit {
				s.ctx.Violate("C12", "unexpected-committed", "Committed notification without NotifyCommit")
			}
			return
		}
		s.orc.onResult(c, r)
		op := c.op
		switch {
		case r.Completed():
			if op.write {
				op.ret = s.stamp()
				op.known = true
				res := r.GetResult()
				s.orc.onWriteCompleted(c, op, res)
				s.orc.recordOp(op)
				c.hold("write")
				if c.final {
					c.finalLeft--
				}
				c.op, c.phase, c.rs = nil, 0, nil
			} else {
				s.orc.onReadIndexCompleted(c)
				c.phase = 2
			}
		default:
			// Timeout, Terminated, Dropped, Aborted, Rejected
			kind := "timeout"
			switch {
			case r.Terminated():
				kind = "terminated"
			case r.Dropped():
				kind = "dropped"
			case r.Rejected():
				kind = "rejected"
			case r.Aborted():
				kind = "aborted"
			}
			s.ctx.Count("probe.result_"+kind, 1)
			op.failed = kind
			c.nextAt = s.ticks + 4
			if op.write {
				if r.Dropped() || r.Rejected() {
					op.dropped = true
				}
				s.orc.recordOp(op)
			}
			c.hold(kind)
			c.op, c.phase, c.rs = nil, 0, nil
		}
	default:
		s.orc.checkDeadline(c)
	}
}

// hold keeps a finished request (not released) so that a second result on its
// channel can be seen.
func (c *Client) hold(desc string) {
	if len(c.held) >= 4 {
		old := c.held[0]
		c.held = c.held[1:]
		if old.host.inc == old.hinc {
			old.rs.Release()
		}
	}
	c.held = append(c.held, &heldReq{rs: c.rs, host: c.host, hinc: c.hinc, desc: desc})
}

func (c *Client) localRead() {
	s := c.sim
	h := c.host
	nh := h.nh
	rs := c.rs
	key := c.op.key
	c.phase = 3
	c.readDone = false
	s.ctx.Ev("client.localread", uint64(c.id), uint64(h.id), uint64(key))
	s.runTask("client.localread", h, "", func() {
		v, err := nh.ReadLocalNode(rs, QueryKey(key))
		c.readErr = err
		if err == nil {
			c.readVal = v.(KVVal)
		}
		rs.Release()
		c.readDone = true
	})
}

// hostDied is called when a host crashes.
func (c *Client) hostDied(h *Host) {
	if c.phase == 0 || c.host != h {
		return
	}
	op := c.op
	if op != nil && op.write {
		op.failed = "host-crashed"
		c.sim.orc.recordOp(op)
	}
	c.op, c.phase, c.rs = nil, 0, nil
	c.readDone = false
}

// shardStopped is called when the shard of a host is stopped gracefully: the
// outstanding requests will be Terminated through their channels.
func (c *Client) shardStopped(h *Host) {}

package simhost

import (
	"time"

	dragonboat "github.com/lni/dragonboat/v4"
	"github.com/lni/dragonboat/v4/client"
)

// histOp is one client operation of the recorded history.
type histOp struct {
	client   int
	host     int
	write    bool
	key      byte
	wid      uint64
	call     int64
	ret      int64 // 0 = never returned (maybe)
	outVal   uint64
	outVer   uint64
	known    bool // outcome known (Completed)
	failed   string
	dropped  bool // op provably never took effect (rejected before acceptance)
	recorded bool
	retried  bool // proposed more than once (same session, same series id)
}

// Client is a simulated user of the public API.
type Client struct {
	id            int
	sim           *Sim
	phase         int // 0 idle, 1 waiting for result, 2 read index confirmed: local read pending, 3 local read running
	host          *Host
	hinc          int
	rs            *dragonboat.RequestState
	op            *histOp
	issuedTick    int64
	commitAtIssue uint64 // highest commit index seen on any replica when the request was issued
	committedSeen int
	session       *client.Session // registered session (nil: not registered / no-op mode)
	sessOp        string          // "", "register", "unregister", "dead-propose": what the outstanding request is
	regSess       *client.Session // session being registered / unregistered
	deadSess      *client.Session // a session that was unregistered (proposals with it must be Rejected)
	chase         bool            // the next operation is a read of chaseKey
	chaseKey      byte
	retry         *histOp // a session proposal whose outcome is unknown: retried with the same series id
	retryCmd      []byte
	final         bool
	finalLeft     int
	readVal       KVVal
	readErr       error
	readDone      bool
	held          []*heldReq // completed requests kept (not released) to detect a second result
	nextAt        int64      // earliest global tick of the next operation (back off after failures)
	issued        int
}

type heldReq struct {
	rs   *dragonboat.RequestState
	host *Host
	hinc int
	desc string
}

func (c *Client) canAct() bool {
	switch c.phase {
	case 0:
		if c.sim.ticks < c.nextAt {
			return false
		}
		if c.final {
			return c.finalLeft > 0
		}
		return c.issued < c.sim.cfg.OpsPerClient
	case 2:
		return c.host.up && c.host.inc == c.hinc
	}
	return false
}

func (c *Client) beginFinal() {
	// liveness is about requests submitted after the faults stopped: a request
	// still outstanding from the fault phase is abandoned (its outcome stays
	// unknown; its channel keeps being watched for C12)
	if c.phase == 1 {
		if c.sessOp == "register" || c.sessOp == "unregister" {
			c.regSess = nil
		}
		if c.sessOp == "dead-propose" {
			c.sim.orc.deadWids = append(c.sim.orc.deadWids, c.op.wid)
		}
		c.sessOp = ""
		if c.op != nil && c.op.write {
			c.op.failed = "abandoned"
			c.sim.orc.recordOp(c.op)
			// the series id of the abandoned proposal must not be reused for
			// another command: the client gives the session up
			c.session, c.retry = nil, nil
		}
		c.sim.orc.abandoned = append(c.sim.orc.abandoned, &pendingReq{rs: c.rs, host: c.host, hinc: c.hinc, issued: c.issuedTick, timeout: int64(c.sim.cfg.TimeoutTicks)})
		c.op, c.phase, c.rs = nil, 0, nil
	} else if c.phase == 2 {
		c.rs.Release()
		c.op, c.phase, c.rs = nil, 0, nil
	}
	if c.retry != nil {
		// stop retrying: the outcome of that proposal stays unknown
		c.retry.failed = "abandoned"
		c.sim.orc.recordOp(c.retry)
		c.retry = nil
		c.session = nil
	}
	c.deadSess = nil
	c.final = true
	c.finalLeft = 2
	c.nextAt = 0
}

func (c *Client) finalDone() bool {
	return c.final && c.finalLeft == 0 && c.phase == 0
}

func (c *Client) pickHost() *Host {
	s := c.sim
	// a witness has no state machine and so no client sessions: NodeHost.Propose
	// panics when given a registered session for one (API misuse, not modelled)
	sessions := s.cfg.Sessions && s.cfg.SMKind != KindOnDisk
	var cands []*Host
	for _, h := range s.hosts {
		if h.up && !h.stopped && !h.removed && h.started && s.shardLoaded(h) && (h.role != roleWitness || h.initial || (s.src.Chance(1, 10) && !sessions)) {
			cands = append(cands, h)
		}
	}
	if len(cands) == 0 {
		return nil
	}
	return cands[s.src.Intn(len(cands))]
}

func (c *Client) timeout() time.Duration {
	if c.final {
		return 40 * time.Millisecond
	}
	return time.Duration(c.sim.cfg.TimeoutTicks) * time.Millisecond
}

// act issues the next step of the client's program.
func (c *Client) act() {
	s := c.sim
	if c.phase == 2 {
		c.localRead()
		return
	}
	h := c.pickHost()
	if h == nil {
		return
	}
	useSessions := s.cfg.Sessions && s.cfg.SMKind != KindOnDisk
	nh := h.nh
	var rs *dragonboat.RequestState
	var err error
	var op *histOp
	c.sessOp = ""
	switch {
	case useSessions && c.retry != nil:
		// the API prescribes: after a timeout retry with the same series id
		op = c.retry
		op.retried = true
		cmd := c.retryCmd
		sess := c.session
		s.ctx.Ev("client.retry", uint64(c.id), uint64(h.id), uint64(op.key), op.wid)
		s.ctx.Count("probe.session_retry", 1)
		s.runTask("client.propose", h, "", func() { rs, err = nh.Propose(sess, cmd, c.timeout()) })
	case useSessions && c.session == nil:
		cs := client.NewSession(shardID, s.auxSource())
		cs.PrepareForRegister()
		c.regSess = cs
		c.sessOp = "register"
		op = &histOp{client: c.id, host: h.id}
		s.ctx.Ev("client.register", uint64(c.id), uint64(h.id))
		s.runTask("client.register", h, "", func() { rs, err = nh.ProposeSession(cs, c.timeout()) })
	case useSessions && !c.final && c.deadSess != nil && s.src.Chance(1, 4):
		// a proposal of an unregistered session must be Rejected
		ds := c.deadSess
		c.deadSess = nil
		// an application that keeps using a session it has unregistered: the next
		// series id of that session (PrepareForPropose would rewind it below
		// RespondedTo, which the client library itself refuses with a panic)
		ds.SeriesID = ds.RespondedTo + 1
		s.nextWID++
		op = &histOp{client: c.id, host: h.id, key: byte(s.src.Intn(s.cfg.Keys)), write: true, wid: s.nextWID}
		cmd := MakeCmd(op.key, op.wid, s.cfg.Pad)
		c.sessOp = "dead-propose"
		s.ctx.Ev("client.deadpropose", uint64(c.id), uint64(h.id), op.wid)
		op.call = s.stamp()
		s.runTask("client.propose", h, "", func() { rs, err = nh.Propose(ds, cmd, c.timeout()) })
	case useSessions && !c.final && s.src.Chance(1, 12):
		cs := c.session
		c.session = nil
		cs.PrepareForUnregister()
		c.regSess = cs
		c.sessOp = "unregister"
		op = &histOp{client: c.id, host: h.id}
		s.ctx.Ev("client.unregister", uint64(c.id), uint64(h.id))
		s.runTask("client.unregister", h, "", func() { rs, err = nh.ProposeSession(cs, c.timeout()) })
	default:
		key := byte(s.src.Intn(s.cfg.Keys))
		isRead := s.src.Intn(100) < s.cfg.ReadMix
		if c.chase && !c.final {
			// right after an acknowledged write: read that key (on whichever
			// replica was picked), the read that has most to lose
			key, isRead = c.chaseKey, true
		}
		c.chase = false
		if c.final {
			// the last operations of every client: a write then a read
			isRead = c.finalLeft == 1
		}
		op = &histOp{client: c.id, host: h.id, key: key, write: !isRead}
		if isRead {
			s.ctx.Ev("client.readindex", uint64(c.id), uint64(h.id), uint64(key))
			op.call = s.stamp()
			s.runTask("client.readindex", h, "", func() {
				rs, err = nh.ReadIndex(shardID, c.timeout())
			})
		} else {
			s.nextWID++
			op.wid = s.nextWID
			cmd := MakeCmd(key, op.wid, s.cfg.Pad)
			sess := c.session
			if !useSessions {
				sess = nil
			}
			s.ctx.Ev("client.propose", uint64(c.id), uint64(h.id), uint64(key), op.wid)
			op.call = s.stamp()
			if sess != nil {
				c.retryCmd = cmd
			}
			s.runTask("client.propose", h, "", func() {
				if sess == nil {
					sess = nh.GetNoOPSession(shardID)
				}
				rs, err = nh.Propose(sess, cmd, c.timeout())
			})
		}
	}
	s.ctx.Count("ev.client_op", 1)
	c.issued++
	if err != nil || rs == nil {
		c.nextAt = s.ticks + 4
		// not accepted: never takes effect
		s.ctx.Count("probe.request_refused", 1)
		s.ctx.Tracef("client %d refused: %v", c.id, err)
		if c.sessOp == "register" || c.sessOp == "unregister" {
			c.regSess = nil
		}
		c.sessOp = ""
		return
	}
	c.op = op
	c.rs = rs
	c.host = h
	c.hinc = h.inc
	c.phase = 1
	c.issuedTick = h.ticks
	c.commitAtIssue = s.orc.maxCommitted
	c.committedSeen = 0
	s.orc.onAccepted(c)
}

// poll looks at the result channel without blocking.
func (c *Client) poll() {
	s := c.sim
	for _, hr := range c.held {
		if hr.host.inc != hr.hinc {
			continue
		}
		select {
		case r := <-hr.rs.ResultC():
			_ = r
			s.ctx.Violate("C12", "second-result", "request %s delivered a second result on its channel", hr.desc)
		default:
		}
	}
	if c.phase == 3 && c.readDone {
		c.readDone = false
		op := c.op
		if c.readErr != nil {
			// the read did not happen
			s.ctx.Count("probe.localread_failed", 1)
			c.op, c.phase = nil, 0
			return
		}
		op.ret = s.stamp()
		op.known = true
		op.outVal, op.outVer = c.readVal.Val, c.readVal.Ver
		s.orc.recordOp(op)
		s.orc.completedReads++
		if c.final {
			c.finalLeft--
		}
		c.op, c.phase = nil, 0
		return
	}
	if c.phase != 1 {
		return
	}
	if c.host.inc != c.hinc {
		return // handled by hostDied
	}
	select {
	case r := <-c.rs.ResultC():
		if r.Committed() && !r.Completed() {
			c.committedSeen++
			if c.committedSeen > 1 {
				s.ctx.Violate("C12", "double-committed", "two Committed notifications for one request")
			}
			if !s.cfg.NotifyCommit {
				s.ctx.Violate("C12", "unexpected-committed", "Committed notification without NotifyCommit")
			}
			return
		}
		s.orc.onResult(c, r)
		op := c.op
		if c.sessOp != "" {
			c.sessionOpResult(r)
			return
		}
		useSessions := s.cfg.Sessions && s.cfg.SMKind != KindOnDisk && op.write
		switch {
		case r.Completed():
			if op.write {
				op.ret = s.stamp()
				op.known = true
				res := r.GetResult()
				s.orc.onWriteCompleted(c, op, res)
				s.orc.recordOp(op)
				if s.src.Chance(1, 2) {
					c.chase, c.chaseKey = true, op.key
				}
				if useSessions && c.session != nil {
					c.session.ProposalCompleted()
					c.retry = nil
				}
				c.hold("write")
				if c.final {
					c.finalLeft--
				}
				c.op, c.phase, c.rs = nil, 0, nil
			} else {
				s.orc.onReadIndexCompleted(c)
				c.phase = 2
				// mostly read at once, as SyncRead does (the later the local read,
				// the more the replica has applied meanwhile and the less a read
				// index that was too low shows)
				if c.host.up && c.host.inc == c.hinc && !s.src.Chance(1, 4) {
					c.localRead()
				}
			}
		default:
			// Timeout, Terminated, Dropped, Aborted, Rejected
			kind := resultKind(r)
			s.ctx.Count("probe.result_"+kind, 1)
			op.failed = kind
			c.nextAt = s.ticks + 4
			if op.write {
				switch {
				case useSessions && r.Rejected():
					// the session is unknown to the shard (evicted): this attempt was
					// not applied (an earlier attempt of the same proposal may have
					// been, before the eviction); a new session is needed
					op.dropped = !op.retried
					s.orc.recordOp(op)
					s.ctx.Count("probe.session_rejected", 1)
					c.session, c.retry = nil, nil
				case useSessions && c.session != nil:
					c.retry = op // outcome unknown: retry with the same series id
				default:
					if r.Dropped() || r.Rejected() {
						op.dropped = true
					}
					s.orc.recordOp(op)
				}
			}
			c.hold(kind)
			c.op, c.phase, c.rs = nil, 0, nil
		}
	default:
		s.orc.checkDeadline(c)
	}
}

// hold keeps a finished request (not released) so that a second result on its
// channel can be seen.
func (c *Client) hold(desc string) {
	if len(c.held) >= 4 {
		old := c.held[0]
		c.held = c.held[1:]
		if old.host.inc == old.hinc {
			old.rs.Release()
		}
	}
	c.held = append(c.held, &heldReq{rs: c.rs, host: c.host, hinc: c.hinc, desc: desc})
}

func (c *Client) localRead() {
	s := c.sim
	h := c.host
	nh := h.nh
	rs := c.rs
	key := c.op.key
	c.phase = 3
	c.readDone = false
	s.ctx.Ev("client.localread", uint64(c.id), uint64(h.id), uint64(key))
	s.runTask("client.localread", h, "", func() {
		v, err := nh.ReadLocalNode(rs, QueryKey(key))
		c.readErr = err
		if err == nil {
			c.readVal = v.(KVVal)
		}
		rs.Release()
		c.readDone = true
	})
}

// hostDied is called when a host crashes.
func (c *Client) hostDied(h *Host) {
	if c.phase == 0 || c.host != h {
		return
	}
	op := c.op
	switch {
	case c.sessOp == "register" || c.sessOp == "unregister":
		c.regSess = nil
	case c.sessOp == "dead-propose":
		op.failed = "host-crashed"
		c.sim.orc.recordOp(op)
		c.sim.orc.deadWids = append(c.sim.orc.deadWids, op.wid)
	case op != nil && op.write && c.sim.cfg.Sessions && c.sim.cfg.SMKind != KindOnDisk && c.session != nil:
		c.retry = op
	case op != nil && op.write:
		op.failed = "host-crashed"
		c.sim.orc.recordOp(op)
	}
	c.sessOp = ""
	c.op, c.phase, c.rs = nil, 0, nil
	c.readDone = false
}

// shardStopped is called when the shard of a host is stopped gracefully: the
// outstanding requests will be Terminated through their channels.
func (c *Client) shardStopped(h *Host) {}

func resultKind(r dragonboat.RequestResult) string {
	switch {
	case r.Completed():
		return "completed"
	case r.Terminated():
		return "terminated"
	case r.Dropped():
		return "dropped"
	case r.Rejected():
		return "rejected"
	case r.Aborted():
		return "aborted"
	}
	return "timeout"
}

// sessionOpResult handles the result of register / unregister / a proposal
// made with an unregistered session.
func (c *Client) sessionOpResult(r dragonboat.RequestResult) {
	s := c.sim
	kind := resultKind(r)
	s.ctx.Count("probe.session_"+c.sessOp+"_"+kind, 1)
	switch c.sessOp {
	case "register":
		if r.Completed() {
			if r.GetResult().Value != c.regSess.ClientID {
				s.ctx.Violate("C05", "register-result", "session registration completed with value %d, want the client id %d", r.GetResult().Value, c.regSess.ClientID)
			}
			c.regSess.PrepareForPropose()
			c.session = c.regSess
		}
		c.regSess = nil
	case "unregister":
		if r.Completed() {
			c.deadSess = c.regSess
		}
		c.regSess = nil
	case "dead-propose":
		op := c.op
		op.failed = kind
		if r.Completed() {
			s.ctx.Violate("C05", "unregistered-session-applied", "proposal %d made with an unregistered session completed", op.wid)
		}
		if r.Rejected() || r.Dropped() {
			op.dropped = true
		}
		s.orc.recordOp(op)
		s.orc.deadWids = append(s.orc.deadWids, op.wid)
	}
	if !r.Completed() {
		c.nextAt = s.ticks + 4
	}
	c.hold(c.sessOp)
	c.sessOp = ""
	c.op, c.phase, c.rs = nil, 0, nil
}

// abandonAll forgets every outstanding request (all hosts are gone).
func (c *Client) abandonAll() {
	if c.op != nil && c.op.write && c.phase == 1 && c.sessOp == "" {
		c.op.failed = "abandoned"
		c.sim.orc.recordOp(c.op)
	}
	c.op, c.phase, c.rs, c.retry, c.session, c.deadSess, c.regSess = nil, 0, nil, nil, nil, nil, nil
	c.sessOp = ""
	c.held = nil
	c.readDone = false
}

package simhost

import (
	"github.com/lni/dragonboat/v4/config"
	"github.com/lni/dragonboat/v4/raftio"
	pb "github.com/lni/dragonboat/v4/raftpb"
)

// recLogDB wraps the real log store: it tells the oracles what has become
// durable (SaveRaftState returned nil) - the C04 shadow.
type recLogDB struct {
	raftio.ILogDB
	sim  *Sim
	host int
	inc  int
}

func (r *recLogDB) SaveRaftState(uds []pb.Update, shardID uint64) error {
	err := r.ILogDB.SaveRaftState(uds, shardID)
	if err == nil {
		h := r.sim.hosts[r.host]
		if h.inc == r.inc && (h.up || h.booting) {
			mine := uds
			if r.sim.cfg.Ballast > 0 {
				mine = nil
				for _, ud := range uds {
					if ud.ShardID == shardID {
						mine = append(mine, ud)
					}
				}
			}
			r.sim.orc.onSaved(r.host, mine)
		}
	}
	return err
}

// SaveSnapshots: C08 - a snapshot of an on-disk state machine is metadata
// only; when it is recorded the state machine's own durable image must
// already cover everything the snapshot claims (OnDiskIndex), otherwise the
// log can be compacted past what the replica can recover.
func (r *recLogDB) SaveSnapshots(uds []pb.Update) error {
	h := r.sim.hosts[r.host]
	if h.inc == r.inc && h.sm != nil && h.sm.Kind == KindOnDisk && h.sm.Opened && !h.sm.Dead() {
		for _, ud := range uds {
			if ud.ShardID != shardID {
				continue
			}
			ss := ud.Snapshot
			if ss.OnDiskIndex > 0 && !ss.Witness && !ss.Imported && ss.Type != pb.OnDiskStateMachine+100 {
				r.sim.ctx.Count("probe.ondisk_snapshot_recorded", 1)
				if ss.OnDiskIndex > h.sm.DurableIndex {
					r.sim.ctx.Violate("C08", "snapshot-ahead-of-durable-state", "replica %d records a snapshot at index %d claiming its on-disk state machine holds everything up to index %d, but the state machine's durable image only covers index %d", h.replicaID, ss.Index, ss.OnDiskIndex, h.sm.DurableIndex)
				}
			}
		}
	}
	return r.ILogDB.SaveSnapshots(uds)
}

type recFactory struct {
	inner config.LogDBFactory
	sim   *Sim
	host  int
}

func (f *recFactory) Create(c config.NodeHostConfig, cb config.LogDBCallback,
	dirs []string, lldirs []string) (raftio.ILogDB, error) {
	db, err := f.inner.Create(c, cb, dirs, lldirs)
	if err != nil {
		return nil, err
	}
	return &recLogDB{ILogDB: db, sim: f.sim, host: f.host, inc: f.sim.hosts[f.host].inc}, nil
}

func (f *recFactory) Name() string { return f.inner.Name() }

package simhost

import (
	"github.com/lni/dragonboat/v4/config"
	"github.com/lni/dragonboat/v4/raftio"
	pb "github.com/lni/dragonboat/v4/raftpb"
)

// recLogDB wraps the real log store: it tells the oracles what has become
// durable (SaveRaftState returned nil) - the C04 shadow.
type recLogDB struct {
	raftio.ILogDB
	sim  *Sim
	host int
	inc  int
}

func (r *recLogDB) SaveRaftState(uds []pb.Update, shardID uint64) error {
	err := r.ILogDB.SaveRaftState(uds, shardID)
	if err == nil {
		h := r.sim.hosts[r.host]
		if h.inc == r.inc && (h.up || h.booting) {
			r.sim.orc.onSaved(r.host, uds)
		}
	}
	return err
}

type recFactory struct {
	inner config.LogDBFactory
	sim   *Sim
	host  int
}

func (f *recFactory) Create(c config.NodeHostConfig, cb config.LogDBCallback,
	dirs []string, lldirs []string) (raftio.ILogDB, error) {
	db, err := f.inner.Create(c, cb, dirs, lldirs)
	if err != nil {
		return nil, err
	}
	return &recLogDB{ILogDB: db, sim: f.sim, host: f.host, inc: f.sim.hosts[f.host].inc}, nil
}

func (f *recFactory) Name() string { return f.inner.Name() }

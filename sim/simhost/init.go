package simhost

import (
	"fmt"
	"math/rand"
	"reflect"
	"unsafe"

	dragonboat "github.com/lni/dragonboat/v4"
	"github.com/lni/dragonboat/v4/internal/rsm"
	"github.com/lni/dragonboat/v4/logger"
	"github.com/lni/dragonboat/v4/verifsim/choice"
	"github.com/lni/dragonboat/v4/verifsim/runner"
	"github.com/lni/goutils/random"
)

// quiet logger: everything is dropped except Panicf, which panics the way the
// default logger does.
type nullLogger struct{}

func (nullLogger) SetLevel(logger.LogLevel)                    {}
func (nullLogger) Debugf(format string, args ...interface{})   {}
func (nullLogger) Infof(format string, args ...interface{})    {}
func (nullLogger) Warningf(format string, args ...interface{}) {}
func (nullLogger) Errorf(format string, args ...interface{})   {}
func (nullLogger) Panicf(format string, args ...interface{}) {
	panic(fmt.Sprintf(format, args...))
}

// LogSink, when set, receives log lines (used by `simcheck one` debugging).
var LogSink func(pkg, level, msg string)

type sinkLogger struct{ pkg string }

func (s sinkLogger) SetLevel(logger.LogLevel) {}
func (s sinkLogger) out(level, format string, args ...interface{}) {
	if LogSink != nil {
		LogSink(s.pkg, level, fmt.Sprintf(format, args...))
	}
}
func (s sinkLogger) Debugf(format string, args ...interface{})   { s.out("D", format, args...) }
func (s sinkLogger) Infof(format string, args ...interface{})    { s.out("I", format, args...) }
func (s sinkLogger) Warningf(format string, args ...interface{}) { s.out("W", format, args...) }
func (s sinkLogger) Errorf(format string, args ...interface{})   { s.out("E", format, args...) }
func (s sinkLogger) Panicf(format string, args ...interface{}) {
	s.out("P", format, args...)
	panic(fmt.Sprintf(format, args...))
}

func init() {
	logger.SetLoggerFactory(func(pkg string) logger.ILogger { return sinkLogger{pkg: pkg} })
	runner.PreRun = append(runner.PreRun, ResetProcessNondeterminism)
}

// ResetProcessNondeterminism makes the process wide sources of randomness and
// wall clock time that end up in the data of the code under test a function of
// the run's aux seed (every scenario, also the component simulators):
// goutils' LockGuardedRand (election jitter, ReadIndex contexts), the seeds of
// the request key generators (the keys decide the encoded size of entries and
// so where log files roll and where a torn write ends) and the informational
// time stamp in snapshot headers (it decides the header bytes and crc).
func ResetProcessNondeterminism(aux uint64) {
	SetProcessRand(&auxRand{r: choice.NewSplitMix(aux)})
	// every generator gets a seed of its own (as with the default pid + clock
	// seed): a restarted replica must not hand out the keys of its previous
	// incarnation again, entries of which may still be waiting to be applied
	var created uint64
	dragonboat.VerifKeySeed = func(shardID uint64, replicaID uint64, shard uint64) int64 {
		created++
		return int64(choice.Mix(aux^0x6b657973, shardID<<20^replicaID, shard, created) >> 1)
	}
	rsm.VerifHeaderTime = func() uint64 { return 1700000000000000000 }
}

// SetProcessRand replaces the source behind goutils' process wide
// random.LockGuardedRand (election jitter, request keys) with a deterministic
// one. The field is unexported, hence reflect + unsafe; this keeps /repo free
// of a hook for it.
func SetProcessRand(src rand.Source64) {
	v := reflect.ValueOf(random.LockGuardedRand).Elem().FieldByName("source")
	p := unsafe.Pointer(v.UnsafeAddr())
	*(*rand.Source64)(p) = src
}

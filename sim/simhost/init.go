package simhost

import (
	"fmt"
	"math/rand"
	"reflect"
	"unsafe"

	"github.com/lni/dragonboat/v4/logger"
	"github.com/lni/goutils/random"
)

// quiet logger: everything is dropped except Panicf, which panics the way the
// default logger does.
type nullLogger struct{}

func (nullLogger) SetLevel(logger.LogLevel)                  {}
func (nullLogger) Debugf(format string, args ...interface{})   {}
func (nullLogger) Infof(format string, args ...interface{})    {}
func (nullLogger) Warningf(format string, args ...interface{}) {}
func (nullLogger) Errorf(format string, args ...interface{})   {}
func (nullLogger) Panicf(format string, args ...interface{}) {
	panic(fmt.Sprintf(format, args...))
}

// LogSink, when set, receives log lines (used by `simcheck one` debugging).
var LogSink func(pkg, level, msg string)

type sinkLogger struct{ pkg string }

func (s sinkLogger) SetLevel(logger.LogLevel) {}
func (s sinkLogger) out(level, format string, args ...interface{}) {
	if LogSink != nil {
		LogSink(s.pkg, level, fmt.Sprintf(format, args...))
	}
}
func (s sinkLogger) Debugf(format string, args ...interface{})   { s.out("D", format, args...) }
func (s sinkLogger) Infof(format string, args ...interface{})    { s.out("I", format, args...) }
func (s sinkLogger) Warningf(format string, args ...interface{}) { s.out("W", format, args...) }
func (s sinkLogger) Errorf(format string, args ...interface{})   { s.out("E", format, args...) }
func (s sinkLogger) Panicf(format string, args ...interface{}) {
	s.out("P", format, args...)
	panic(fmt.Sprintf(format, args...))
}

func init() {
	logger.SetLoggerFactory(func(pkg string) logger.ILogger { return sinkLogger{pkg: pkg} })
}

// SetProcessRand replaces the source behind goutils' process wide
// random.LockGuardedRand (election jitter, request keys) with a deterministic
// one. The field is unexported, hence reflect + unsafe; this keeps /repo free
// of a hook for it.
func SetProcessRand(src rand.Source64) {
	v := reflect.ValueOf(random.LockGuardedRand).Elem().FieldByName("source")
	p := unsafe.Pointer(v.UnsafeAddr())
	*(*rand.Source64)(p) = src
}

// Package choice is the single source of decisions of every simulator in
// /verif/sim. A Source is either driven by a PRNG (recording every draw on a
// tape) or by a previously recorded / shrunk tape.
//
// Convention: value 0 is always the most benign choice (no fault, oldest
// message, smallest size, ...), so a shrunk tape is mostly zeros and its non
// zero entries are the minimised schedule and fault trace.
//
// Nothing in here reads a clock and logging never draws.
package choice

import "fmt"

// SplitMix64 is the PRNG used everywhere (tiny, well distributed, seedable).
type SplitMix64 struct{ s uint64 }

// NewSplitMix returns a PRNG seeded with seed.
func NewSplitMix(seed uint64) *SplitMix64 { return &SplitMix64{s: seed} }

// Next returns the next 64 bit value.
func (r *SplitMix64) Next() uint64 {
	r.s += 0x9e3779b97f4a7c15
	z := r.s
	z = (z ^ (z >> 30)) * 0xbf58476d1ce4e5b9
	z = (z ^ (z >> 27)) * 0x94d049bb133111eb
	return z ^ (z >> 31)
}

// Mix derives a child seed from a parent seed and indexes.
func Mix(seed uint64, idx ...uint64) uint64 {
	r := SplitMix64{s: seed}
	v := r.Next()
	for _, i := range idx {
		r.s = v ^ (i+1)*0xd6e8feb86659fd93
		v = r.Next()
	}
	return v
}

// Source hands out choices.
type Source struct {
	rng    *SplitMix64
	replay bool
	tape   []uint32 // replay input
	pos    int
	rec    []uint32 // everything drawn so far (clamped values)
	// Aux is a run-constant seed for identity-only randomness (request keys
	// and the like); it is kept unchanged while a tape is shrunk.
	Aux uint64
	// Exhausted counts draws answered with 0 because the replay tape ended.
	Exhausted int
	limit     int
}

// FromSeed creates a PRNG backed source.
func FromSeed(seed uint64) *Source {
	return &Source{rng: NewSplitMix(seed), Aux: Mix(seed, 0xa0a0), limit: 1 << 22}
}

// FromTape creates a source replaying tape; out of range values are reduced
// modulo n and draws past the end return 0.
func FromTape(tape []uint32, aux uint64) *Source {
	return &Source{replay: true, tape: tape, Aux: aux, limit: 1 << 22}
}

// ErrTooManyDraws is the panic value used when a run draws more than the
// hard limit (runaway loop in a harness).
type ErrTooManyDraws struct{}

func (ErrTooManyDraws) Error() string { return "choice: too many draws" }

// Intn returns a value in [0,n). n<=1 returns 0 without consuming anything.
func (s *Source) Intn(n int) int {
	if n <= 1 {
		return 0
	}
	if len(s.rec) >= s.limit {
		panic(ErrTooManyDraws{})
	}
	var v uint32
	if s.replay {
		if s.pos < len(s.tape) {
			v = s.tape[s.pos] % uint32(n)
		} else {
			s.Exhausted++
		}
		s.pos++
	} else {
		v = uint32(s.rng.Next() % uint64(n))
	}
	s.rec = append(s.rec, v)
	return int(v)
}

// Chance returns true with probability num/den; 0 on the tape means false.
func (s *Source) Chance(num, den int) bool {
	if num <= 0 {
		return false
	}
	if num >= den {
		return true
	}
	// v in [0,den); true for the top `num` values so that 0 is "false"
	return s.Intn(den) >= den-num
}

// Range returns a value in [lo,hi] (inclusive); 0 on the tape means lo.
func (s *Source) Range(lo, hi int) int {
	if hi <= lo {
		return lo
	}
	return lo + s.Intn(hi-lo+1)
}

// Weighted picks an index with the given non-negative weights; index 0 is the
// benign choice and should carry the bulk of the weight.
func (s *Source) Weighted(w []int) int {
	total := 0
	for _, x := range w {
		total += x
	}
	if total <= 0 {
		return 0
	}
	v := s.Intn(total)
	for i, x := range w {
		if v < x {
			return i
		}
		v -= x
	}
	return len(w) - 1
}

// Uint64 returns a full 64 bit value built from draws (two 32 bit halves).
func (s *Source) Uint64() uint64 {
	hi := uint64(s.Intn(1 << 31))
	lo := uint64(s.Intn(1 << 31))
	return hi<<31 | lo
}

// Tape returns everything drawn so far.
func (s *Source) Tape() []uint32 {
	out := make([]uint32, len(s.rec))
	copy(out, s.rec)
	return out
}

// Len is the number of draws so far.
func (s *Source) Len() int { return len(s.rec) }

// String describes the source.
func (s *Source) String() string {
	return fmt.Sprintf("choice.Source{replay:%t draws:%d}", s.replay, len(s.rec))
}

// AuxRand is a deterministic rand.Source64 for identity-only randomness.
type AuxRand struct{ r SplitMix64 }

// NewAuxRand creates one.
func NewAuxRand(seed uint64) *AuxRand { return &AuxRand{r: SplitMix64{s: seed}} }

// Uint64 implements rand.Source64.
func (a *AuxRand) Uint64() uint64 { return a.r.Next() }

// Int63 implements rand.Source.
func (a *AuxRand) Int63() int64 { return int64(a.r.Next() >> 1) }

// Seed implements rand.Source.
func (a *AuxRand) Seed(s int64) { a.r.s = uint64(s) }

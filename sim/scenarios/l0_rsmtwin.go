package scenarios

import (
	"github.com/lni/dragonboat/v4/verifsim/l0/rsmtwin"
	"github.com/lni/dragonboat/v4/verifsim/runner"
)

func init() {
	runner.RegisterScenario(&runner.Scenario{
		Name: "l0/rsmtwin",
		Real: []string{"rsm.StateMachine (Handle/Save/Stream/Recover, session manager + LRU session table, membership)",
			"rsm.NativeSM + regular/concurrent/on-disk adapters", "snapshotter (Save/Load/Stream/Commit/Shrink/Compact/processOrphans) + LogReader snapshot record",
			"snapshot file writer/reader, chunk writer", "transport sender side chunk splitting + receiving side chunk tracker", "client.Session"},
		Stub: []string{"raft core and log (synthetic committed entry stream)", "rsm.INode (recorder)", "log store (snapshot records in memory)",
			"user state machine (instrumented KV of the three kinds)", "disk (SimFS)", "network (chunks handed over in memory)"},
		Rule: rsmtwin.Rule,
		Run:  rsmtwin.Run,
	})
}

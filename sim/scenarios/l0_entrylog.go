package scenarios

import (
	"github.com/lni/dragonboat/v4/verifsim/l0/entrylog"
	"github.com/lni/dragonboat/v4/verifsim/runner"
)

func init() {
	runner.RegisterScenario(&runner.Scenario{
		Name: "l0/entrylog",
		Real: []string{"raft entryLog + inMemory (through raft.VerifEntryLog)", "logdb.LogReader"},
		Stub: []string{"raftio.ILogDB (in-memory map, harness)", "raft protocol core (operation generator obeying Log Matching and the commit rule)", "engine step worker glue (GetUpdate/persist/Commit re-implemented from peer.go + engine.go)", "state machine (apply queue with arbitrary lag)"},
		Rule: "one run = one tape-chosen start state (new or restarted replica) and 10-160 operations (leader append, Replicate at any position of a forked leader log, commit advance, Update/Commit cycle in one piece or phase by phase, apply progress, role change, InstallSnapshot, local snapshot + compaction, in-memory resize, leader style reads), every answer of the entry log compared with RefLog after each; non-trivial = at least 2 completed Update/Commit cycles and 5 appended entries; distinct = distinct hash of the operation sequence",
		Run:  entrylog.Run,
	})
	runner.RegisterCheck(&runner.Check{Property: "C19", Level: "exploration", QuickBudgetS: 60, ThoroughS: 900,
		Parts: []runner.Part{
			{Scenario: "l0/entrylog", Params: map[string]string{"lag": "0"}, Share: 3},
			{Scenario: "l0/entrylog", Params: map[string]string{"lag": "1"}, Share: 2},
		},
		Assumptions: []string{
			"the operation generator only produces sequences the raft core can produce: logs of different leaders obey Log Matching, nothing at or below the replica's commit index is ever contradicted, Replicate below the commit index is answered without touching the log, InstallSnapshot follows raft.restore",
			"part lag=0 runs GetUpdate/persist/LogReader.Append/Commit back to back like engine.processSteps; part lag=1 lets appends, commit advances, apply progress and local snapshots happen between the three phases (never a snapshot restore, which the step worker cannot interleave)",
			"the persistent store is a harness map honouring the documented ILogDB contract; the shipped stores are checked by C09/C10",
			"entry slice sizes and the apply batch size limit (soft settings) are set to small values in most runs so that resize and batch limit paths are reached with short logs",
		}})
}

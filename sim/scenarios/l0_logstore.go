package scenarios

import (
	"github.com/lni/dragonboat/v4/verifsim/l0/logstore"
	"github.com/lni/dragonboat/v4/verifsim/runner"
)

func init() {
	runner.RegisterScenario(&runner.Scenario{
		Name: "l0/logstore",
		Real: []string{"internal/tan (regular and multiplexed)", "internal/logdb ShardedDB (plain and batched entry format)", "internal/logdb/kv/pebble + cockroachdb/pebble"},
		Stub: []string{"disk (SimFS over lni/vfs StrictMem)", "raft core / engine (workload generator honouring their call preconditions)"},
		Rule: "TODO",
		Run:  logstore.Run,
	})
}

package scenarios

import "github.com/lni/dragonboat/v4/verifsim/l0/logstore"

// The l0/logstore scenario and the checks C09 and C10 are described in
// l0/logstore/register.go.
func init() { logstore.Register() }

// Package scenarios links every simulator into the simcheck binary.
package scenarios

import (
	"github.com/lni/dragonboat/v4/verifsim/runner"
	"github.com/lni/dragonboat/v4/verifsim/simhost"
)

func init() {
	runner.RegisterScenario(&runner.Scenario{
		Name: "simhost",
		Real: []string{"NodeHost API", "engine step/commit/apply/snapshot/close worker bodies", "node", "request tables", "raft core", "rsm", "snapshotter", "tan log store", "transport receive side + chunk reassembly"},
		Stub: []string{"worker select scaffolding (driven by the simulator)", "transport send queues/TCP (SimNet)", "disk (SimFS over lni/vfs StrictMem)", "gossip registry", "metrics"},
		Rule: "one run = one seeded schedule+fault sequence over a swarm-drawn cluster config; non-trivial = at least 3 user entries applied and 2 client ops completed; distinct = distinct (abstract state set, applied count, history length) signature",
		Run:  simhost.Run,
	})
	runner.RegisterCheck(&runner.Check{Property: "C02", Level: "exploration", QuickBudgetS: 60, ThoroughS: 900,
		Parts: []runner.Part{{Scenario: "simhost", Share: 1}}})
}

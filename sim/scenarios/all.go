// Package scenarios links every simulator into the simcheck binary.
package scenarios

import (
	"github.com/lni/dragonboat/v4/verifsim/runner"
	"github.com/lni/dragonboat/v4/verifsim/simhost"
)

func p(kv ...string) map[string]string {
	m := map[string]string{}
	for i := 0; i+1 < len(kv); i += 2 {
		m[kv[i]] = kv[i+1]
	}
	return m
}

func init() {
	runner.RegisterScenario(&runner.Scenario{
		Name: "simhost",
		Real: []string{"NodeHost API", "engine step/commit/apply/snapshot/close worker bodies", "node", "request tables", "raft core", "rsm", "snapshotter", "tan log store", "transport receive side + chunk reassembly + snapshot job state machine"},
		Stub: []string{"worker select scaffolding (branches chosen by the simulator)", "transport send queues/TCP (SimNet)", "disk (SimFS over lni/vfs StrictMem)", "gossip registry", "metrics"},
		Rule: "one run = one seeded schedule+fault sequence over a swarm-drawn cluster config (1-5 hosts, 3 SM kinds, PreVote/CheckQuorum/Quiesce/NotifyCommit, snapshot and compaction settings, fault menu and rates); non-trivial = at least 3 user entries applied and 2 client ops completed; distinct = distinct signature (set of abstract cluster states visited, applied count, history length)",
		Run:  simhost.Run,
	})
	runner.RegisterScenario(&runner.Scenario{
		Name: "simhost/import",
		Real: []string{"everything of simhost", "tools.ImportSnapshot", "exported snapshots (RequestSnapshot Exported)", "log store ImportSnapshot", "restart path of imported replicas"},
		Stub: []string{"as simhost", "copying the export directory between hosts is done by the harness"},
		Rule: "one run = seeded history, export at a random point, more history, loss of all hosts, import with a tape-chosen member list (subset of old members / fresh hosts / single member; invalid lists; damaged export directory), restart, workload; non-trivial = the export completed and at least one ImportSnapshot call was made; distinct = signature of (member list shape, fault kind, abstract states)",
		Run:  simhost.RunImport,
	})
	sh := func(prop string, quick, thorough int, parts ...runner.Part) {
		runner.RegisterCheck(&runner.Check{Property: prop, Level: "exploration", QuickBudgetS: quick, ThoroughS: thorough, Parts: parts,
			Assumptions: []string{
				"worker loop select scaffolding and transport send queues are replaced by the simulator (every function they call is the shipped one)",
				"scheduling granularity is the yield point (worker branch, file system operation, state machine method entry, message send), not the instruction",
				"fsync is honoured by the simulated disk; unsynced data and directory entries are lost at a crash, optionally leaving a torn tail",
			}})
	}
	sh("C01", 120, 1200, runner.Part{Scenario: "simhost", Params: p("pdup", "0"), Share: 3},
		runner.Part{Scenario: "simhost", Params: p("pdup", "0", "readmix", "60", "ppartition", "8", "ptransfer", "8"), Share: 2},
		// leadership going back and forth (transfers, splits) under message loss and delay, many reads
		runner.Part{Scenario: "simhost", Params: p("pdup", "0", "readmix", "70", "ptransfer", "15", "pdrop", "10", "preorder", "40", "ppartition", "10", "pheal", "10", "clients", "4", "keys", "1"), Share: 2},
		// reads through and next to non-voting members: a leader cut off together with a non-voting member
		runner.Part{Scenario: "simhost", Params: p("pdup", "0", "hosts", "4", "voters", "3", "pmember", "15", "memberbias", "1", "checkquorum", "0", "ppartition", "12", "groupsplit", "60", "pheal", "2", "election", "5", "ticknum", "1", "tickden", "4", "steps", "2500", "keys", "1", "clients", "4", "readmix", "60", "pcrash", "0", "pdrop", "0", "quiesce", "0"), Share: 3})
	sh("C02", 120, 1200, runner.Part{Scenario: "simhost", Share: 3},
		runner.Part{Scenario: "simhost", Params: p("pmember", "10", "hosts", "4"), Share: 1},
		// few voters with non-voting members / witnesses, crashes between send and save
		runner.Part{Scenario: "simhost", Params: p("hosts", "2", "voters", "1", "memberbias", "1", "pmember", "80", "pcrash", "20", "prestart", "100", "fsyield", "500", "readmix", "0", "clients", "3", "steps", "1200", "sessions", "0"), Share: 2},
		runner.Part{Scenario: "simhost", Params: p("hosts", "4", "voters", "2", "memberbias", "2", "pmember", "25", "pcrash", "12", "fsyield", "300"), Share: 1},
		// a leader cut off together with a non-voting member, deposed, repaired and elected again
		runner.Part{Scenario: "simhost", Params: p("hosts", "4", "voters", "3", "memberbias", "1", "pmember", "20", "ppartition", "15", "groupsplit", "60", "pheal", "10", "partialheal", "60", "ptransfer", "15", "checkquorum", "0", "pcrash", "2", "readmix", "10", "steps", "2500"), Share: 3})
	sh("C03", 120, 1200, runner.Part{Scenario: "simhost", Params: p("ppartition", "10", "pcrash", "8", "ops", "8"), Share: 2},
		runner.Part{Scenario: "simhost", Params: p("pmember", "10", "ptransfer", "10"), Share: 1},
		// campaigns (timeouts and leadership transfers) of replicas whose apply lags behind committed membership changes
		runner.Part{Scenario: "simhost", Params: p("pmember", "25", "ptransfer", "30", "hosts", "4", "smyield", "300"), Share: 1},
		// elections while a membership change is between the state machine's applied index and the raft core's update
		runner.Part{Scenario: "simhost", Params: p("pmember", "30", "memberbias", "3", "hosts", "5", "voters", "4", "ccwindow", "60", "holdlen", "600", "smyield", "100", "election", "5", "ticknum", "1", "tickden", "4", "ppartition", "0", "pheal", "3", "pdrop", "0", "pcrash", "0", "pstall", "0", "checkquorum", "0", "prevote", "0", "readmix", "10", "clients", "3", "ops", "40", "steps", "2500"), Share: 1},
		// ... and between a recovered snapshot's applied index and the membership restore: lagging followers, members added meanwhile
		runner.Part{Scenario: "simhost", Params: p("pmember", "30", "hosts", "5", "voters", "3", "snapshot", "5", "overhead", "0", "ccwindow", "80", "holdlen", "800", "smyield", "100", "election", "5", "ticknum", "1", "tickden", "4", "ppartition", "8", "pheal", "3", "pdrop", "0", "pcrash", "0", "pstall", "0", "checkquorum", "0", "prevote", "0", "readmix", "10", "clients", "1", "clientrate", "3", "ops", "40", "steps", "2500"), Share: 2})
	sh("C04", 90, 1200, runner.Part{Scenario: "simhost", Params: p("pcrash", "12", "fsyield", "300", "torn", "1"), Share: 2},
		runner.Part{Scenario: "simhost", Params: p("pcrash", "6", "fsyield", "50"), Share: 1},
		// followers that lag, are caught up by InstallSnapshot (an update that carries a snapshot record and nothing else) and crash right after
		runner.Part{Scenario: "simhost", Params: p("snapshot", "5", "overhead", "0", "ppartition", "12", "pheal", "8", "pcrash", "12", "prestart", "60", "fsyield", "300", "ops", "40", "tanlog", "0"), Share: 1},
		// the log store side on its own, for the default Pebble store (which simhost does not run) and for Tan: saves of every update shape the
		// raft core can produce, power loss between any two file system operations, reopen, compare with what the saves had acknowledged
		runner.Part{Scenario: "l0/logstore", Params: p("store", "pebble-plain", "mode", "crash", "enum", "0"), Share: 1},
		runner.Part{Scenario: "l0/logstore", Params: p("store", "pebble-batched", "mode", "crash", "enum", "0"), Share: 1},
		runner.Part{Scenario: "l0/logstore", Params: p("store", "tan", "mode", "crash", "enum", "0"), Share: 1},
		runner.Part{Scenario: "l0/logstore", Params: p("store", "tan", "mode", "crash", "enum", "1"), Share: 1})
	sh("C05", 90, 1200, runner.Part{Scenario: "simhost", Params: p("sessions", "1", "sm", "1", "timeout", "30", "pdrop", "80", "pdup", "30", "ops", "40"), Share: 2},
		runner.Part{Scenario: "simhost", Params: p("sessions", "1", "sm", "2", "lru", "2", "clients", "4", "snapshot", "5", "pcrash", "6"), Share: 2},
		runner.Part{Scenario: "simhost", Params: p("sessions", "1", "lru", "3", "clients", "4", "ptransfer", "8", "ppartition", "8"), Share: 1},
		runner.Part{Scenario: "l0/rsmtwin", Params: p("focus", "sessions"), Share: 2},
		runner.Part{Scenario: "l0/rsmtwin", Params: p("focus", "sessions", "nohash", "1"), Share: 1})
	sh("C06", 90, 1200, runner.Part{Scenario: "simhost", Params: p("readmix", "70", "ppartition", "10", "pdup", "30", "preorder", "40", "ptransfer", "8"), Share: 2},
		runner.Part{Scenario: "simhost", Params: p("readmix", "60", "pmember", "10", "pcrash", "5"), Share: 1},
		// reads on a deposed leader that still hears from non-voting members
		runner.Part{Scenario: "simhost", Params: p("hosts", "4", "voters", "3", "pmember", "15", "memberbias", "1", "checkquorum", "0", "ppartition", "12", "groupsplit", "60", "pheal", "5", "readmix", "60", "pcrash", "0", "pdrop", "0", "quiesce", "0"), Share: 2},
		// deposed leaders that still receive (delayed) confirmations of older rounds
		runner.Part{Scenario: "simhost", Params: p("hosts", "3", "checkquorum", "0", "holdcut", "1", "ppartition", "15", "groupsplit", "30", "pheal", "8", "readmix", "75", "pcrash", "0", "pdrop", "0", "pdup", "0", "preorder", "40", "pmember", "0", "quiesce", "0", "clients", "4", "keys", "1"), Share: 2},
		// the requesting side: reads issued on followers that lag behind a compacted log and are caught up by a snapshot while the read waits
		runner.Part{Scenario: "simhost", Params: p("hosts", "3", "snapshot", "5", "overhead", "0", "ppartition", "15", "pheal", "12", "readmix", "70", "clients", "5", "ops", "40", "pcrash", "4", "prestart", "80", "smyield", "300", "pdup", "0", "timeout", "300"), Share: 2})
	// (the C06 parts above; one more: deposed leaders that still receive delayed confirmations)
	sh("C07", 90, 1200, runner.Part{Scenario: "simhost", Params: p("pmember", "20", "hosts", "4"), Share: 2},
		runner.Part{Scenario: "simhost", Params: p("pmember", "12", "hosts", "5", "pcrash", "6"), Share: 1},
		runner.Part{Scenario: "simhost", Params: p("pmember", "25", "ptransfer", "30", "hosts", "4", "smyield", "300"), Share: 2},
		// members of every kind come and go while followers lag and catch up through snapshots
		runner.Part{Scenario: "simhost", Params: p("pmember", "30", "hosts", "5", "voters", "3", "memberbias", "2", "snapshot", "5", "overhead", "0", "ppartition", "12", "pheal", "8", "pcrash", "0", "ops", "40"), Share: 2},
		runner.Part{Scenario: "l0/rsmtwin", Params: p("focus", "membership"), Share: 1})
	sh("C08", 90, 1200, runner.Part{Scenario: "simhost", Params: p("snapshot", "5", "overhead", "0", "pcrash", "6", "ppartition", "8", "ops", "40"), Share: 2},
		runner.Part{Scenario: "simhost", Params: p("snapshot", "12", "overhead", "2", "psnapreq", "10", "pstop", "4", "compress", "1"), Share: 1},
		runner.Part{Scenario: "simhost", Params: p("snapshot", "5", "sm", "3", "pcrash", "8", "pmember", "6", "hosts", "4"), Share: 1},
		runner.Part{Scenario: "simhost", Params: p("snapshot", "5", "sm", "3", "smyield", "600", "pcrash", "15", "pmember", "15", "psnapreq", "20", "ptransfer", "10", "hosts", "3", "syncinterval", "20"), Share: 2},
		// on-disk replicas that restart with their state ahead of their last snapshot, lead while still replaying, and have lagging followers to stream to
		runner.Part{Scenario: "simhost", Params: p("sm", "3", "hosts", "3", "snapshot", "25", "overhead", "0", "syncinterval", "10", "smyield", "600", "phold", "300", "holdlen", "200", "pcrash", "12", "prestart", "100", "replaywindow", "60", "ptransfer", "10", "ppartition", "10", "pheal", "5", "psnapreq", "15", "ops", "40", "readmix", "10", "steps", "2500"), Share: 2},
		runner.Part{Scenario: "l0/rsmtwin", Params: p("focus", "snapshot"), Share: 2},
		runner.Part{Scenario: "l0/rsmtwin", Params: p("focus", "snapshot", "enum", "1"), Share: 1, MaxRuns: 1200})
	sh("C20", 90, 1200, runner.Part{Scenario: "simhost/import", Params: p("pmember", "0"), Share: 2},
		runner.Part{Scenario: "simhost/import", Params: p("pmember", "12", "hosts", "5"), Share: 2},
		// the log store side of the import on the stores simhost does not run on (it runs on Tan): what
		// ImportSnapshot leaves in the store, against the reference store, straight after it and after the reopen
		runner.Part{Scenario: "l0/logstore", Params: p("store", "pebble-plain", "mode", "model", "importbias", "1"), Share: 1},
		runner.Part{Scenario: "l0/logstore", Params: p("store", "pebble-batched", "mode", "model", "importbias", "1"), Share: 1},
		runner.Part{Scenario: "l0/logstore", Params: p("store", "tan", "mode", "model", "importbias", "1"), Share: 1})
	sh("C11", 120, 1200, runner.Part{Scenario: "simhost", Params: p("smyield", "500", "pstop", "6", "psnapreq", "10"), Share: 2},
		runner.Part{Scenario: "simhost", Params: p("smyield", "300", "pcrash", "6"), Share: 1},
		// shards stopped and started again while snapshot jobs of the old incarnation are running or queued
		runner.Part{Scenario: "simhost", Params: p("smyield", "600", "pstop", "20", "psnapreq", "40", "snapshot", "5", "overhead", "0", "phold", "300", "holdlen", "300", "pcrash", "0", "ppartition", "5", "steps", "2500"), Share: 1},
		// two shards per host: a single-member ballast shard keeps the only snapshot worker busy, so that jobs of
		// the shard under test queue in the pool while it is stopped, closed and started again
		runner.Part{Scenario: "simhost", Params: p("ballast", "1", "snapworkers", "1", "smyield", "600", "pstop", "25", "prestart", "80", "psnapreq", "40", "snapshot", "5", "overhead", "0", "phold", "400", "holdlen", "300", "pcrash", "2", "steps", "2500"), Share: 1})
	sh("C12", 90, 1200, runner.Part{Scenario: "simhost", Params: p("pstop", "4", "timeout", "30"), Share: 2},
		// StopShard / restarts landing inside the step worker's request intake (engine yield points)
		runner.Part{Scenario: "simhost", Params: p("pstop", "10", "engyield", "400", "readmix", "60", "timeout", "30", "pcrash", "0"), Share: 2},
		runner.Part{Scenario: "simhost", Share: 2},
		runner.Part{Scenario: "l0/pending", Share: 1})
	sh("C16", 90, 1200, runner.Part{Scenario: "simhost", Params: p("tanlog", "2048", "snapshot", "5", "overhead", "0", "fsyield", "300", "pcrash", "10", "ops", "40"), Share: 2},
		runner.Part{Scenario: "simhost", Params: p("snapshot", "5", "fsyield", "100", "pcrash", "10", "psnapreq", "10", "sm", "3"), Share: 1},
		runner.Part{Scenario: "simhost", Params: p("snapshot", "12", "fsyield", "300", "pcrash", "8", "torn", "1"), Share: 1},
		// on-disk state machines that install streamed snapshots (lagging followers) and crash while doing so
		runner.Part{Scenario: "simhost", Params: p("sm", "3", "hosts", "3", "snapshot", "5", "overhead", "0", "ppartition", "12", "pheal", "10", "pcrash", "12", "prestart", "60", "fsyield", "400", "ops", "40", "readmix", "10"), Share: 2},
		// two shards per host: snapshot jobs that queue behind another shard's on the only snapshot worker, crashes and shard restarts meanwhile
		runner.Part{Scenario: "simhost", Params: p("ballast", "1", "snapworkers", "1", "snapshot", "5", "overhead", "0", "psnapreq", "20", "smyield", "300", "fsyield", "200", "pcrash", "10", "pstop", "6", "ppartition", "8", "ops", "40"), Share: 1})
	sh("C17", 150, 1200, runner.Part{Scenario: "simhost", Share: 1},
		runner.Part{Scenario: "simhost", Params: p("pmember", "10", "ptransfer", "8", "ppartition", "8"), Share: 1},
		// few full members plus witnesses / non-voting members, crashes in the middle of saves
		runner.Part{Scenario: "simhost", Params: p("hosts", "3", "voters", "1", "memberbias", "2", "pmember", "40", "pcrash", "15", "prestart", "80", "fsyield", "400", "readmix", "20"), Share: 1},
		runner.Part{Scenario: "simhost", Params: p("hosts", "4", "voters", "2", "memberbias", "1", "pmember", "25", "pcrash", "8", "ppartition", "8", "quiesce", "1"), Share: 1},
		// several replicas of an on-disk state machine shard lag at once and need streamed snapshots
		runner.Part{Scenario: "simhost", Params: p("sm", "3", "hosts", "5", "snapshot", "5", "overhead", "0", "ppartition", "12", "groupsplit", "60", "pheal", "8", "pcrash", "4", "ops", "40"), Share: 2},
		// two shards per host sharing the engine's workers: shards stopped and started again, crashes, a busy snapshot worker
		runner.Part{Scenario: "simhost", Params: p("ballast", "1", "snapworkers", "1", "snapshot", "5", "overhead", "0", "pstop", "10", "prestart", "80", "smyield", "400", "pcrash", "6", "ppartition", "6"), Share: 1},
		// membership changes requested of leaders that are cut off (the entry is appended, never committed, overwritten), leadership going back and forth
		runner.Part{Scenario: "simhost", Params: p("hosts", "3", "voters", "3", "pmember", "8", "ppartition", "15", "pheal", "5", "ptransfer", "15", "checkquorum", "0", "pcrash", "0", "pstop", "0", "steps", "1500"), Share: 1})
	sh("C18", 120, 1200, runner.Part{Scenario: "simhost", Params: p("pmember", "20", "hosts", "5"), Share: 1},
		runner.Part{Scenario: "simhost", Params: p("pmember", "20", "hosts", "4", "pcrash", "5"), Share: 1},
		// quorum sets: reads and elections while non-voting members / witnesses answer and voters are cut off
		runner.Part{Scenario: "simhost", Params: p("hosts", "4", "voters", "3", "pmember", "15", "memberbias", "1", "ppartition", "12", "groupsplit", "60", "pheal", "5", "readmix", "60", "pcrash", "0", "pdrop", "10", "quiesce", "0"), Share: 1},
		runner.Part{Scenario: "simhost", Params: p("hosts", "5", "voters", "3", "pmember", "15", "memberbias", "2", "ppartition", "10", "groupsplit", "50", "readmix", "50", "pcrash", "3"), Share: 1})
}

package scenarios

import (
	"github.com/lni/dragonboat/v4/verifsim/l0/frames"
	"github.com/lni/dragonboat/v4/verifsim/runner"
)

func init() {
	runner.RegisterScenario(&runner.Scenario{
		Name:     "l0/frames",
		RealTime: true,
		Real:     []string{"transport.TCPConnection.SendMessageBatch / TCPSnapshotConnection.SendChunk / writeMessage", "transport readMagicNumber / readMessage / requestHeader", "transport serveConn (complete receive loop, on a sample of streams)", "raftpb codecs (Marshal/MarshalTo/Unmarshal/Size/SizeUpperLimit)", "client.Session codec", "rsm.GetEncoded/GetPayload"},
		Stub:     []string{"net.Conn (in-memory byte buffer, one goroutine, deadlines ignored)", "value generator (boundary heavy sample of field values)"},
		Rule:     "enum=0: one run = 3-10 tape-generated values of the wire/disk types checked for round trip and size bounds, then 1-4 message batches/chunks framed by the real senders and received intact and under 12-51 tape-chosen damages (single bit, 2-3 bits, burst <= 32 bits, truncation; per offset class magic/method/size/header crc/payload crc/payload) plus all single-bit flips and cuts of one frame if it is <= 160 bytes; non-trivial = at least 3 values and 10 damaged streams; distinct = distinct hash of (value kinds, stream length, fault count). enum=1: run index _i selects one of 96 fixed small frames; every single-bit flip and every truncation point of it is judged; distinct = frame index",
		Run:      frames.Run,
	})
	runner.RegisterCheck(&runner.Check{Property: "C13", Level: "fault_enumeration", QuickBudgetS: 50, ThoroughS: 700,
		Parts: []runner.Part{
			{Scenario: "l0/frames", Params: map[string]string{"enum": "1"}, Share: 1, MaxRuns: frames.CatalogueSize},
			{Scenario: "l0/frames", Params: map[string]string{"enum": "0"}, Share: 3},
		},
		Assumptions: []string{
			"claimed in part: the codec clause (round trip, len(encoding) <= Size() <= SizeUpperLimit()) is only exercised on the values this harness generates (boundary heavy field values: 0, 1, 2^49-1, 2^49, 2^56, 2^63, 2^64-1, varint length boundaries, nil/empty slices and maps, payloads up to 140 KBytes); nothing is claimed for field combinations that were not generated",
			"the frame clause is decided for unencrypted connections over the fault model single-bit flip (exhaustive for 96 fixed frames and for every generated frame <= 160 bytes, sampled per offset class otherwise), 2-3 bit flips within 80000 bits, bursts <= 32 bits, truncation at every/sampled byte; on TLS connections (payload checksum disabled by design) only header damage and truncation are injected",
			"equality of decoded values ignores nil versus empty slices/maps (the encodings cannot tell them apart) and the unmarshaled ref-count fields of pb.Snapshot",
			"the in-memory net.Conn never reports timeouts; deadlines are not part of the property",
		}})
}

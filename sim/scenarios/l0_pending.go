package scenarios

import (
	"github.com/lni/dragonboat/v4/verifsim/l0/pending"
	"github.com/lni/dragonboat/v4/verifsim/runner"
)

// l0/pending is the component part of C12; the check for C12 is registered
// with the end-to-end scenario and lists this scenario as one of its parts.
func init() {
	runner.RegisterScenario(&runner.Scenario{
		Name: "l0/pending",
		Real: []string{"request.go pendingProposal / pendingReadIndex / pendingConfigChange / pendingSnapshot / pendingRaftLogQuery", "RequestState (notify, committed, Release, reuse) and its sync.Pool", "entryQueue / readIndexQueue"},
		Stub: []string{"clients (tape-ordered requests, eager or lazy readers, Release)", "step/commit/apply workers (tape-ordered notifications)", "raft and the state machine (outcomes are invented by the tape)"},
		Rule: "one run = one table (param table, default chosen by the tape), 20-180 tape-ordered client and worker operations (request with timeout 1..80 ticks, Release incl. premature and unread, committed/applied/dropped incl. stray, duplicate and late ones, tick, gc, duty round, close), channels polled after each; then duty rounds until nothing is pending; non-trivial = at least 2 accepted requests and 2 terminal values; distinct = distinct hash of the operation sequence",
		Run:  pending.Run,
	})
}

package scenarios

import (
	"github.com/lni/dragonboat/v4/verifsim/l0/chunks"
	"github.com/lni/dragonboat/v4/verifsim/runner"
)

func init() {
	runner.RegisterScenario(&runner.Scenario{
		Name: "l0/chunks",
		Real: []string{"transport.splitSnapshotMessage / loadChunkData (sender side splitting, via verif exports)", "pb.Chunk codec",
			"transport.Chunk (Add, Tick, gc, finalize, toMessage)", "rsm.SnapshotValidator", "server.SSEnv (temp / final directories, flag file)",
			"server.Env (snapshot directories, removed mark)", "rsm.SnapshotWriter (source main files)"},
		Stub: []string{"disks (SimFS over lni/vfs StrictMem; creating a file over a directory fails as on POSIX)", "the wire between job.sendChunks and Chunk.Add (in-memory, simulator ordered)",
			"transport jobs / connections / TCP framing", "clock (Tick calls)", "consumer of the InstallSnapshot notification"},
		Rule: chunks.Rule,
		Run:  chunks.Run,
	})
	p := func(kv ...string) map[string]string {
		m := map[string]string{}
		for i := 0; i+1 < len(kv); i += 2 {
			m[kv[i]] = kv[i+1]
		}
		return m
	}
	runner.RegisterCheck(&runner.Check{Property: "C15", Level: "exploration", QuickBudgetS: 60, ThoroughS: 900,
		Parts: []runner.Part{
			{Scenario: "l0/chunks", Params: p(), Share: 6},
			// every single perturbation at every position, every bit of the main file
			{Scenario: "l0/chunks", Params: p("enum", "1", "cs", "1024"), Share: 3, MaxRuns: chunks.EnumRuns},
			{Scenario: "l0/chunks", Params: p("enum", "1", "cs", "1100", "ct", "snappy"), Share: 2, MaxRuns: chunks.EnumRuns},
			// main files of more than two blocks (the validator works incrementally only then)
			{Scenario: "l0/chunks", Params: p("big", "only"), Share: 2},
		},
		ThoroughParts: []runner.Part{
			{Scenario: "l0/chunks", Params: p("enum", "1", "cs", "2048"), Share: 1, MaxRuns: chunks.EnumRuns},
			{Scenario: "l0/chunks", Params: p("enum", "1", "cs", "1025", "ct", "snappy"), Share: 1, MaxRuns: chunks.EnumRuns},
		},
		Assumptions: []string{
			"one receiver, chunks handed to it one at a time (Add and Tick never run concurrently)",
			"a stream that has been silent for at most 64 ticks in total must survive; 6000 ticks of silence exceed any timeout (both chosen by us, not read from the settings)",
			"at most 3 concurrent streams (far below the receiver's slot limit)",
			"altered data of an external file chunk is injected as a probe (extfile_corruption_finalized): the chunk format carries no checksum for external files, the frame checksum of the transport (C13) is what protects them; param ext_strict=1 turns the probe into a violation",
			"a complete stream for a snapshot index that is already finalized must leave the finalized directory untouched and produce no second notification",
			"witness snapshots are not exercised (their single chunk is built from a temp file with a random name)",
		}})
}

package pending

import (
	"os"
	"sort"
	"strconv"
	"testing"
	"time"

	"github.com/lni/dragonboat/v4/verifsim/choice"
	"github.com/lni/dragonboat/v4/verifsim/runner"
)

// TestSoak runs the scenario for VERIF_SOAK_S seconds (default 2) outside of
// a registered check and prints the aggregated counters; it fails on the
// first violation. Needs a logger that panics in Panicf: the default one does.
func TestSoak(t *testing.T) {
	secs := 2
	if s := os.Getenv("VERIF_SOAK_S"); s != "" {
		secs, _ = strconv.Atoi(s)
	}
	params := map[string]string{}
	if tb := os.Getenv("VERIF_TABLE"); tb != "" {
		params["table"] = tb
	}
	sc := &runner.Scenario{Name: "l0/pending", Run: Run}
	deadline := time.Now().Add(time.Duration(secs) * time.Second)
	counters := map[string]int64{}
	sigs := map[uint64]struct{}{}
	runs, nontrivial := 0, 0
	for seed := uint64(1); time.Now().Before(deadline); seed++ {
		src := choice.FromSeed(choice.Mix(seed, 12))
		res, infra := runner.ExecRun(sc, params, Prop, src, false)
		if infra != nil {
			t.Fatalf("seed %d: %v", seed, infra)
		}
		runs++
		if res.Nontrivial {
			nontrivial++
			sigs[res.Sig] = struct{}{}
		}
		for k, v := range res.Counters {
			counters[k] += v
		}
		if len(res.Violations) > 0 {
			t.Fatalf("seed %d: %+v", seed, res.Violations[0])
		}
	}
	keys := make([]string, 0, len(counters))
	for k := range counters {
		keys = append(keys, k)
	}
	sort.Strings(keys)
	t.Logf("runs=%d nontrivial=%d distinct=%d in %ds", runs, nontrivial, len(sigs), secs)
	for _, k := range keys {
		t.Logf("  %s=%d", k, counters[k])
	}
}

package pending

import (
	"math/rand"
	"reflect"
	"unsafe"

	dragonboat "github.com/lni/dragonboat/v4"
	"github.com/lni/dragonboat/v4/client"
	"github.com/lni/dragonboat/v4/config"
	"github.com/lni/dragonboat/v4/internal/rsm"
	pb "github.com/lni/dragonboat/v4/raftpb"
	sm "github.com/lni/dragonboat/v4/statemachine"
	"github.com/lni/dragonboat/v4/verifsim/choice"
	"github.com/lni/dragonboat/v4/verifsim/runner"
	"github.com/lni/goutils/random"
)

// setProcessRand replaces the source behind goutils' process wide
// random.LockGuardedRand (keys of config change / snapshot requests and read
// index contexts) with a deterministic one (unexported field, hence
// reflect + unsafe; the same trick simhost uses).
func setProcessRand(src rand.Source64) {
	v := reflect.ValueOf(random.LockGuardedRand).Elem().FieldByName("source")
	p := unsafe.Pointer(v.UnsafeAddr())
	*(*rand.Source64)(p) = src
}

var tableNames = []string{"proposal", "read", "config", "snapshot", "query"}

// Run executes one tape against one table (param table=proposal|read|config|
// snapshot|query; default: chosen by the tape).
func Run(ctx *runner.Ctx) *runner.Result {
	src := ctx.Src
	setProcessRand(choice.NewAuxRand(src.Aux ^ 0x51ed270b))
	t := newTracker(ctx)
	table := ctx.Param("table", "")
	if table == "" {
		table = tableNames[src.Weighted([]int{5, 4, 2, 2, 1})]
	}
	ctx.Ev("table", uint64(len(table)), uint64(table[0]))
	var ops int
	switch table {
	case "proposal":
		ops = runProposals(t, src)
	case "read":
		ops = runReads(t, src)
	case "config":
		ops = runConfigChange(t, src)
	case "snapshot":
		ops = runSnapshot(t, src)
	case "query":
		ops = runQuery(t, src)
	default:
		panic("harness: unknown table " + table)
	}
	if !ctx.Violated() {
		t.finish()
	}
	ctx.Count("ev.ops", int64(ops))
	ctx.Count("ev.accepted", int64(t.accepted))
	ctx.Count("ev.refused", int64(t.refused))
	ctx.Count("ev.committed-notifications", int64(t.committedN))
	t.mix(uint64(t.accepted), uint64(t.terminals), uint64(t.reused), t.now, uint64(table[0]))
	return ctx.Finish(t.accepted >= 2 && t.terminals >= 2, t.sig, int64(t.now), t.summary(table))
}

func timeoutTicks(src *choice.Source) uint64 {
	switch src.Weighted([]int{5, 3, 1}) {
	case 0:
		return uint64(1 + src.Intn(3))
	case 1:
		return uint64(4 + src.Intn(8))
	}
	return uint64(20 + src.Intn(60))
}

// pickLive returns the index of a tape-chosen live handle, or -1.
func (t *tracker) pickLive(src *choice.Source) int {
	if len(t.handles) == 0 {
		return -1
	}
	return src.Intn(len(t.handles))
}

// clientRelease: Release of a tape-chosen handle (any state: before the
// terminal value it must be ignored), by a client that has or has not read
// the result.
func (t *tracker) clientRelease(src *choice.Source, oc *opCtx) {
	i := t.pickLive(src)
	if i < 0 {
		return
	}
	// prefer finished requests
	for k := 0; k < 3 && t.pending(t.handles[i]); k++ {
		i = src.Intn(len(t.handles))
	}
	read := !t.handles[i].lazy || src.Chance(1, 2)
	var r uint64
	if read {
		r = 1
	}
	t.ctx.Ev("release", uint64(t.handles[i].id), r)
	oc.name = "release"
	t.release(i, read)
}

// ---------------------------------------------------------------------------
// proposals

type propTable struct {
	t      *tracker
	v      *dragonboat.VerifPendingProposal
	queued int
	qlen   int
	// entries taken by the worker, in order: the raft pipeline
	taken []propEntry
	seq   uint64
}

type propEntry struct {
	key, clientID, seriesID uint64
	committed               bool
	done                    bool // applied or dropped was reported
}

func runProposals(t *tracker, src *choice.Source) int {
	notifyCommit := src.Chance(1, 2)
	cfg := config.Config{ShardID: 1, ReplicaID: 1}
	if src.Chance(1, 3) {
		cfg.EntryCompressionType = config.Snappy
	}
	qlen := []int{64, 3, 8}[src.Weighted([]int{4, 1, 1})]
	pool := dragonboat.VerifNewRequestPool(notifyCommit)
	p := &propTable{t: t, qlen: qlen}
	p.v = dragonboat.VerifNewPendingProposal(cfg, notifyCommit, pool, uint64(qlen), int64(src.Aux>>1))
	var nc uint64
	if notifyCommit {
		nc = 1
	}
	t.ctx.Ev("proposal-table", nc, uint64(qlen), uint64(cfg.EntryCompressionType))
	t.mix(nc, uint64(qlen))
	steps := 20 + src.Intn(160)
	for i := 0; i < steps && !t.ctx.Violated(); i++ {
		oc := &opCtx{}
		switch src.Weighted([]int{8, 3, 3, 6, 2, 3, 2, 4, 2, 1}) {
		case 0:
			p.propose(src, oc)
		case 1:
			t.clientRelease(src, oc)
		case 2: // release a finished request and propose at once: pooled object reuse
			t.clientRelease(src, oc)
			t.observe(oc)
			oc = &opCtx{}
			p.propose(src, oc)
		case 3:
			p.take()
			p.applied(src, oc)
		case 4:
			p.take()
			p.committed(src, oc, notifyCommit)
		case 5:
			p.take()
			p.dropped(src, oc)
		case 6:
			p.strayNotification(src, oc, notifyCommit)
		case 7:
			p.duty(src, oc)
		case 8:
			p.tickOrGC(src, oc)
		case 9:
			if src.Chance(1, 4) {
				p.close(oc)
			} else {
				p.duty(src, oc)
			}
		}
		t.observe(oc)
	}
	// the node keeps running until everything has expired, or stops
	if !t.ctx.Violated() {
		if !t.closed && src.Chance(1, 3) {
			oc := &opCtx{}
			p.close(oc)
			t.observe(oc)
		}
		for k := 0; k < 200 && !t.closed && !t.ctx.Violated() && t.anyPending(); k++ {
			oc := &opCtx{}
			p.duty(src, oc)
			t.observe(oc)
		}
	}
	return steps
}

func (t *tracker) anyPending() bool {
	for _, h := range t.handles {
		if t.pending(h) {
			return true
		}
	}
	return false
}

func (p *propTable) propose(src *choice.Source, oc *opCtx) {
	t := p.t
	oc.name = "propose"
	timeout := timeoutTicks(src)
	var session *client.Session
	switch src.Weighted([]int{3, 3, 1}) {
	case 0: // noop session
		session = &client.Session{ShardID: 1, ClientID: uint64(100 + src.Intn(3)), SeriesID: client.NoOPSeriesID}
	case 1:
		session = &client.Session{ShardID: 1, ClientID: uint64(200 + src.Intn(3)), SeriesID: uint64(1 + src.Intn(4)), RespondedTo: uint64(src.Intn(2))}
	case 2: // session registration
		session = &client.Session{ShardID: 1, ClientID: uint64(300 + src.Intn(2)), SeriesID: client.SeriesIDForRegister}
	}
	var cmd []byte
	if n := src.Intn(4); n > 0 {
		cmd = make([]byte, n*5)
		for i := range cmd {
			cmd[i] = byte(t.all + i)
		}
	}
	lazy := src.Chance(1, 5)
	rs, err := p.v.Propose(session, cmd, timeout)
	var l uint64
	if lazy {
		l = 1
	}
	if err != nil {
		t.refused++
		t.ctx.Ev("propose-refused", timeout, uint64(len(cmd)))
		if rs != nil {
			t.vio("refused-with-handle", "Propose returned both a RequestState and error %v", err)
		}
		if !t.closed && p.queued < p.qlen {
			t.vio("refused", "Propose(timeout %d) failed with %v although the table is open and %d of %d queue slots are used", timeout, err, p.queued, p.qlen)
		}
		return
	}
	if t.closed {
		t.vio("accepted-after-close", "Propose succeeded after close()")
		return
	}
	p.queued++
	h := t.accept(rs, timeout, true, lazy)
	t.ctx.Ev("propose", uint64(h.id), timeout, l)
	t.mix(1, timeout, l)
}

// take: the step worker drains the queue (node.handleProposals).
func (p *propTable) take() {
	for _, e := range p.v.Entries() {
		p.taken = append(p.taken, propEntry{key: e.Key, clientID: e.ClientID, seriesID: e.SeriesID})
	}
	p.queued = 0
}

// pickEntry picks a taken entry whose outcome was not reported yet, mostly
// the oldest (the pipeline is ordered), sometimes any.
func (p *propTable) pickEntry(src *choice.Source) *propEntry {
	var open []*propEntry
	for i := range p.taken {
		if !p.taken[i].done {
			open = append(open, &p.taken[i])
		}
	}
	if len(open) == 0 {
		return nil
	}
	if src.Chance(2, 3) {
		return open[0]
	}
	return open[src.Intn(len(open))]
}

func (p *propTable) result() (sm.Result, exp) {
	p.seq++
	v := p.seq<<8 | 0x5a
	d := byte(p.seq%250 + 1)
	return sm.Result{Value: v, Data: []byte{d}}, exp{value: v, data: d}
}

func (p *propTable) applied(src *choice.Source, oc *opCtx) {
	t := p.t
	oc.name, oc.worker = "applied", true
	e := p.pickEntry(src)
	if e == nil {
		return
	}
	rejected := src.Chance(1, 5)
	res, want := p.result()
	want.code = cCompleted
	if rejected {
		want.code = cRejected
	}
	e.done = true
	if h := t.find(e.key, e.clientID, e.seriesID); h != nil && !t.closed {
		oc.outcome = map[*handle]exp{h: want}
		if t.now <= h.deadline {
			oc.required = map[*handle]bool{h: true}
		} else {
			t.ctx.Count("probe.outcome-after-deadline", 1)
		}
		t.ctx.Ev("applied", uint64(h.id), want.value)
	} else {
		t.ctx.Count("probe.outcome-for-finished-request", 1)
		t.ctx.Ev("applied-nobody", want.value)
	}
	var r uint64
	if rejected {
		r = 1
	}
	t.mix(2, r)
	p.v.Applied(e.clientID, e.seriesID, e.key, res, rejected)
}

func (p *propTable) committed(src *choice.Source, oc *opCtx, notifyCommit bool) {
	t := p.t
	oc.name, oc.worker = "committed", true
	if !notifyCommit {
		return // the commit worker only reports when commit notification is on
	}
	// the oldest entry not yet reported committed (commit order)
	var e *propEntry
	for i := range p.taken {
		if !p.taken[i].done && !p.taken[i].committed {
			e = &p.taken[i]
			break
		}
	}
	if e == nil {
		return
	}
	e.committed = true
	if h := t.find(e.key, e.clientID, e.seriesID); h != nil && !t.closed {
		oc.committed = h
		t.ctx.Ev("committed", uint64(h.id))
	} else {
		t.ctx.Ev("committed-nobody")
	}
	t.mix(3)
	p.v.Committed(e.clientID, e.seriesID, e.key)
}

func (p *propTable) dropped(src *choice.Source, oc *opCtx) {
	t := p.t
	oc.name, oc.worker = "dropped", true
	// raft drops a proposal instead of appending it: never one that was committed
	var open []*propEntry
	for i := range p.taken {
		if !p.taken[i].done && !p.taken[i].committed {
			open = append(open, &p.taken[i])
		}
	}
	if len(open) == 0 {
		return
	}
	e := open[src.Intn(len(open))]
	e.done = true
	if h := t.find(e.key, e.clientID, e.seriesID); h != nil && !t.closed {
		oc.dropped = map[*handle]bool{h: true}
		if t.now <= h.deadline {
			oc.required = map[*handle]bool{h: true}
		}
		t.ctx.Ev("dropped", uint64(h.id))
	} else {
		t.ctx.Ev("dropped-nobody")
	}
	t.mix(4)
	p.v.Dropped(e.clientID, e.seriesID, e.key)
}

// strayNotification: outcomes for keys this table does not know (entries
// proposed on other replicas are applied here as well), for keys of requests
// that are long finished (duplicates), or with a wrong client/series id.
func (p *propTable) strayNotification(src *choice.Source, oc *opCtx, notifyCommit bool) {
	t := p.t
	oc.name, oc.worker = "stray", true
	key, cid, sid := uint64(0x77770000)+uint64(src.Intn(1000)), uint64(100+src.Intn(3)), uint64(0)
	variant := src.Intn(4)
	if variant > 0 && len(p.taken) > 0 {
		e := p.taken[src.Intn(len(p.taken))]
		switch variant {
		case 1: // duplicate for an entry whose outcome was already reported
			if !e.done {
				return
			}
			key, cid, sid = e.key, e.clientID, e.seriesID
		case 2:
			key, cid, sid = e.key, e.clientID+1, e.seriesID
		case 3:
			key, cid, sid = e.key, e.clientID, e.seriesID+1
		}
	}
	if h := t.find(key, cid, sid); h != nil {
		return // would be a real notification (cannot happen: outcome reported => not pending)
	}
	kind := src.Intn(3)
	t.ctx.Ev("stray", uint64(variant), uint64(kind))
	t.ctx.Count("probe.stray-notification", 1)
	switch kind {
	case 0:
		res, _ := p.result()
		p.v.Applied(cid, sid, key, res, src.Chance(1, 2))
	case 1:
		p.v.Dropped(cid, sid, key)
	case 2:
		if notifyCommit {
			p.v.Committed(cid, sid, key)
		}
	}
}

// duty: what a running node does every tick: tick, gc.
func (p *propTable) duty(src *choice.Source, oc *opCtx) {
	t := p.t
	oc.name, oc.worker = "duty", true
	t.now++
	t.ctx.Ev("duty", t.now)
	p.v.Tick(t.now)
	p.v.GC()
	t.round("tick+gc")
}

func (p *propTable) tickOrGC(src *choice.Source, oc *opCtx) {
	t := p.t
	oc.worker = true
	if src.Chance(1, 2) {
		t.now += uint64(1 + src.Intn(3))
		oc.name = "tick"
		t.ctx.Ev("tick", t.now)
		p.v.Tick(t.now)
	} else {
		oc.name = "gc"
		t.ctx.Ev("gc")
		p.v.GC()
	}
}

func (p *propTable) close(oc *opCtx) {
	t := p.t
	if t.closed {
		return // node.close() runs once
	}
	oc.name, oc.worker, oc.closing = "close", true, !t.closed
	t.ctx.Ev("close")
	t.mix(9)
	p.v.Close()
	t.closed = true
}

// ---------------------------------------------------------------------------
// read index

type readBatch struct {
	ctx      pb.SystemCtx
	handles  []*handle
	ready    uint64 // index confirmed by the leader (0 = not yet)
	finished bool   // dropped
}

type readTable struct {
	t       *tracker
	v       *dragonboat.VerifPendingReadIndex
	batches []*readBatch
	applied uint64
	index   uint64
	queued  int
	qlen    int
}

func runReads(t *tracker, src *choice.Source) int {
	qlen := []int{64, 3}[src.Weighted([]int{4, 1})]
	pool := dragonboat.VerifNewRequestPool(false)
	r := &readTable{t: t, qlen: qlen, index: 10, applied: 5}
	r.v = dragonboat.VerifNewPendingReadIndex(pool, uint64(qlen))
	t.ctx.Ev("read-table", uint64(qlen))
	steps := 20 + src.Intn(160)
	for i := 0; i < steps && !t.ctx.Violated(); i++ {
		oc := &opCtx{}
		switch src.Weighted([]int{8, 3, 3, 4, 4, 4, 2, 5, 2, 1}) {
		case 0:
			r.read(src, oc)
		case 1:
			t.clientRelease(src, oc)
		case 2:
			t.clientRelease(src, oc)
			t.observe(oc)
			oc = &opCtx{}
			r.read(src, oc)
		case 3:
			r.takeAndAdd(oc)
		case 4:
			r.confirm(src, oc)
		case 5:
			r.apply(src, oc)
		case 6:
			r.drop(src, oc)
		case 7:
			r.duty(oc)
		case 8:
			oc.name, oc.worker = "tick", true
			t.now += uint64(1 + src.Intn(3))
			t.ctx.Ev("tick", t.now)
			r.v.Tick(t.now)
		case 9:
			switch {
			case src.Chance(1, 4):
				r.close(oc)
			case src.Chance(1, 4):
				r.closeBetweenTakeAndAdd(oc)
			default:
				r.duty(oc)
			}
		}
		t.observe(oc)
	}
	if !t.ctx.Violated() {
		if !t.closed && src.Chance(1, 3) {
			oc := &opCtx{}
			r.close(oc)
			t.observe(oc)
		}
		for k := 0; k < 200 && !t.closed && !t.ctx.Violated() && t.anyPending(); k++ {
			oc := &opCtx{}
			r.duty(oc)
			t.observe(oc)
		}
	}
	return steps
}

func (r *readTable) read(src *choice.Source, oc *opCtx) {
	t := r.t
	oc.name = "read"
	timeout := timeoutTicks(src)
	lazy := src.Chance(1, 5)
	rs, err := r.v.Read(timeout)
	if err != nil {
		t.refused++
		t.ctx.Ev("read-refused", timeout)
		if rs != nil {
			t.vio("refused-with-handle", "Read returned both a RequestState and error %v", err)
		}
		if !t.closed && r.queued < r.qlen {
			t.vio("refused", "Read(timeout %d) failed with %v although the table is open and %d of %d queue slots are used", timeout, err, r.queued, r.qlen)
		}
		return
	}
	if t.closed {
		t.vio("accepted-after-close", "Read succeeded after close()")
		return
	}
	r.queued++
	h := t.accept(rs, timeout, true, lazy)
	var l uint64
	if lazy {
		l = 1
	}
	t.ctx.Ev("read", uint64(h.id), timeout, l)
	t.mix(1, timeout, l)
}

// takeAndAdd is node.handleReadIndex: queued requests become one batch under
// a new system context.
func (r *readTable) takeAndAdd(oc *opCtx) {
	t := r.t
	oc.name, oc.worker = "take", true
	reqs := r.v.TakeRequests()
	r.queued = 0
	if len(reqs) == 0 {
		return
	}
	b := &readBatch{ctx: r.v.NextCtx()}
	for _, rs := range reqs {
		for _, h := range t.handles {
			if h.rs == rs {
				h.taken = true
				b.handles = append(b.handles, h)
			}
		}
	}
	t.ctx.Ev("take", uint64(len(reqs)))
	r.v.Add(b.ctx, reqs)
	if !t.closed {
		r.batches = append(r.batches, b)
	}
}

// closeBetweenTakeAndAdd: node.close() (called by StopShard/StopReplica on the
// caller's goroutine, not under raftMu) lands between the two halves of
// node.handleReadIndex on the step worker: the queued requests have been taken
// out of the queue, the batch has not been added yet. Every accepted request
// must still end (Terminated).
func (r *readTable) closeBetweenTakeAndAdd(oc *opCtx) {
	t := r.t
	if t.closed {
		return
	}
	reqs := r.v.TakeRequests()
	r.queued = 0
	ctx := r.v.NextCtx()
	for _, rs := range reqs {
		for _, h := range t.handles {
			if h.rs == rs {
				h.taken = true
			}
		}
	}
	t.ctx.Ev("take-close-add", uint64(len(reqs)))
	r.close(oc)
	oc.name = "close between take and add"
	if len(reqs) > 0 {
		r.v.Add(ctx, reqs)
	}
}

// confirm: the leader confirmed a batch at the current commit index
// (ReadyToRead), or a context this table never issued.
func (r *readTable) confirm(src *choice.Source, oc *opCtx) {
	t := r.t
	oc.name, oc.worker = "confirm", true
	r.index += uint64(src.Intn(3))
	var open []*readBatch
	for _, b := range r.batches {
		if b.ready == 0 && !b.finished {
			open = append(open, b)
		}
	}
	if len(open) == 0 || src.Chance(1, 6) {
		t.ctx.Ev("confirm-unknown")
		r.v.AddReady([]pb.ReadyToRead{{Index: r.index, SystemCtx: pb.SystemCtx{Low: 0xdead0000 + uint64(src.Intn(100)), High: t.now + 30}}})
		return
	}
	b := open[0]
	if src.Chance(1, 4) {
		b = open[src.Intn(len(open))]
	}
	b.ready = r.index
	t.ctx.Ev("confirm", r.index, uint64(len(b.handles)))
	r.v.AddReady([]pb.ReadyToRead{{Index: r.index, SystemCtx: b.ctx}})
}

// apply: the state machine reached an applied index.
func (r *readTable) apply(src *choice.Source, oc *opCtx) {
	if r.applied < r.index {
		r.applied += uint64(1 + src.Intn(int(r.index-r.applied)))
	}
	oc.name = "applied"
	r.reportApplied(oc)
}

func (r *readTable) reportApplied(oc *opCtx) {
	t := r.t
	oc.worker = true
	oc.outcome = map[*handle]exp{}
	oc.required = map[*handle]bool{}
	if !t.closed {
		for _, b := range r.batches {
			if b.finished || b.ready == 0 || b.ready > r.applied {
				continue
			}
			for _, h := range b.handles {
				if t.pending(h) && !h.released {
					// ready for a local read: Completed (or Timeout when the
					// deadline has been reached); one of the two now
					oc.outcome[h] = exp{code: cCompleted}
					oc.required[h] = true
				}
			}
			b.finished = true
		}
	}
	t.ctx.Ev("applied", r.applied, uint64(len(oc.required)))
	t.mix(2, uint64(len(oc.required)))
	r.v.Applied(r.applied)
}

func (r *readTable) drop(src *choice.Source, oc *opCtx) {
	t := r.t
	oc.name, oc.worker = "dropped", true
	var open []*readBatch
	for _, b := range r.batches {
		if b.ready == 0 && !b.finished {
			open = append(open, b)
		}
	}
	if len(open) == 0 || src.Chance(1, 5) {
		t.ctx.Ev("dropped-unknown")
		r.v.Dropped(pb.SystemCtx{Low: 0xbeef0000 + uint64(src.Intn(100)), High: t.now + 30})
		return
	}
	b := open[src.Intn(len(open))]
	b.finished = true
	oc.dropped = map[*handle]bool{}
	oc.required = map[*handle]bool{}
	if !t.closed {
		for _, h := range b.handles {
			if t.pending(h) && !h.released {
				oc.dropped[h] = true
				oc.required[h] = true
			}
		}
	}
	t.ctx.Ev("dropped", uint64(len(b.handles)))
	t.mix(4)
	r.v.Dropped(b.ctx)
}

// duty: tick, take queued requests, report the applied index (node.tick and
// the periodic part of node.handleEvents).
func (r *readTable) duty(oc *opCtx) {
	t := r.t
	t.now++
	t.ctx.Ev("duty", t.now)
	r.v.Tick(t.now)
	r.takeAndAdd(oc)
	oc.name = "duty"
	r.reportApplied(oc)
	t.round("tick+take+applied")
}

func (r *readTable) close(oc *opCtx) {
	t := r.t
	if t.closed {
		return
	}
	oc.name, oc.worker, oc.closing = "close", true, !t.closed
	t.ctx.Ev("close")
	t.mix(9)
	r.v.Close()
	t.closed = true
}

// ---------------------------------------------------------------------------
// config change, snapshot: one outstanding request each

type singleTable struct {
	t            *tracker
	cc           *dragonboat.VerifPendingConfigChange
	ss           *dragonboat.VerifPendingSnapshot
	notifyCommit bool
	// the request the worker has taken from the channel
	takenKey       uint64
	haveTaken      bool
	takenCommitted bool
	inChannel      bool
	seq            uint64
}

func runConfigChange(t *tracker, src *choice.Source) int {
	s := &singleTable{t: t, notifyCommit: src.Chance(1, 2)}
	s.cc = dragonboat.VerifNewPendingConfigChange(s.notifyCommit)
	return s.run(src)
}

func runSnapshot(t *tracker, src *choice.Source) int {
	s := &singleTable{t: t}
	s.ss = dragonboat.VerifNewPendingSnapshot()
	return s.run(src)
}

func (s *singleTable) run(src *choice.Source) int {
	t := s.t
	var nc uint64
	if s.notifyCommit {
		nc = 1
	}
	t.ctx.Ev("single-table", nc)
	steps := 20 + src.Intn(120)
	for i := 0; i < steps && !t.ctx.Violated(); i++ {
		oc := &opCtx{}
		switch src.Weighted([]int{8, 2, 5, 3, 2, 2, 5, 2, 1}) {
		case 0:
			s.request(src, oc)
		case 1:
			t.clientRelease(src, oc)
		case 2:
			s.take()
			s.apply(src, oc)
		case 3:
			s.take()
			s.committed(oc)
		case 4:
			s.take()
			s.dropped(oc)
		case 5:
			s.stray(src, oc)
		case 6:
			s.duty(oc)
		case 7:
			oc.worker = true
			if src.Chance(1, 2) {
				oc.name = "tick"
				t.now += uint64(1 + src.Intn(3))
				t.ctx.Ev("tick", t.now)
				s.tick()
			} else {
				oc.name = "gc"
				t.ctx.Ev("gc")
				s.gc()
			}
		case 8:
			if src.Chance(1, 4) {
				s.close(oc)
			} else {
				s.duty(oc)
			}
		}
		t.observe(oc)
	}
	if !t.ctx.Violated() {
		if !t.closed && src.Chance(1, 3) {
			oc := &opCtx{}
			s.close(oc)
			t.observe(oc)
		}
		for k := 0; k < 200 && !t.closed && !t.ctx.Violated() && t.anyPending(); k++ {
			oc := &opCtx{}
			s.duty(oc)
			t.observe(oc)
		}
	}
	return steps
}

func (s *singleTable) tick() {
	if s.cc != nil {
		s.cc.Tick(s.t.now)
	} else {
		s.ss.Tick(s.t.now)
	}
}

func (s *singleTable) gc() {
	if s.cc != nil {
		s.cc.GC()
	} else {
		s.ss.GC()
	}
}

func (s *singleTable) request(src *choice.Source, oc *opCtx) {
	t := s.t
	oc.name = "request"
	timeout := timeoutTicks(src)
	var rs *dragonboat.RequestState
	var err error
	if s.cc != nil {
		cc := pb.ConfigChange{Type: pb.ConfigChangeType(src.Intn(4)), ReplicaID: uint64(2 + src.Intn(5)), Address: "a:1"}
		rs, err = s.cc.Request(cc, timeout)
	} else {
		rs, err = s.ss.Request(rsm.UserRequested, "", false, 0, 0, timeout)
	}
	if err != nil {
		t.refused++
		t.ctx.Ev("request-refused", timeout)
		if rs != nil {
			t.vio("refused-with-handle", "request returned both a RequestState and error %v", err)
		}
		if !t.closed && !t.anyPending() && !s.inChannel {
			t.vio("refused", "request(timeout %d) failed with %v although the table is open, nothing is pending and the request channel is empty", timeout, err)
		}
		return
	}
	if t.closed {
		t.vio("accepted-after-close", "request succeeded after close()")
		return
	}
	if t.anyPending() {
		t.vio("second-request-accepted", "request accepted while another one is still pending")
		return
	}
	s.inChannel = true
	lazy := src.Chance(1, 5)
	h := t.accept(rs, timeout, true, lazy)
	var l uint64
	if lazy {
		l = 1
	}
	t.ctx.Ev("request", uint64(h.id), timeout, l)
	t.mix(1, timeout, l)
}

// take: the step worker takes the request from the channel.
func (s *singleTable) take() {
	if s.cc != nil {
		if key, _, ok := s.cc.TakeRequest(); ok {
			s.takenKey, s.haveTaken, s.takenCommitted, s.inChannel = key, true, false, false
		}
		return
	}
	if req, ok := s.ss.TakeRequest(); ok {
		s.takenKey, s.haveTaken, s.takenCommitted, s.inChannel = req.Key, true, false, false
	}
}

func (s *singleTable) target() *handle {
	if !s.haveTaken {
		return nil
	}
	return s.t.find(s.takenKey, 0, 0)
}

func (s *singleTable) apply(src *choice.Source, oc *opCtx) {
	t := s.t
	oc.name, oc.worker = "apply", true
	if !s.haveTaken {
		return
	}
	s.seq++
	want := exp{code: cCompleted}
	variant := src.Weighted([]int{4, 1, 1})
	h := s.target()
	if h != nil && !t.closed {
		oc.outcome = map[*handle]exp{}
		oc.required = map[*handle]bool{h: true}
	}
	key := s.takenKey
	s.haveTaken = false
	if s.cc != nil {
		rejected := variant != 0
		if rejected {
			want.code = cRejected
		}
		if oc.outcome != nil {
			oc.outcome[h] = want
		}
		t.ctx.Ev("apply", uint64(variant))
		s.cc.Apply(key, rejected)
	} else {
		index := s.seq<<8 | 0x33
		switch variant {
		case 0:
			want.value = index
		case 1:
			want.code = cRejected
		case 2:
			want.code = cAborted
		}
		if oc.outcome != nil {
			oc.outcome[h] = want
		}
		t.ctx.Ev("apply", uint64(variant))
		s.ss.Apply(key, variant == 1, variant == 2, index)
	}
	t.mix(2, uint64(variant))
}

func (s *singleTable) committed(oc *opCtx) {
	t := s.t
	oc.name, oc.worker = "committed", true
	if s.cc == nil || !s.notifyCommit || !s.haveTaken || s.takenCommitted {
		return
	}
	s.takenCommitted = true
	if h := s.target(); h != nil && !t.closed {
		oc.committed = h
	}
	t.ctx.Ev("committed")
	t.mix(3)
	s.cc.Committed(s.takenKey)
}

func (s *singleTable) dropped(oc *opCtx) {
	t := s.t
	oc.name, oc.worker = "dropped", true
	if s.cc == nil || !s.haveTaken || s.takenCommitted {
		return
	}
	if h := s.target(); h != nil && !t.closed {
		oc.dropped = map[*handle]bool{h: true}
		oc.required = map[*handle]bool{h: true}
	}
	key := s.takenKey
	s.haveTaken = false
	t.ctx.Ev("dropped")
	t.mix(4)
	s.cc.Dropped(key)
}

// stray: notifications carrying a key that is not the pending one.
func (s *singleTable) stray(src *choice.Source, oc *opCtx) {
	t := s.t
	oc.name, oc.worker = "stray", true
	key := uint64(0x5555000000) + uint64(src.Intn(1000))
	for _, h := range t.handles {
		if h.key == key {
			return
		}
	}
	kind := src.Intn(3)
	t.ctx.Ev("stray", uint64(kind))
	t.ctx.Count("probe.stray-notification", 1)
	if s.cc != nil {
		switch kind {
		case 0:
			s.cc.Apply(key, src.Chance(1, 2))
		case 1:
			s.cc.Dropped(key)
		case 2:
			if s.notifyCommit {
				s.cc.Committed(key)
			}
		}
		return
	}
	s.ss.Apply(key, kind == 1, kind == 2, 77)
}

func (s *singleTable) duty(oc *opCtx) {
	t := s.t
	oc.name, oc.worker = "duty", true
	t.now++
	t.ctx.Ev("duty", t.now)
	s.tick()
	s.gc()
	t.round("tick+gc")
}

func (s *singleTable) close(oc *opCtx) {
	t := s.t
	if t.closed {
		return
	}
	oc.name, oc.worker, oc.closing = "close", true, !t.closed
	t.ctx.Ev("close")
	t.mix(9)
	if s.cc != nil {
		s.cc.Close()
	} else {
		s.ss.Close()
	}
	t.closed = true
}

// ---------------------------------------------------------------------------
// raft log query: one outstanding request, no deadline

func runQuery(t *tracker, src *choice.Source) int {
	v := dragonboat.VerifNewPendingRaftLogQuery()
	t.ctx.Ev("query-table")
	steps := 10 + src.Intn(60)
	var seq uint64
	closeIt := func(oc *opCtx) {
		if t.closed {
			return
		}
		oc.name, oc.worker, oc.closing = "close", true, !t.closed
		t.ctx.Ev("close")
		v.Close()
		t.closed = true
	}
	answer := func(oc *opCtx) {
		oc.name, oc.worker = "returned", true
		var h *handle
		for _, c := range t.handles {
			if t.pending(c) {
				h = c
			}
		}
		// the step worker only reports a result for the query it fetched with get()
		if h == nil || v.Get() == nil {
			return
		}
		seq++
		outOfRange := src.Chance(1, 3)
		want := exp{code: cCompleted}
		if outOfRange {
			want.code = cOutOfRange
		}
		oc.outcome = map[*handle]exp{h: want}
		oc.required = map[*handle]bool{h: true}
		var o uint64
		if outOfRange {
			o = 1
		}
		t.ctx.Ev("returned", uint64(h.id), o)
		t.mix(2, o)
		v.Returned(outOfRange, dragonboat.LogRange{FirstIndex: seq, LastIndex: seq + 5}, []pb.Entry{{Index: seq, Term: 1}})
	}
	for i := 0; i < steps && !t.ctx.Violated(); i++ {
		oc := &opCtx{}
		switch src.Weighted([]int{6, 2, 5, 1}) {
		case 0:
			oc.name = "query"
			if t.closed {
				// pendingRaftLogQuery has no closed state of its own (node.queryRaftLog
				// checks the node): nothing to decide here after close
				break
			}
			rs, err := v.Add(uint64(1+src.Intn(5)), uint64(10+src.Intn(5)), uint64(src.Intn(1000)))
			if err != nil {
				t.refused++
				t.ctx.Ev("query-refused")
				if !t.anyPending() {
					t.vio("refused", "QueryRaftLog refused with %v although nothing is pending", err)
				}
				break
			}
			if t.anyPending() {
				t.vio("second-request-accepted", "log query accepted while another one is still pending")
				break
			}
			h := t.accept(rs, 0, false, src.Chance(1, 5))
			t.ctx.Ev("query", uint64(h.id))
			t.mix(1)
		case 1:
			t.clientRelease(src, oc)
		case 2:
			if !t.closed {
				answer(oc)
			}
		case 3:
			if src.Chance(1, 3) {
				closeIt(oc)
			}
		}
		t.observe(oc)
	}
	if !t.ctx.Violated() && t.anyPending() && !t.closed {
		oc := &opCtx{}
		if src.Chance(1, 2) {
			closeIt(oc)
		} else {
			answer(oc)
		}
		t.observe(oc)
	}
	return steps
}

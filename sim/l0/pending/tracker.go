// Package pending is the L0 model test behind the component part of property
// C12: the pending request tables of request.go (pendingProposal,
// pendingReadIndex, pendingConfigChange, pendingSnapshot, pendingRaftLogQuery,
// reached through the verif exports of package dragonboat) are driven with
// tape-ordered operations of a client side (requests with any timeout >= 1
// tick, Release and immediate reuse of pooled RequestState objects, reading
// results eagerly or not at all) and a worker side (committed / applied /
// dropped / tick / gc / close, including notifications for unknown, completed
// and expired keys) and compared with a small reference table written from the
// statement of C12 and the doc comments of request.go. Single goroutine: the
// channels are polled without blocking after every operation.
//
// The reference rules (what may appear on the channel of a request, per
// operation): a Committed notification only when the worker reported that key
// committed, at most once, before the terminal value, only with commit
// notification enabled; Completed/Rejected/Aborted/OutOfRange only in the
// very operation in which the worker reported the outcome of that key, with
// exactly the result passed for it; Dropped only when the worker reported it
// dropped; Timeout only from a worker operation at a tick >= the deadline;
// Terminated only from close; one terminal value per accepted request, ever.
// Obligations: an outcome reported while the deadline has not passed must be
// delivered at once; close terminates everything pending; a request still
// pending Slack duty rounds (tick + gc + periodic apply notification, what a
// running node does every tick) after its deadline is a violation.
package pending

import (
	"fmt"

	dragonboat "github.com/lni/dragonboat/v4"
	"github.com/lni/dragonboat/v4/verifsim/runner"
)

// Prop is the property all oracles of this package belong to.
const Prop = "C12"

// Slack is the number of duty rounds after the deadline by which a pending
// request must have been timed out. Chosen generously; not derived from the
// gc period of the code.
const Slack = 8

const (
	cCompleted  = "RequestCompleted"
	cRejected   = "RequestRejected"
	cAborted    = "RequestAborted"
	cOutOfRange = "RequestOutOfRange"
	cDropped    = "RequestDropped"
	cTimeout    = "RequestTimeout"
	cTerminated = "RequestTerminated"
)

// handle is what the client side knows about one accepted request plus the
// reference table's record of it.
type handle struct {
	id           int
	rs           *dragonboat.RequestState
	ch           chan dragonboat.RequestResult // CompletedC at acceptance
	cc           chan dragonboat.RequestResult // committed channel at acceptance (nil if off)
	key          uint64
	clientID     uint64
	seriesID     uint64
	deadline     uint64
	hasDeadline  bool
	notifyCommit bool
	lazy         bool // the client does not read results as they arrive
	// reference table
	committedSeen bool
	terminal      string // result code once the terminal value was attributed
	released      bool
	roundsPast    int
	// lazy handles: context of the operation in which a value arrived
	arrival   *opCtx
	ccArrival *opCtx
	// read index
	taken bool
	// zombies (released without reading): which of the channels obtained at
	// acceptance still belong to this client alone (a non-empty channel is
	// replaced when the object is reused; an empty one is shared with the
	// next owner and must not be touched any more)
	ownCh, ownCC bool
}

// opCtx describes the operation that just ran: what it entitles the tables to
// deliver.
type opCtx struct {
	name      string
	worker    bool            // a worker side operation (may expire requests)
	committed *handle         // key reported committed
	outcome   map[*handle]exp // handles whose outcome was reported in this op
	dropped   map[*handle]bool
	required  map[*handle]bool // must receive their terminal value in this op
	closing   bool
	now       uint64
}

type exp struct {
	code  string
	value uint64
	data  byte
}

type tracker struct {
	ctx     *runner.Ctx
	handles []*handle // accepted, not yet released
	zombies []*handle // released without having read the result
	all     int
	now     uint64
	closed  bool
	sig     uint64
	// statistics
	accepted, refused, terminals, reused, committedN int
	byPtr                                            map[*dragonboat.RequestState]int // released objects -> id of last owner
}

func newTracker(ctx *runner.Ctx) *tracker {
	return &tracker{ctx: ctx, sig: 1469598103934665603, byPtr: map[*dragonboat.RequestState]int{}}
}

func (t *tracker) vio(oracle, format string, args ...interface{}) {
	t.ctx.Violate(Prop, oracle, format, args...)
}

func (t *tracker) mix(vals ...uint64) {
	h := t.sig
	for _, v := range vals {
		h = (h ^ v) * 1099511628211
		h ^= h >> 31
	}
	t.sig = h
}

// accept registers a request the table accepted.
func (t *tracker) accept(rs *dragonboat.RequestState, timeout uint64, hasDeadline bool, lazy bool) *handle {
	t.all++
	info := dragonboat.VerifGetRequestInfo(rs)
	h := &handle{id: t.all, rs: rs, ch: rs.CompletedC, cc: dragonboat.VerifCommittedC(rs), key: info.Key,
		clientID: info.ClientID, seriesID: info.SeriesID, deadline: t.now + timeout, hasDeadline: hasDeadline,
		notifyCommit: info.NotifyCommit, lazy: lazy}
	for _, o := range t.handles {
		if o.rs == rs {
			t.vio("pooled-while-live", "request #%d was handed the RequestState object of request #%d, which was not released (terminal %q)", h.id, o.id, o.terminal)
		}
	}
	if len(rs.CompletedC) != 0 {
		t.vio("stale-result-on-new-request", "request #%d starts with a result already in its channel", h.id)
	}
	if h.cc != nil && len(h.cc) != 0 {
		t.vio("stale-result-on-new-request", "request #%d starts with a committed notification already in its channel", h.id)
	}
	if hasDeadline && info.Deadline != h.deadline {
		t.vio("deadline-mismatch", "request #%d accepted at tick %d with timeout %d has deadline %d", h.id, t.now, timeout, info.Deadline)
	}
	if prev, ok := t.byPtr[rs]; ok {
		t.reused++
		t.ctx.Count("probe.pooled-object-reused", 1)
		t.ctx.Tracef("request #%d reuses the object of released request #%d", h.id, prev)
		delete(t.byPtr, rs)
	}
	t.handles = append(t.handles, h)
	t.accepted++
	return h
}

func (t *tracker) pending(h *handle) bool {
	return h.terminal == "" && h.arrival == nil
}

// byKey finds the live request with that identity that has no terminal value
// yet (the only one an outcome may be delivered to).
func (t *tracker) find(key, clientID, seriesID uint64) *handle {
	for _, h := range t.handles {
		if h.key == key && h.clientID == clientID && h.seriesID == seriesID && t.pending(h) {
			return h
		}
	}
	return nil
}

// attribute validates one value read from the channels of h against the
// operation it arrived in.
func (t *tracker) attribute(h *handle, rr dragonboat.RequestResult, fromCommittedC bool, oc *opCtx) {
	code := dragonboat.VerifResultCode(rr)
	if dragonboat.VerifIsCommittedNotification(rr) {
		if !fromCommittedC {
			t.vio("unfounded-result", "request #%d: committed notification delivered on the terminal result channel (op %s)", h.id, oc.name)
			return
		}
		if !h.notifyCommit {
			t.vio("unfounded-committed", "request #%d: committed notification although commit notification is off", h.id)
			return
		}
		if h.committedSeen {
			t.vio("double-committed", "request #%d was notified committed twice (op %s)", h.id, oc.name)
			return
		}
		if oc.committed != h {
			t.vio("unfounded-committed", "request #%d was notified committed by op %s which did not report it committed", h.id, oc.name)
			return
		}
		h.committedSeen = true
		t.committedN++
		return
	}
	if fromCommittedC {
		t.vio("unfounded-result", "request #%d: %s delivered on the committed channel (op %s)", h.id, code, oc.name)
		return
	}
	if h.terminal != "" {
		t.vio("double-terminal", "request #%d already got %s and now got %s (op %s)", h.id, h.terminal, code, oc.name)
		return
	}
	switch code {
	case cCompleted, cRejected, cAborted, cOutOfRange:
		e, ok := oc.outcome[h]
		if !ok {
			t.vio("unfounded-result", "request #%d got %s (value %d) from op %s which did not report an outcome for it", h.id, code, rr.GetResult().Value, oc.name)
			return
		}
		if e.code != code {
			t.vio("wrong-result", "request #%d got %s, the worker reported %s (op %s)", h.id, code, e.code, oc.name)
			return
		}
		got := rr.GetResult()
		if got.Value != e.value || (e.data != 0 && (len(got.Data) != 1 || got.Data[0] != e.data)) {
			t.vio("wrong-result", "request #%d got %s with value %d data %v, the worker passed value %d data [%d] for it (op %s)", h.id, code, got.Value, got.Data, e.value, e.data, oc.name)
			return
		}
	case cDropped:
		if !oc.dropped[h] {
			t.vio("unfounded-result", "request #%d got Dropped from op %s which did not report it dropped", h.id, oc.name)
			return
		}
	case cTimeout:
		if !oc.worker {
			t.vio("unfounded-result", "request #%d got Timeout from client side op %s", h.id, oc.name)
			return
		}
		if !h.hasDeadline {
			t.vio("unfounded-result", "request #%d has no deadline but got Timeout", h.id)
			return
		}
		if oc.now < h.deadline {
			t.vio("timeout-early", "request #%d with deadline %d got Timeout at tick %d (op %s)", h.id, h.deadline, oc.now, oc.name)
			return
		}
	case cTerminated:
		if !oc.closing {
			t.vio("unfounded-result", "request #%d got Terminated from op %s", h.id, oc.name)
			return
		}
	default:
		t.vio("unfounded-result", "request #%d got unexpected code %s", h.id, code)
		return
	}
	h.terminal = code
	t.terminals++
	t.ctx.Count("ev.terminal."+code, 1)
}

// observe polls every live handle after an operation and checks the
// obligations of the operation.
func (t *tracker) observe(oc *opCtx) {
	oc.now = t.now
	var seen uint64
	for _, h := range t.handles {
		if h.lazy {
			// the client only notices that something is there
			if h.cc != nil && h.ccArrival == nil && len(h.cc) > 0 {
				h.ccArrival = oc
			}
			if h.arrival == nil && len(h.rs.CompletedC) > 0 {
				h.arrival = oc
				seen = seen*31 + uint64(h.id)
			}
			continue
		}
		if h.cc != nil {
			select {
			case rr := <-h.cc:
				t.attribute(h, rr, true, oc)
				seen = seen*31 + uint64(h.id)*2
			default:
			}
		}
		select {
		case rr := <-h.rs.CompletedC:
			t.attribute(h, rr, false, oc)
			seen = seen*31 + uint64(h.id)*2 + 1
		default:
		}
		// exactly one: nothing else may be queued behind it
		select {
		case rr := <-h.rs.CompletedC:
			t.attribute(h, rr, false, oc)
		default:
		}
	}
	t.ctx.Ev("observed", seen, uint64(t.terminals))
	for h := range oc.required {
		if t.pending(h) {
			t.vio("result-lost", "op %s reported the outcome of request #%d at tick %d (deadline %d) but nothing was delivered to it", oc.name, h.id, oc.now, h.deadline)
		}
	}
	if oc.closing {
		for _, h := range t.handles {
			if t.pending(h) {
				t.vio("close-missed", "close() left request #%d pending", h.id)
			}
		}
	}
}

// consumeLazy reads what a lazy client left in its channels and validates it
// against the operation it arrived in.
func (t *tracker) consumeLazy(h *handle) {
	if h.released && !h.ownCC {
		h.cc = nil
	}
	if h.cc != nil {
		select {
		case rr := <-h.cc:
			oc := h.ccArrival
			if oc == nil {
				oc = &opCtx{name: "unnoticed"}
			}
			t.attribute(h, rr, true, oc)
		default:
		}
	}
	for k := 0; k < 2; k++ {
		select {
		case rr := <-h.ch:
			oc := h.arrival
			if oc == nil {
				oc = &opCtx{name: "unnoticed"}
			}
			t.attribute(h, rr, false, oc)
		default:
		}
	}
}

// release returns a request object to the pool the way a client does. Without
// read, the (lazy) client never looked at the result; the harness reads the
// channel it got at acceptance later, as a zombie.
func (t *tracker) release(i int, read bool) {
	h := t.handles[i]
	if h.lazy && read {
		t.consumeLazy(h)
		h.lazy = false
	}
	done := h.terminal != "" || h.arrival != nil
	h.rs.Release()
	if !done {
		// Release before the terminal value is documented as ignored: the
		// handle stays live
		t.ctx.Count("probe.premature-release", 1)
		return
	}
	h.ownCh = len(h.ch) > 0
	h.ownCC = h.cc != nil && len(h.cc) > 0
	h.released = true
	t.byPtr[h.rs] = h.id
	t.handles = append(t.handles[:i], t.handles[i+1:]...)
	if h.terminal == "" {
		t.zombies = append(t.zombies, h)
		t.ctx.Count("probe.released-unread", 1)
	}
}

// round accounts one duty round of the worker for the expiry oracle.
func (t *tracker) round(name string) {
	if t.closed {
		return
	}
	for _, h := range t.handles {
		if !h.hasDeadline || !t.pending(h) {
			continue
		}
		if t.now > h.deadline {
			h.roundsPast++
			if h.roundsPast > Slack {
				t.vio("expiry-missed", "request #%d (deadline %d) is still pending at tick %d, %d duty rounds (%s) after its deadline", h.id, h.deadline, t.now, h.roundsPast, name)
				return
			}
		}
	}
}

// finish reads everything that is left and checks that every accepted request
// got exactly one terminal value.
func (t *tracker) finish() {
	for _, h := range t.handles {
		if h.lazy {
			t.consumeLazy(h)
		}
	}
	for _, h := range t.zombies {
		t.consumeLazy(h)
	}
	for _, h := range append(append([]*handle(nil), t.handles...), t.zombies...) {
		if h.terminal == "" && !t.ctx.Violated() {
			t.vio("no-terminal", "request #%d (deadline %d, has deadline %t) never got a terminal value; tick %d closed %t", h.id, h.deadline, h.hasDeadline, t.now, t.closed)
		}
	}
}

func (t *tracker) summary(table string) string {
	return fmt.Sprintf("table=%s accepted=%d refused=%d terminals=%d committed=%d reused=%d tick=%d closed=%t",
		table, t.accepted, t.refused, t.terminals, t.committedN, t.reused, t.now, t.closed)
}

// Package frames is the L0 simulator behind the part of property C13 that a
// simulation can decide: transport frames produced by the real senders
// (TCPConnection.SendMessageBatch, TCPSnapshotConnection.SendChunk ->
// writeMessage) are fed, intact or with single-bit flips, short bursts and
// truncations, to the real receiver (readMagicNumber/readMessage/Unmarshal,
// and the complete serveConn loop on a sample) over an in-memory net.Conn; a
// damaged frame must never be delivered as something different from what was
// sent. On the way every generated value of every wire/disk type is checked
// for decode(encode(x)) == x and len(encoding) <= Size() <= SizeUpperLimit().
//
// The codec clause of C13 is only exercised on the values generated here
// (boundary heavy, but a sample): nothing is claimed for other inputs.
package frames

import (
	"github.com/lni/dragonboat/v4/client"
	"github.com/lni/dragonboat/v4/config"
	"github.com/lni/dragonboat/v4/internal/rsm"
	pb "github.com/lni/dragonboat/v4/raftpb"
	"github.com/lni/dragonboat/v4/verifsim/choice"
)

// gen builds values from a choice source. small limits counts and payload
// sizes (used for frames whose every bit is going to be flipped).
type gen struct {
	src   *choice.Source
	small bool
	// bias correlates the scalar fields of one struct: 0 independent, 1 all
	// huge (longest encodings: what size bounds have to survive), 2 all tiny
	bias int
}

// pushBias draws the bias for one struct; the returned func restores the
// previous one.
func (g *gen) pushBias() func() {
	old := g.bias
	g.bias = g.src.Weighted([]int{6, 2, 1})
	return func() { g.bias = old }
}

var huge = []uint64{1<<64 - 1, 1 << 63, 1<<63 + 1, 1<<64 - 2, 1 << 56, 1<<63 - 1}

var boundaries = []uint64{
	0, 1, 2, 127, 128, 255, 256, 16383, 16384, 1<<21 - 1, 1 << 21, 1<<28 - 1, 1 << 28,
	1<<31 - 1, 1 << 31, 1<<32 - 1, 1 << 32, 1<<35 - 1, 1 << 35, 1<<42 - 1, 1 << 42,
	1<<49 - 2, 1<<49 - 1, 1 << 49, 1<<49 + 1, 1<<56 - 1, 1 << 56, 1<<56 + 1,
	1<<63 - 1, 1 << 63, 1<<63 + 1, 1<<64 - 2, 1<<64 - 1,
}

// u64: 0 is the most benign value.
func (g *gen) u64() uint64 {
	switch g.bias {
	case 1:
		return huge[g.src.Intn(len(huge))]
	case 2:
		return uint64(g.src.Intn(3))
	}
	switch g.src.Weighted([]int{4, 5, 2, 2}) {
	case 0:
		return uint64(g.src.Intn(4))
	case 1:
		return boundaries[g.src.Intn(len(boundaries))]
	case 2:
		return g.src.Uint64() ^ uint64(g.src.Intn(4))<<62
	default:
		k := uint(g.src.Intn(64))
		d := uint64(g.src.Intn(3))
		if g.src.Chance(1, 2) {
			return uint64(1)<<k - d
		}
		return uint64(1)<<k + d
	}
}

func (g *gen) u32() uint32 {
	switch g.src.Weighted([]int{3, 3, 1}) {
	case 0:
		return uint32(g.src.Intn(4))
	case 1:
		b := []uint32{0, 1, 127, 128, 16383, 16384, 1<<21 - 1, 1 << 21, 1<<28 - 1, 1 << 28, 1<<31 - 1, 1 << 31, 1<<32 - 1}
		return b[g.src.Intn(len(b))]
	default:
		return uint32(g.src.Uint64())
	}
}

func (g *gen) bool() bool { return g.src.Chance(1, 2) }

func (g *gen) fill(n int) []byte {
	b := make([]byte, n)
	seed := uint64(g.src.Intn(1 << 16))
	mode := g.src.Intn(3)
	for i := range b {
		switch mode {
		case 0: // compressible
			b[i] = byte(seed) + byte(i%7)
		case 1: // noisy
			seed = seed*6364136223846793005 + 1442695040888963407
			b[i] = byte(seed >> 33)
		default: // bytes that look like framing: 0x7f, 0x80, 0xff, 0x00
			b[i] = []byte{0x7f, 0x80, 0xff, 0x00, 0xae, 0x7d}[(int(seed)+i)%6]
		}
	}
	return b
}

// bytes: nil, empty, short, varint length boundaries, large-ish.
func (g *gen) bytes() []byte {
	w := []int{6, 2, 12, 4, 1}
	if g.small {
		w = []int{3, 1, 5, 0, 0}
	}
	switch g.src.Weighted(w) {
	case 0:
		return nil
	case 1:
		return []byte{}
	case 2:
		return g.fill(1 + g.src.Intn(24))
	case 3:
		b := []int{126, 127, 128, 129, 255, 256, 16382, 16383, 16384, 16385}
		return g.fill(b[g.src.Intn(len(b))])
	default:
		return g.fill(20000 + g.src.Intn(120000))
	}
}

func (g *gen) str() string {
	w := []int{3, 3, 3, 1, 1}
	if g.small {
		w = []int{3, 3, 3, 0, 1}
	}
	switch g.src.Weighted(w) {
	case 0:
		return ""
	case 1:
		return string(rune('a' + g.src.Intn(26)))
	case 2:
		hosts := []string{"localhost:9000", "10.0.0.1:26000", "node-3.cluster.example.org:63001", "[::1]:1", "nhid-1234567890"}
		return hosts[g.src.Intn(len(hosts))]
	case 3:
		return string(g.fill(120 + g.src.Intn(200)))
	default:
		return string([]byte{0, 0xff, 0x80, 'x', 0x7f}[:1+g.src.Intn(5)])
	}
}

func (g *gen) count(max int) int {
	if g.small && max > 2 {
		max = 2
	}
	return g.src.Intn(max + 1)
}

func (g *gen) strMap() map[uint64]string {
	switch g.src.Weighted([]int{3, 1, 4}) {
	case 0:
		return nil
	case 1:
		return map[uint64]string{}
	}
	n := 1 + g.count(3)
	m := make(map[uint64]string, n)
	for i := 0; i < n; i++ {
		m[g.u64()] = g.str()
	}
	return m
}

func (g *gen) boolMap() map[uint64]bool {
	switch g.src.Weighted([]int{3, 1, 3}) {
	case 0:
		return nil
	case 1:
		return map[uint64]bool{}
	}
	n := 1 + g.count(3)
	m := make(map[uint64]bool, n)
	for i := 0; i < n; i++ {
		m[g.u64()] = g.bool()
	}
	return m
}

func (g *gen) membership() pb.Membership {
	defer g.pushBias()()
	if g.src.Chance(1, 4) {
		return pb.Membership{}
	}
	return pb.Membership{
		ConfigChangeId: g.u64(),
		Addresses:      g.strMap(),
		Removed:        g.boolMap(),
		NonVotings:     g.strMap(),
		Witnesses:      g.strMap(),
	}
}

func (g *gen) configChange() pb.ConfigChange {
	defer g.pushBias()()
	return pb.ConfigChange{
		ConfigChangeId: g.u64(),
		Type:           pb.ConfigChangeType(g.src.Intn(4)),
		ReplicaID:      g.u64(),
		Address:        g.str(),
		Initialize:     g.bool(),
	}
}

// payloadCase is one (compression type, payload) pair checked for the
// GetEncoded/GetPayload round trip.
type payloadCase struct {
	ct      config.CompressionType
	payload []byte
	encoded []byte
}

func (g *gen) payload() payloadCase {
	pc := payloadCase{ct: config.NoCompression}
	if g.src.Chance(1, 2) {
		pc.ct = config.Snappy
	}
	for len(pc.payload) == 0 { // GetEncoded documents that an empty payload is not allowed
		pc.payload = g.bytes()
		if len(pc.payload) == 0 {
			pc.payload = g.fill(1 + g.src.Intn(3))
		}
	}
	pc.encoded = rsm.GetEncoded(rsm.ToDioType(pc.ct), pc.payload, nil)
	return pc
}

func (g *gen) entry(payloads *[]payloadCase) pb.Entry {
	defer g.pushBias()()
	e := pb.Entry{
		Term:        g.u64(),
		Index:       g.u64(),
		Key:         g.u64(),
		ClientID:    g.u64(),
		SeriesID:    g.u64(),
		RespondedTo: g.u64(),
	}
	switch g.src.Weighted([]int{5, 2, 2, 1}) {
	case 0:
		e.Type = pb.ApplicationEntry
		e.Cmd = g.bytes()
	case 1:
		e.Type = pb.ConfigChangeEntry
		cc := g.configChange()
		e.Cmd = pb.MustMarshal(&cc)
	case 2:
		e.Type = pb.EncodedEntry
		pc := g.payload()
		e.Cmd = pc.encoded
		if payloads != nil {
			*payloads = append(*payloads, pc)
		}
	case 3:
		e.Type = pb.MetadataEntry
		if g.bool() {
			e.Cmd = []byte{}
		}
	}
	return e
}

func (g *gen) entries(max int, payloads *[]payloadCase) []pb.Entry {
	switch g.src.Weighted([]int{3, 1, 6, 1}) {
	case 0:
		return nil
	case 1:
		return []pb.Entry{}
	case 3:
		if !g.small {
			max = 40
		}
	}
	n := 1 + g.count(max-1)
	out := make([]pb.Entry, n)
	for i := range out {
		out[i] = g.entry(payloads)
	}
	return out
}

func (g *gen) snapshotFile() *pb.SnapshotFile {
	defer g.pushBias()()
	return &pb.SnapshotFile{Filepath: g.str(), FileSize: g.u64(), FileId: g.u64(), Metadata: g.bytes()}
}

func (g *gen) snapshot() pb.Snapshot {
	defer g.pushBias()()
	ss := pb.Snapshot{
		Filepath:    g.str(),
		FileSize:    g.u64(),
		Index:       g.u64(),
		Term:        g.u64(),
		Membership:  g.membership(),
		Dummy:       g.bool(),
		ShardID:     g.u64(),
		Type:        pb.StateMachineType(g.src.Intn(4)),
		Imported:    g.bool(),
		OnDiskIndex: g.u64(),
		Witness:     g.bool(),
	}
	switch g.src.Weighted([]int{3, 1, 3}) {
	case 1:
		ss.Files = []*pb.SnapshotFile{}
	case 2:
		n := 1 + g.count(2)
		for i := 0; i < n; i++ {
			ss.Files = append(ss.Files, g.snapshotFile())
		}
	}
	switch g.src.Weighted([]int{2, 1, 3}) {
	case 1:
		ss.Checksum = []byte{}
	case 2:
		ss.Checksum = g.fill([]int{4, 8, 16, 32}[g.src.Intn(4)])
	}
	return ss
}

func (g *gen) message(payloads *[]payloadCase) pb.Message {
	defer g.pushBias()()
	m := pb.Message{
		Type:     pb.MessageType(g.src.Intn(29)),
		To:       g.u64(),
		From:     g.u64(),
		ShardID:  g.u64(),
		Term:     g.u64(),
		LogTerm:  g.u64(),
		LogIndex: g.u64(),
		Commit:   g.u64(),
		Reject:   g.bool(),
		Hint:     g.u64(),
		HintHigh: g.u64(),
	}
	m.Entries = g.entries(5, payloads)
	if g.src.Chance(1, 4) {
		m.Snapshot = g.snapshot()
	}
	return m
}

func (g *gen) batch(payloads *[]payloadCase) pb.MessageBatch {
	defer g.pushBias()()
	mb := pb.MessageBatch{DeploymentId: g.u64(), SourceAddress: g.str(), BinVer: g.u32()}
	switch g.src.Weighted([]int{1, 1, 8}) {
	case 1:
		mb.Requests = []pb.Message{}
	case 2:
		n := 1 + g.count(3)
		for i := 0; i < n; i++ {
			mb.Requests = append(mb.Requests, g.message(payloads))
		}
	}
	return mb
}

func (g *gen) chunk() pb.Chunk {
	defer g.pushBias()()
	c := pb.Chunk{
		ShardID:        g.u64(),
		ReplicaID:      g.u64(),
		From:           g.u64(),
		ChunkId:        g.u64(),
		ChunkSize:      g.u64(),
		ChunkCount:     g.u64(),
		Data:           g.bytes(),
		Index:          g.u64(),
		Term:           g.u64(),
		Membership:     g.membership(),
		Filepath:       g.str(),
		FileSize:       g.u64(),
		DeploymentId:   g.u64(),
		FileChunkId:    g.u64(),
		FileChunkCount: g.u64(),
		HasFileInfo:    g.bool(),
		BinVer:         g.u32(),
		OnDiskIndex:    g.u64(),
		Witness:        g.bool(),
	}
	if g.src.Chance(1, 3) {
		c.ChunkCount = []uint64{pb.LastChunkCount, pb.PoisonChunkCount}[g.src.Intn(2)]
	}
	if c.HasFileInfo || g.src.Chance(1, 4) {
		c.FileInfo = *g.snapshotFile()
	}
	return c
}

func (g *gen) state() pb.State {
	defer g.pushBias()()
	return pb.State{Term: g.u64(), Vote: g.u64(), Commit: g.u64()}
}

func (g *gen) bootstrap() pb.Bootstrap {
	return pb.Bootstrap{Addresses: g.strMap(), Join: g.bool(), Type: pb.StateMachineType(g.src.Intn(4))}
}

func (g *gen) dataStatus() pb.RaftDataStatus {
	defer g.pushBias()()
	return pb.RaftDataStatus{
		Address: g.str(), BinVer: g.u32(), HardHash: g.u64(), LogdbType: g.str(), Hostname: g.str(),
		DeploymentId: g.u64(), StepWorkerCount: g.u64(), LogdbShardCount: g.u64(), MaxSessionCount: g.u64(),
		EntryBatchSize: g.u64(), AddressByNodeHostId: g.bool(),
	}
}

func (g *gen) snapshotHeader() pb.SnapshotHeader {
	defer g.pushBias()()
	return pb.SnapshotHeader{
		SessionSize: g.u64(), DataStoreSize: g.u64(), UnreliableTime: g.u64(), GitVersion: g.str(),
		HeaderChecksum: g.bytes(), PayloadChecksum: g.bytes(), ChecksumType: pb.ChecksumType(g.src.Intn(2)),
		Version: g.u64(), CompressionType: pb.CompressionType(g.src.Intn(2)),
	}
}

func (g *gen) session() client.Session {
	defer g.pushBias()()
	return client.Session{ShardID: g.u64(), ClientID: g.u64(), SeriesID: g.u64(), RespondedTo: g.u64()}
}

// update builds the fields of pb.Update that are persisted (Tan record).
func (g *gen) update(payloads *[]payloadCase) pb.Update {
	defer g.pushBias()()
	u := pb.Update{ShardID: g.u64(), ReplicaID: g.u64()}
	if g.src.Chance(2, 3) {
		u.State = g.state()
	}
	u.EntriesToSave = g.entries(5, payloads)
	if g.src.Chance(1, 3) {
		u.Snapshot = g.snapshot()
		if u.Snapshot.Index == 0 {
			// index 0 means "no snapshot" (pb.IsEmptySnapshot): such a record is
			// documented as not persisted
			u.Snapshot.Index = 1
		}
	}
	return u
}

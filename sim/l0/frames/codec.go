package frames

import (
	"bytes"
	"fmt"
	"reflect"

	"github.com/lni/dragonboat/v4/internal/rsm"
	pb "github.com/lni/dragonboat/v4/raftpb"
)

// equal is value equality of decoded wire types: exported fields only (the
// ref counting fields of pb.Snapshot are documented as not marshaled), and a
// nil slice/map equals an empty one - the encodings have no way to tell them
// apart and nothing in the property asks for it.
func equal(a, b reflect.Value) bool {
	if a.Kind() != b.Kind() {
		return false
	}
	switch a.Kind() {
	case reflect.Slice:
		if a.Len() != b.Len() {
			return false
		}
		if a.Type().Elem().Kind() == reflect.Uint8 {
			return bytes.Equal(a.Bytes(), b.Bytes())
		}
		for i := 0; i < a.Len(); i++ {
			if !equal(a.Index(i), b.Index(i)) {
				return false
			}
		}
		return true
	case reflect.Map:
		if a.Len() != b.Len() {
			return false
		}
		it := a.MapRange()
		for it.Next() {
			bv := b.MapIndex(it.Key())
			if !bv.IsValid() || !equal(it.Value(), bv) {
				return false
			}
		}
		return true
	case reflect.Ptr:
		if a.IsNil() || b.IsNil() {
			return a.IsNil() == b.IsNil()
		}
		return equal(a.Elem(), b.Elem())
	case reflect.Struct:
		t := a.Type()
		for i := 0; i < a.NumField(); i++ {
			if t.Field(i).PkgPath != "" {
				continue
			}
			if !equal(a.Field(i), b.Field(i)) {
				return false
			}
		}
		return true
	case reflect.Bool:
		return a.Bool() == b.Bool()
	case reflect.Int, reflect.Int8, reflect.Int16, reflect.Int32, reflect.Int64:
		return a.Int() == b.Int()
	case reflect.Uint, reflect.Uint8, reflect.Uint16, reflect.Uint32, reflect.Uint64:
		return a.Uint() == b.Uint()
	case reflect.String:
		return a.String() == b.String()
	}
	panic("harness: equal: unsupported kind " + a.Kind().String())
}

func eq(a, b interface{}) bool {
	return equal(reflect.Indirect(reflect.ValueOf(a)), reflect.Indirect(reflect.ValueOf(b)))
}

func short(v interface{}) string {
	s := fmt.Sprintf("%+v", v)
	if len(s) > 420 {
		s = s[:420] + "..."
	}
	return s
}

type wire interface {
	Marshal() ([]byte, error)
	MarshalTo([]byte) (int, error)
	Unmarshal([]byte) error
	Size() int
}

type upperLimited interface {
	SizeUpperLimit() int
}

// guarded runs f and turns an index-out-of-range style panic of the code
// under test (a preallocated buffer overrun) into an error string.
func guarded(f func()) (p interface{}) {
	defer func() {
		if r := recover(); r != nil {
			p = r
		}
	}()
	f()
	return nil
}

// checkWire checks one value of a type with the usual four codec methods.
// fresh must return a new zero value of the same type.
func (s *sim) checkWire(name string, x wire, fresh func() wire) []byte {
	s.values++
	s.ctx.Count("ev.values-checked", 1)
	size := x.Size()
	var enc []byte
	var err error
	if p := guarded(func() { enc, err = x.Marshal() }); p != nil {
		s.vio("size-bound", "%s: Marshal panicked (%v) with Size()=%d: %s", name, p, size, short(x))
		return nil
	}
	if err != nil {
		s.vio("roundtrip", "%s: Marshal failed: %v: %s", name, err, short(x))
		return nil
	}
	if len(enc) > size {
		s.vio("size-bound", "%s: encoding has %d bytes, Size() said %d: %s", name, len(enc), size, short(x))
		return nil
	}
	if ul, ok := x.(upperLimited); ok {
		limit := ul.SizeUpperLimit()
		if size > limit {
			s.vio("size-bound", "%s: Size() %d > SizeUpperLimit() %d: %s", name, size, limit, short(x))
			return nil
		}
		// what the senders/writers do: a buffer of SizeUpperLimit bytes
		buf := make([]byte, limit)
		var n int
		if p := guarded(func() { n, err = x.MarshalTo(buf) }); p != nil {
			s.vio("size-bound", "%s: MarshalTo into a SizeUpperLimit() buffer of %d bytes panicked (%v): %s", name, limit, p, short(x))
			return nil
		}
		if err != nil || !bytes.Equal(buf[:n], enc) {
			if err != nil || n != len(enc) {
				s.vio("roundtrip", "%s: MarshalTo gave %d bytes, err %v; Marshal gave %d bytes", name, n, err, len(enc))
				return nil
			}
			// same length, different bytes: map iteration order; compare by decoding
			y := fresh()
			if e := y.Unmarshal(buf[:n]); e != nil || !eq(x, y) {
				s.vio("roundtrip", "%s: MarshalTo output does not decode to the value (err %v): %s", name, e, short(x))
				return nil
			}
		}
	}
	y := fresh()
	if p := guarded(func() { err = y.Unmarshal(enc) }); p != nil {
		s.vio("roundtrip", "%s: Unmarshal of its own encoding panicked (%v): %s", name, p, short(x))
		return nil
	}
	if err != nil {
		s.vio("roundtrip", "%s: Unmarshal of its own encoding failed: %v: %s", name, err, short(x))
		return nil
	}
	if !eq(x, y) {
		s.vio("roundtrip", "%s: decode(encode(x)) != x: x=%s decoded=%s", name, short(x), short(y))
		return nil
	}
	return enc
}

// checkUpdate: the Tan record form of pb.Update (MarshalTo into a
// SizeUpperLimit buffer, Unmarshal); only the persisted fields take part.
func (s *sim) checkUpdate(u pb.Update) {
	s.values++
	s.ctx.Count("ev.values-checked", 1)
	limit := u.SizeUpperLimit()
	buf := make([]byte, limit)
	var n int
	var err error
	if p := guarded(func() { n, err = u.MarshalTo(buf) }); p != nil {
		s.vio("size-bound", "Update: MarshalTo into a SizeUpperLimit() buffer of %d bytes panicked (%v): %s", limit, p, short(u))
		return
	}
	if err != nil {
		s.vio("roundtrip", "Update: MarshalTo failed: %v", err)
		return
	}
	if n > limit {
		s.vio("size-bound", "Update: %d bytes written, SizeUpperLimit() %d", n, limit)
		return
	}
	var d pb.Update
	if p := guarded(func() { err = d.Unmarshal(buf[:n]) }); p != nil {
		s.vio("roundtrip", "Update: Unmarshal of its own encoding panicked (%v): %s", p, short(u))
		return
	}
	if err != nil {
		s.vio("roundtrip", "Update: Unmarshal failed: %v: %s", err, short(u))
		return
	}
	if d.ShardID != u.ShardID || d.ReplicaID != u.ReplicaID || !eq(&d.State, &u.State) ||
		!eq(d.EntriesToSave, u.EntriesToSave) || !eq(&d.Snapshot, &u.Snapshot) {
		s.vio("roundtrip", "Update: decode(encode(x)) != x: x=%s decoded=%s", short(u), short(d))
	}
}

func (s *sim) checkPayload(pc payloadCase) {
	s.values++
	s.ctx.Count("ev.payloads-checked", 1)
	e := pb.Entry{Type: pb.EncodedEntry, Cmd: pc.encoded}
	var got []byte
	var err error
	if p := guarded(func() { got, err = rsm.GetPayload(e) }); p != nil {
		s.vio("payload-roundtrip", "GetPayload(GetEncoded(%v, %d bytes)) panicked: %v", pc.ct, len(pc.payload), p)
		return
	}
	if err != nil || !bytes.Equal(got, pc.payload) {
		s.vio("payload-roundtrip", "GetPayload(GetEncoded(%v, %d bytes)) = %d bytes, err %v", pc.ct, len(pc.payload), len(got), err)
	}
	// the same through the entry codec
	var d pb.Entry
	enc, _ := e.Marshal()
	if err := d.Unmarshal(enc); err != nil {
		s.vio("payload-roundtrip", "encoded entry does not decode: %v", err)
		return
	}
	got, err = rsm.GetPayload(d)
	if err != nil || !bytes.Equal(got, pc.payload) {
		s.vio("payload-roundtrip", "payload after entry round trip: %d bytes, err %v, want %d bytes", len(got), err, len(pc.payload))
	}
}

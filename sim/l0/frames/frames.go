package frames

import (
	"fmt"
	"io"
	"net"
	"strconv"
	"time"

	"github.com/lni/dragonboat/v4/client"
	"github.com/lni/dragonboat/v4/internal/transport"
	pb "github.com/lni/dragonboat/v4/raftpb"
	"github.com/lni/dragonboat/v4/verifsim/choice"
	"github.com/lni/dragonboat/v4/verifsim/runner"
)

// Prop is the property all oracles of this package belong to.
const Prop = "C13"

// memConn is a one-goroutine net.Conn: reads consume r, writes append to w.
type memConn struct {
	r   []byte
	pos int
	w   []byte
}

type memAddr struct{}

func (memAddr) Network() string { return "mem" }
func (memAddr) String() string  { return "mem" }

func (c *memConn) Read(b []byte) (int, error) {
	if c.pos >= len(c.r) {
		return 0, io.EOF
	}
	n := copy(b, c.r[c.pos:])
	c.pos += n
	return n, nil
}
func (c *memConn) Write(b []byte) (int, error)      { c.w = append(c.w, b...); return len(b), nil }
func (c *memConn) Close() error                     { return nil }
func (c *memConn) LocalAddr() net.Addr              { return memAddr{} }
func (c *memConn) RemoteAddr() net.Addr             { return memAddr{} }
func (c *memConn) SetDeadline(time.Time) error      { return nil }
func (c *memConn) SetReadDeadline(time.Time) error  { return nil }
func (c *memConn) SetWriteDeadline(time.Time) error { return nil }

// the real senders hold a 2 MByte buffer each: one set per process
type senders struct {
	conn  [2]*memConn
	batch [2]*transport.TCPConnection
	snap  [2]*transport.TCPSnapshotConnection
	rbuf  []byte
	hdr   []byte
	magic []byte
}

var snd *senders

func getSenders() *senders {
	if snd == nil {
		s := &senders{rbuf: make([]byte, 256*1024), hdr: make([]byte, transport.VerifRequestHeaderSize),
			magic: make([]byte, transport.VerifMagicNumberSize)}
		for i := 0; i < 2; i++ {
			s.conn[i] = &memConn{}
			s.batch[i] = transport.NewTCPConnection(s.conn[i], i == 1)
			s.snap[i] = transport.NewTCPSnapshotConnection(s.conn[i], i == 1)
		}
		snd = s
	}
	return snd
}

// item is one thing sent: a message batch or a snapshot chunk.
type item struct {
	isChunk bool
	batch   pb.MessageBatch
	chunk   pb.Chunk
}

func (it *item) value() interface{} {
	if it.isChunk {
		return &it.chunk
	}
	return &it.batch
}

func sameItem(a, b *item) bool {
	if a.isChunk != b.isChunk {
		return false
	}
	return eq(a.value(), b.value())
}

// stream is what the senders wrote for a list of items.
type stream struct {
	data      []byte
	start     []int // start[j] = offset of frame j (its magic number), start[len] = len(data)
	items     []item
	encrypted bool
}

func buildStream(items []item, encrypted bool) (*stream, error) {
	sd := getSenders()
	k := 0
	if encrypted {
		k = 1
	}
	c := sd.conn[k]
	c.w = c.w[:0]
	st := &stream{items: items, encrypted: encrypted}
	for i := range items {
		st.start = append(st.start, len(c.w))
		var err error
		if items[i].isChunk {
			err = sd.snap[k].SendChunk(items[i].chunk)
		} else {
			err = sd.batch[k].SendMessageBatch(items[i].batch)
		}
		if err != nil {
			return nil, err
		}
	}
	st.start = append(st.start, len(c.w))
	st.data = append([]byte(nil), c.w...)
	c.w = c.w[:0]
	return st, nil
}

// receive is the receive loop of the transport (serveConn) written out with
// the exported pieces: magic number, readMessage, Unmarshal by method. It
// stops at the first error like serveConn does.
func receive(data []byte, encrypted bool) (out []item, stop string) {
	sd := getSenders()
	conn := &memConn{r: data}
	for {
		poison, err := transport.VerifReadMagicNumber(conn, sd.magic)
		if err != nil {
			if poison {
				return out, "poison"
			}
			if err == io.EOF && conn.pos >= len(data) {
				return out, "eof"
			}
			return out, "magic: " + err.Error()
		}
		h, buf, err := transport.VerifReadMessage(conn, sd.hdr, sd.rbuf, encrypted)
		if err != nil {
			return out, "frame: " + err.Error()
		}
		if h.Method == transport.VerifRaftType {
			var it item
			if err := it.batch.Unmarshal(buf); err != nil {
				return out, "unmarshal: " + err.Error()
			}
			out = append(out, it)
		} else {
			it := item{isChunk: true}
			if err := it.chunk.Unmarshal(buf); err != nil {
				return out, "unmarshal: " + err.Error()
			}
			out = append(out, it)
		}
	}
}

// serve runs the complete shipped receive loop.
func serve(data []byte, encrypted bool) (out []item) {
	conn := &memConn{r: data}
	transport.VerifServeConn(conn, func(b pb.MessageBatch) {
		out = append(out, item{batch: b})
	}, func(c pb.Chunk) bool {
		out = append(out, item{isChunk: true, chunk: c})
		return true
	}, encrypted)
	return out
}

type sim struct {
	ctx    *runner.Ctx
	src    *choice.Source
	values int
	faults int
	sig    uint64
}

func (s *sim) vio(oracle, format string, args ...interface{}) {
	s.ctx.Violate(Prop, oracle, format, args...)
}

func (s *sim) mix(vals ...uint64) {
	h := s.sig
	for _, v := range vals {
		h = (h ^ v) * 1099511628211
		h ^= h >> 31
	}
	s.sig = h
}

// offset classes of a frame
const (
	clsMagic = iota
	clsMethod
	clsSize
	clsHeaderCRC
	clsPayloadCRC
	clsPayloadHead
	clsPayloadTail
	clsPayload
	clsCount
)

var clsName = []string{"magic", "method", "size", "header-crc", "payload-crc", "payload-head", "payload-tail", "payload"}

// classRange returns the byte range [lo, hi) of a class inside a frame of n bytes.
func classRange(cls int, n int) (int, int) {
	const m = transport.VerifMagicNumberSize
	pl := m + transport.VerifRequestHeaderSize
	switch cls {
	case clsMagic:
		return 0, m
	case clsMethod:
		return m, m + 2
	case clsSize:
		return m + 2, m + 10
	case clsHeaderCRC:
		return m + 10, m + 14
	case clsPayloadCRC:
		return m + 14, m + 18
	case clsPayloadHead:
		hi := pl + 4
		if hi > n {
			hi = n
		}
		return pl, hi
	case clsPayloadTail:
		lo := n - 4
		if lo < pl {
			lo = pl
		}
		return lo, n
	}
	return pl, n
}

func classOf(off int, n int) int {
	for c := clsMagic; c <= clsPayloadCRC; c++ {
		if lo, hi := classRange(c, n); off >= lo && off < hi {
			return c
		}
	}
	return clsPayload
}

// judge applies the frame oracle to what a receiver delivered for a stream
// whose frame j was damaged (kind "flip"/"burst"/"multi") or cut (kind
// "trunc") - a damaged frame may only ever be delivered as exactly what was
// sent, a cut frame never, intact frames before it always.
func (s *sim) judge(st *stream, j int, kind string, desc string, got []item, stop string, who string) {
	for k := range got {
		if k >= len(st.items) {
			s.vio("corrupt-frame-accepted", "%s delivered %d items for a stream of %d (%s)", who, len(got), len(st.items), desc)
			return
		}
		if !sameItem(&got[k], &st.items[k]) {
			oracle := "corrupt-frame-accepted"
			if kind == "trunc" {
				oracle = "truncated-frame-accepted"
			}
			if k < j || kind == "none" {
				oracle = "roundtrip"
			}
			s.vio(oracle, "%s: item %d delivered differs from what was sent (%s; damaged frame %d): sent %s got %s",
				who, k, desc, j, short(st.items[k].value()), short(got[k].value()))
			return
		}
	}
	if kind == "none" {
		if len(got) != len(st.items) {
			s.vio("roundtrip", "%s delivered %d of %d intact frames (stopped with %q)", who, len(got), len(st.items), stop)
		}
		return
	}
	if len(got) < j {
		s.vio("roundtrip", "%s delivered only %d items although frames 0..%d were intact (%s, stopped with %q)", who, len(got), j-1, desc, stop)
		return
	}
	if len(got) > j {
		if kind == "trunc" {
			s.vio("truncated-frame-accepted", "%s delivered frame %d although the stream was cut inside it (%s)", who, j, desc)
			return
		}
		// identical content delivered: the damage was outside what the checks cover
		s.ctx.Count("probe.damaged-frame-delivered-identical", 1)
		return
	}
	s.ctx.Count("probe.rejected."+kind, 1)
	if stop == "poison" {
		s.ctx.Count("probe.rejected-as-poison", 1)
	}
}

// damage flips the given bits (absolute bit offsets) of the stream in place;
// calling it again with the same bits repairs the stream.
func damage(data []byte, bits []int) []byte {
	for _, b := range bits {
		data[b/8] ^= 1 << uint(b%8)
	}
	return data
}

// enumerate flips every single bit of frame j and cuts the stream at every
// byte of it.
func (s *sim) enumerate(st *stream, j int) {
	lo, hi := st.start[j], st.start[j+1]
	n := hi - lo
	d := append([]byte(nil), st.data...)
	for bit := lo * 8; bit < hi*8; bit++ {
		if st.encrypted && bit/8-lo >= transport.VerifMagicNumberSize+transport.VerifRequestHeaderSize {
			break // payload integrity is TLS' job on encrypted connections
		}
		d[bit/8] ^= 1 << uint(bit%8)
		got, stop := receive(d, st.encrypted)
		d[bit/8] ^= 1 << uint(bit%8)
		s.faults++
		s.ctx.Count("fault.bitflip."+clsName[classOf(bit/8-lo, n)], 1)
		s.judge(st, j, "flip", fmt.Sprintf("bit %d of byte %d of the frame flipped", bit%8, bit/8-lo), got, stop, "receiver")
		if s.ctx.Violated() {
			return
		}
	}
	for cut := lo; cut < hi; cut++ {
		got, stop := receive(st.data[:cut], st.encrypted)
		s.faults++
		s.ctx.Count("fault.truncation", 1)
		if cut == lo {
			// a stream that ends at a frame boundary is a closed connection
			if len(got) != j {
				s.vio("roundtrip", "receiver delivered %d items for %d intact frames (stopped with %q)", len(got), j, stop)
				return
			}
			continue
		}
		s.judge(st, j, "trunc", fmt.Sprintf("stream cut after %d of %d bytes of the frame", cut-lo, n), got, stop, "receiver")
		if s.ctx.Violated() {
			return
		}
	}
}

// Run executes one tape (params: enum=1 -> exhaustive single-bit/truncation
// enumeration of catalogue frame _i).
func Run(ctx *runner.Ctx) *runner.Result {
	s := &sim{ctx: ctx, src: ctx.Src, sig: 1469598103934665603}
	if ctx.Param("enum", "0") == "1" {
		return s.runEnum()
	}
	return s.runExplore()
}

// CatalogueSize is the number of small frames whose damage space is
// enumerated exhaustively (enum=1, one frame per run index).
const CatalogueSize = 96

func (s *sim) runEnum() *runner.Result {
	ctx := s.ctx
	idx, _ := strconv.ParseUint(ctx.Param("_i", "0"), 10, 64)
	k := idx % CatalogueSize
	// the frame depends on the index only, not on the tape
	g := &gen{src: choice.FromSeed(choice.Mix(0xC13F7A3E, k)), small: true}
	var it item
	if k%3 == 2 {
		it = item{isChunk: true, chunk: g.chunk()}
	} else {
		it = item{batch: g.batch(nil)}
	}
	tail := item{batch: pb.MessageBatch{DeploymentId: 1, Requests: []pb.Message{{Type: pb.Heartbeat, To: 2, From: 1, ShardID: 1}}}}
	encrypted := k%8 == 7
	st, err := buildStream([]item{it, tail}, encrypted)
	if err != nil {
		panic(fmt.Sprintf("harness: buildStream: %v", err))
	}
	n := st.start[1] - st.start[0]
	ctx.Ev("enum-frame", k, uint64(n))
	got, stop := receive(st.data, encrypted)
	s.judge(st, -1, "none", "intact stream", got, stop, "receiver")
	if !ctx.Violated() {
		s.enumerate(st, 0)
	}
	ctx.Count("ev.frames-enumerated", 1)
	ctx.Count("ev.frame-bytes-enumerated", int64(n))
	s.mix(k, uint64(n))
	return ctx.Finish(true, s.sig, int64(s.faults), fmt.Sprintf("catalogue frame %d (%d bytes, chunk=%t, encrypted=%t): %d damaged streams judged", k, n, it.isChunk, encrypted, s.faults))
}

func (s *sim) runExplore() *runner.Result {
	ctx := s.ctx
	src := s.src
	g := &gen{src: src}
	var payloads []payloadCase

	// 1. values of the other wire/disk types
	nOther := 2 + src.Intn(6)
	for i := 0; i < nOther && !ctx.Violated(); i++ {
		kind := src.Intn(12)
		ctx.Ev("value", uint64(kind))
		s.mix(100 + uint64(kind))
		switch kind {
		case 0:
			v := g.entry(&payloads)
			s.checkWire("Entry", &v, func() wire { return &pb.Entry{} })
		case 1:
			v := pb.EntryBatch{Entries: g.entries(5, &payloads)}
			s.checkWire("EntryBatch", &v, func() wire { return &pb.EntryBatch{} })
		case 2:
			s.checkUpdate(g.update(&payloads))
		case 3:
			v := g.snapshot()
			s.checkWire("Snapshot", &v, func() wire { return &pb.Snapshot{} })
		case 4:
			v := g.state()
			s.checkWire("State", &v, func() wire { return &pb.State{} })
		case 5:
			v := g.membership()
			s.checkWire("Membership", &v, func() wire { return &pb.Membership{} })
		case 6:
			v := g.configChange()
			s.checkWire("ConfigChange", &v, func() wire { return &pb.ConfigChange{} })
		case 7:
			v := g.bootstrap()
			s.checkWire("Bootstrap", &v, func() wire { return &pb.Bootstrap{} })
		case 8:
			v := g.dataStatus()
			s.checkWire("RaftDataStatus", &v, func() wire { return &pb.RaftDataStatus{} })
		case 9:
			v := g.snapshotHeader()
			s.checkWire("SnapshotHeader", &v, func() wire { return &pb.SnapshotHeader{} })
		case 10:
			v := g.session()
			s.checkWire("Session", &v, func() wire { return &client.Session{} })
		case 11:
			v := g.message(&payloads)
			s.checkWire("Message", &v, func() wire { return &pb.Message{} })
		}
	}
	// 2. the traffic: 1..4 batches/chunks
	nItems := 1 + src.Intn(4)
	items := make([]item, nItems)
	for i := range items {
		if src.Chance(1, 3) {
			items[i] = item{isChunk: true, chunk: g.chunk()}
			ctx.Ev("item-chunk", uint64(i))
			s.checkWire("Chunk", &items[i].chunk, func() wire { return &pb.Chunk{} })
		} else {
			items[i] = item{batch: g.batch(&payloads)}
			ctx.Ev("item-batch", uint64(i), uint64(len(items[i].batch.Requests)))
			s.checkWire("MessageBatch", &items[i].batch, func() wire { return &pb.MessageBatch{} })
		}
		if ctx.Violated() {
			break
		}
	}
	for _, pc := range payloads {
		if ctx.Violated() {
			break
		}
		s.checkPayload(pc)
	}
	if ctx.Violated() {
		return ctx.Finish(true, s.sig, 0, "codec violation")
	}
	encrypted := src.Chance(1, 5)
	st, err := buildStream(items, encrypted)
	if err != nil {
		s.vio("roundtrip", "sender failed: %v", err)
		return ctx.Finish(true, s.sig, 0, "sender failed")
	}
	var encFlag uint64
	if encrypted {
		encFlag = 1
	}
	ctx.Ev("stream", uint64(nItems), uint64(len(st.data)), encFlag)
	s.mix(uint64(nItems), uint64(len(st.data)), encFlag)
	ctx.Count("ev.frames-sent", int64(nItems))
	ctx.Count("ev.frame-bytes-sent", int64(len(st.data)))
	// 3. intact delivery through both receivers
	got, stop := receive(st.data, encrypted)
	s.judge(st, -1, "none", "intact stream", got, stop, "receiver")
	if !ctx.Violated() && len(st.data) < 1<<20 {
		s.judge(st, -1, "none", "intact stream", serve(st.data, encrypted), "", "serveConn")
		ctx.Count("ev.serveconn-runs", 1)
	}
	// 4. damage
	nFaults := 12 + src.Intn(40)
	for f := 0; f < nFaults && !ctx.Violated(); f++ {
		j := src.Intn(nItems)
		lo, hi := st.start[j], st.start[j+1]
		n := hi - lo
		kindSel := src.Weighted([]int{4, 2, 2, 3})
		cls := src.Intn(clsCount)
		if encrypted && cls >= clsPayloadHead {
			cls = src.Intn(clsPayloadHead)
		}
		clo, chi := classRange(cls, n)
		if chi <= clo {
			continue
		}
		var d []byte
		var flipped []int
		var kind, desc string
		switch kindSel {
		case 0: // one bit
			bit := (lo+clo)*8 + src.Intn((chi-clo)*8)
			flipped = []int{bit}
			d = damage(st.data, flipped)
			kind, desc = "flip", fmt.Sprintf("bit %d of byte %d (%s) of frame %d flipped", bit%8, bit/8-lo, clsName[cls], j)
			ctx.Count("fault.bitflip."+clsName[cls], 1)
			ctx.Ev("fault-flip", uint64(j), uint64(cls), uint64(bit-lo*8))
		case 1: // two or three bits of the covered part of the frame
			// CRC-32 detects every error of up to 3 bits as long as the bits lie
			// within 91607 bits of each other: keep them within 80000
			covered := hi
			if encrypted {
				covered = lo + transport.VerifMagicNumberSize + transport.VerifRequestHeaderSize
			}
			base := (lo+clo)*8 + src.Intn((chi-clo)*8)
			bits := []int{base}
			for k := 1 + src.Intn(2); k > 0; k-- {
				b := base - 40000 + src.Intn(80000)
				if src.Chance(1, 2) {
					b = base - 40 + src.Intn(80)
				}
				if b < lo*8 || b >= covered*8 {
					continue
				}
				dup := false
				for _, x := range bits {
					if x == b {
						dup = true
					}
				}
				if !dup {
					bits = append(bits, b)
				}
			}
			flipped = bits
			d = damage(st.data, flipped)
			kind, desc = "multi", fmt.Sprintf("bits %v (stream offsets) of frame %d flipped", bits, j)
			ctx.Count("fault.multiflip", 1)
			ctx.Ev("fault-multi", uint64(j), uint64(cls), uint64(len(bits)))
		case 2: // burst of up to 32 bits: first and last flipped, tape-chosen in between
			length := 2 + src.Intn(31)
			startBit := (lo+clo)*8 + src.Intn((chi-clo)*8)
			if startBit+length > hi*8 {
				startBit = hi*8 - length
			}
			if encrypted && startBit+length > (lo+transport.VerifMagicNumberSize+transport.VerifRequestHeaderSize)*8 {
				startBit = (lo+transport.VerifMagicNumberSize+transport.VerifRequestHeaderSize)*8 - length
			}
			if startBit < lo*8 {
				continue
			}
			pat := src.Uint64()
			bits := []int{startBit, startBit + length - 1}
			for k := 1; k < length-1; k++ {
				if pat>>uint(k)&1 == 1 {
					bits = append(bits, startBit+k)
				}
			}
			flipped = bits
			d = damage(st.data, flipped)
			kind, desc = "burst", fmt.Sprintf("burst of %d bits (%d flipped) starting at bit %d of frame %d (%s)", length, len(bits), startBit-lo*8, j, clsName[classOf(startBit/8-lo, n)])
			ctx.Count("fault.burst", 1)
			ctx.Ev("fault-burst", uint64(j), uint64(length), uint64(startBit-lo*8))
		case 3: // truncation inside the frame, at a class boundary or anywhere
			cut := lo + 1 + src.Intn(n-1)
			if src.Chance(1, 2) {
				cut = lo + clo + src.Intn(chi-clo)
				if cut == lo {
					cut++
				}
			}
			d = st.data[:cut]
			kind, desc = "trunc", fmt.Sprintf("stream cut after %d of %d bytes of frame %d", cut-lo, n, j)
			ctx.Count("fault.truncation", 1)
			ctx.Ev("fault-trunc", uint64(j), uint64(cut-lo))
		}
		s.faults++
		got, stop := receive(d, encrypted)
		s.judge(st, j, kind, desc, got, stop, "receiver")
		if !ctx.Violated() && f < 1 && len(d) < 1<<20 {
			// the same damage through the complete shipped loop
			s.judge(st, j, kind, desc, serve(d, encrypted), "", "serveConn")
			ctx.Count("ev.serveconn-runs", 1)
		}
		damage(st.data, flipped) // repair
	}
	// small frames: all cuts and all single-bit flips of one frame
	if !ctx.Violated() {
		j := src.Intn(nItems)
		if n := st.start[j+1] - st.start[j]; n <= 160 {
			ctx.Ev("enumerate-small", uint64(j), uint64(n))
			s.enumerate(st, j)
			ctx.Count("ev.frames-enumerated", 1)
		}
	}
	s.mix(uint64(s.values), uint64(s.faults))
	return ctx.Finish(s.values >= 3 && s.faults >= 10, s.sig, int64(s.faults),
		fmt.Sprintf("values=%d items=%d stream=%dB encrypted=%t faults=%d", s.values, nItems, len(st.data), encrypted, s.faults))
}

package snapio

import (
	"bytes"
	"fmt"
	"hash/crc32"
	"io"
	"strconv"

	"github.com/lni/dragonboat/v4/internal/rsm"
	"github.com/lni/dragonboat/v4/internal/vfs"
	pb "github.com/lni/dragonboat/v4/raftpb"
	"github.com/lni/dragonboat/v4/verifsim/choice"
	"github.com/lni/dragonboat/v4/verifsim/runner"
	"github.com/lni/dragonboat/v4/verifsim/simfs"
)

// Prop is the property decided by this simulator.
const Prop = "C14"

// Rule describes how cases are generated (for the evidence file).
const Rule = "one run = one snapshot configuration (format version V1/V2, compression, payload length drawn around 0, 1, " +
	"the block size and its multiples, content kind) written by the real writer stack in a tape chosen segmentation and " +
	"read back by the real reader stack with tape chosen buffer sizes, plus at most one fault (one flipped bit or one cut " +
	"of the file at rest or of the chunk stream, one injected I/O error); enumerating parts walk every bit / cut position of " +
	"small files and streams by run index; non-trivial = an artefact was produced and judged; distinct = distinct " +
	"(mode, version, compression, length, segmentation, fault position, outcome) signature"

const (
	dir      = "/ss/snapshot-0000000000000064"
	filePath = dir + "/snapshot-0000000000000064.gbsnap"
	shrunkFP = dir + "/snapshot-0000000000000064.shrunk"
	recvPath = dir + "/received.gbsnap"
)

var modeNames = []string{"rt", "flip", "stream", "fstream", "trunc", "iofault"}

// enumeration configurations (small artefacts so that every bit is visited)
type enumCfg struct {
	v  rsm.SSVersion
	ct pb.CompressionType
	n  int
}

func enumFileCfgs(lens []int) []enumCfg {
	var out []enumCfg
	for _, n := range lens {
		for _, v := range []rsm.SSVersion{rsm.V2, rsm.V1} {
			for _, ct := range []pb.CompressionType{pb.NoCompression, pb.Snappy} {
				out = append(out, enumCfg{v, ct, n})
			}
		}
	}
	return out
}

func enumStreamCfgs(lens []int) []enumCfg {
	var out []enumCfg
	for _, n := range lens {
		for _, ct := range []pb.CompressionType{pb.NoCompression, pb.Snappy} {
			out = append(out, enumCfg{rsm.V2, ct, n})
		}
	}
	return out
}

// enumLensOf: the LAST length is the one whose artefacts are walked
// completely (every byte); for the others the header padding, which no
// length can influence, is skipped (bytes padSkipFrom..headerSize).
func enumLensOf(lens string) []int {
	if lens == "medium" {
		return []int{16, 300}
	}
	return []int{0, 1, 37}
}

const padSkipFrom = 96

// slack for what surrounds the payload (compression framing, block checksum, tail)
const enumSlack = 64

func enumUnits(mode string, bytes int) int {
	switch mode {
	case "flip":
		return bytes * 8
	case "trunc":
		return bytes
	}
	return bytes * 9 // every bit, then every cut
}

// enumLayout: first the fully walked configurations (interleaved), then the
// others (interleaved). Returns the sizes of the two blocks.
func enumLayout(mode string, lens []int) (nFull, unitsFull, nPart, unitsPart int) {
	per := 4
	if mode == "stream" {
		per = 2
	}
	maxLen := lens[len(lens)-1]
	nFull = per
	nPart = per * (len(lens) - 1)
	unitsFull = enumUnits(mode, headerSize+maxLen+enumSlack)
	unitsPart = enumUnits(mode, padSkipFrom+maxLen+enumSlack)
	return
}

// EnumRuns returns an upper bound of the run indexes an enumerating part
// needs (used for MaxRuns in the registration).
func EnumRuns(mode string, lens string) int {
	nf, uf, np, up := enumLayout(mode, enumLensOf(lens))
	return nf*uf + np*up
}

type sim struct {
	ctx   *runner.Ctx
	src   *choice.Source
	disk  *simfs.Disk
	fs    vfs.IFS
	env   *ioEnv
	mode  string
	enum  bool
	idx   uint64
	cfg   Config
	class int
	sig   []uint64
	non   bool
	note  string
}

// ioEnv injects at most one I/O error.
type ioEnv struct {
	armed   bool
	at      int64 // fire at the at-th matching op (1 based)
	seen    int64
	kind    int // 0 error on mutating op, 1 short write, 2 error on read
	fired   bool
	firedOp simfs.Op
}

func (e *ioEnv) FSOp(d *simfs.Disk, op simfs.Op, path string, size int, index int64) (error, int) {
	if !e.armed || e.fired {
		return nil, 0
	}
	switch e.kind {
	case 0:
		if op != simfs.OpWrite && op != simfs.OpSync && op != simfs.OpSyncDir && op != simfs.OpCreate {
			return nil, 0
		}
	case 1:
		if op != simfs.OpWrite || size < 2 {
			return nil, 0
		}
	case 2:
		if op != simfs.OpRead {
			return nil, 0
		}
	}
	e.seen++
	if e.seen != e.at {
		return nil, 0
	}
	e.fired, e.firedOp = true, op
	if e.kind == 1 {
		return simfs.ErrInjected, size / 2
	}
	return simfs.ErrInjected, 0
}

// Run is the scenario entry point.
func Run(ctx *runner.Ctx) *runner.Result {
	s := &sim{ctx: ctx, src: ctx.Src, env: &ioEnv{}}
	s.disk = simfs.NewDisk("snap", s.env)
	v := s.disk.View()
	s.fs = v
	if err := v.MkdirAll(dir, 0o755); err != nil {
		panic(err)
	}
	s.enum = ctx.Param("enum", "0") == "1"
	s.idx, _ = strconv.ParseUint(ctx.Param("_i", "0"), 10, 64)
	s.mode = ctx.Param("mode", "")
	if s.mode == "" {
		s.mode = modeNames[s.src.Weighted([]int{30, 25, 15, 10, 10, 10})]
	}
	mi := 0
	for i, m := range modeNames {
		if m == s.mode {
			mi = i
		}
	}
	ctx.Ev("mode", uint64(mi), b2u(s.enum))
	switch s.mode {
	case "rt":
		s.runRoundtrip()
	case "flip":
		s.runFileFault(false)
	case "trunc":
		s.runFileFault(true)
	case "stream":
		s.runStream(false)
	case "fstream":
		s.runStream(true)
	case "iofault":
		s.runIOFault()
	default:
		panic("snapio: unknown mode " + s.mode)
	}
	sig := fnv(append([]uint64{uint64(mi), uint64(s.cfg.Version), uint64(s.cfg.CT), uint64(s.cfg.N), uint64(s.cfg.Kind)}, s.sig...)...)
	ctx.State(fnv(uint64(mi), uint64(s.cfg.Version), uint64(s.cfg.CT), uint64(s.class), fnv(s.sig...)&0xff))
	return ctx.Finish(s.non, sig, 0, fmt.Sprintf("mode=%s %s %s", s.mode, s.cfg, s.note))
}

func b2u(b bool) uint64 {
	if b {
		return 1
	}
	return 0
}

func (s *sim) evCfg() {
	s.ctx.Ev("cfg", uint64(s.cfg.Version), uint64(s.cfg.CT), uint64(s.cfg.N), uint64(s.cfg.Kind), s.cfg.Seed)
}

// writeFn returns the "state machine" writing payload in segments drawn from
// seg; it verifies the io.Writer contract of every call.
func (s *sim) writeFn(payload []byte, seg *sizer, calls *int) func(w io.Writer) error {
	return func(w io.Writer) error {
		// the state machine writes from a buffer of its own (slices of it have
		// spare capacity behind them, as the pieces of any large buffer have);
		// payload stays the pristine reference: io.Writer must not modify the
		// slice it is given, even temporarily (C14: what is written is read back)
		work := append([]byte(nil), payload...)
		off := 0
		for off < len(work) {
			k := seg.next()
			if k > len(work)-off {
				k = len(work) - off
			}
			n, err := w.Write(work[off : off+k])
			*calls++
			if err != nil {
				return err
			}
			if n != k {
				return fmt.Errorf("short write without error: %d of %d", n, k)
			}
			off += k
			hi := off + 64
			if hi > len(work) {
				hi = len(work)
			}
			if d := firstDiff(work[off-k:hi], payload[off-k:hi]); d >= 0 {
				s.ctx.Violate(Prop, "write-modified-input", "%s: Write of %d bytes at offset %d modified the caller's buffer at offset %d", s.cfg, k, off-k, off-k+d)
				return fmt.Errorf("writer modified its input")
			}
		}
		return nil
	}
}

// produce writes the configured snapshot file fault free and checks what the
// save path recorded about it. It returns the payload and the file image.
func (s *sim) produce(fp string) (payload []byte, file []byte, saved Saved, ok bool) {
	payload = Payload(s.cfg.Seed, s.cfg.N, s.cfg.Kind)
	seg := drawSizer(s.src, len(payload))
	calls := 0
	saved, err := s.save(fp, payload, seg, &calls)
	s.ctx.Ev("saved", uint64(calls), seg.hash(), saved.FileSize, saved.Total, b2u(err == nil))
	s.ctx.Count("ev.write_calls", int64(calls))
	s.sig = append(s.sig, seg.hash())
	if err != nil {
		s.ctx.Violate(Prop, "roundtrip", "%s: fault free save failed: %v", s.cfg, err)
		return nil, nil, saved, false
	}
	file = s.readRaw(fp)
	return payload, file, saved, true
}

func (s *sim) save(fp string, payload []byte, seg *sizer, calls *int) (saved Saved, err error) {
	defer func() {
		if r := recover(); r != nil {
			err = fmt.Errorf("panic: %v", r)
		}
	}()
	return Save(s.fs, fp, s.cfg.Version, s.cfg.CT, s.writeFn(payload, seg, calls))
}

// readRaw returns the bytes of a file bypassing the simulated disk's
// operation log (harness access, not an operation of the code under test).
func (s *sim) readRaw(fp string) []byte {
	f, err := s.disk.Mem().Open(fp)
	if err != nil {
		panic(err)
	}
	defer f.Close()
	st, _ := f.Stat()
	buf := make([]byte, st.Size())
	if len(buf) > 0 {
		if _, err := f.ReadAt(buf, 0); err != nil {
			panic(err)
		}
	}
	return buf
}

// writeRaw replaces the content of a file at rest.
func (s *sim) writeRaw(fp string, data []byte) {
	f, err := s.disk.Mem().Create(fp)
	if err != nil {
		panic(err)
	}
	if _, err := f.Write(data); err != nil {
		panic(err)
	}
	_ = f.Sync()
	_ = f.Close()
}

func (s *sim) flipRaw(fp string, bit int64) {
	f, err := s.disk.Mem().OpenForAppend(fp)
	if err != nil {
		panic(err)
	}
	defer f.Close()
	r, err := s.disk.Mem().Open(fp)
	if err != nil {
		panic(err)
	}
	defer r.Close()
	b := make([]byte, 1)
	if _, err := r.ReadAt(b, bit/8); err != nil {
		panic(err)
	}
	b[0] ^= 1 << uint(bit%8)
	if _, err := f.WriteAt(b, bit/8); err != nil {
		panic(err)
	}
}

func (s *sim) load(fp string, want int) Loaded {
	rs := drawSizer(s.src, want)
	res := Load(s.fs, fp, rs.next, want+(64<<20))
	s.sig = append(s.sig, rs.hash())
	s.ctx.Count("ev.read_calls", int64(res.Reads))
	return res
}

// checkRecorded compares what the save path recorded with the file.
func (s *sim) checkRecorded(fp string, file []byte, saved Saved) {
	if uint64(len(file)) != saved.FileSize {
		s.ctx.Violate(Prop, "size-mismatch", "%s: recorded file size %d, file has %d bytes", s.cfg, saved.FileSize, len(file))
	}
	// the check node.go applies to a freshly saved snapshot
	func() {
		defer func() {
			if r := recover(); r != nil {
				s.ctx.Violate(Prop, "size-mismatch", "%s: pb.Snapshot.Validate panicked: %v", s.cfg, r)
			}
		}()
		ss := pb.Snapshot{Filepath: fp, FileSize: saved.FileSize, Index: 100, Term: 5}
		if !ss.Validate(s.fs) {
			s.ctx.Violate(Prop, "size-mismatch", "%s: pb.Snapshot.Validate returned false for the freshly saved file", s.cfg)
		}
	}()
	if s.cfg.Version == rsm.V2 {
		if saved.Total == 0 {
			// GetV2PayloadChecksum refuses files without any block; nothing to compare
			s.ctx.Count("probe.v2_empty_payload_file", 1)
		} else {
			func() {
				defer func() {
					if r := recover(); r != nil {
						s.ctx.Violate(Prop, "checksum-mismatch", "%s: GetV2PayloadChecksum panicked: %v", s.cfg, r)
					}
				}()
				sum, err := rsm.GetV2PayloadChecksum(fp, s.fs)
				if err != nil {
					s.ctx.Violate(Prop, "checksum-mismatch", "%s: GetV2PayloadChecksum failed on a fresh file: %v", s.cfg, err)
				} else if !bytes.Equal(sum, saved.Checksum) {
					s.ctx.Violate(Prop, "checksum-mismatch", "%s: recorded checksum %x, checksum of the file %x", s.cfg, saved.Checksum, sum)
				}
			}()
		}
	} else if len(file) >= headerSize {
		// v1: the recorded checksum is the CRC32 (IEEE) of the payload bytes
		h := crc32.NewIEEE()
		_, _ = h.Write(file[headerSize:])
		if sum := h.Sum(nil); !bytes.Equal(sum, saved.Checksum) {
			s.ctx.Violate(Prop, "checksum-mismatch", "%s: recorded checksum %x, CRC32 of the payload in the file %x", s.cfg, saved.Checksum, sum)
		}
	}
}

func (s *sim) runRoundtrip() {
	s.cfg, s.class = drawConfig(s.src, s.ctx.Param("big", "1") == "1", true)
	s.evCfg()
	payload, file, saved, ok := s.produce(filePath)
	if !ok {
		return
	}
	s.non = true
	s.checkRecorded(filePath, file, saved)
	res := s.load(filePath, len(payload))
	s.ctx.Ev("loaded", uint64(res.Outcome), uint64(len(res.Data)), uint64(res.Reads))
	if res.Outcome != LoadOK {
		s.ctx.Violate(Prop, "roundtrip", "%s: fault free load failed (%s): %s", s.cfg, res.Outcome, res.Why)
		return
	}
	if d := firstDiff(res.Data, payload); d >= 0 {
		s.ctx.Violate(Prop, "roundtrip", "%s: read back %d bytes, wrote %d, first difference at %d", s.cfg, len(res.Data), len(payload), d)
		return
	}
	if !bytes.Equal(res.Header.PayloadChecksum, saved.Checksum) {
		s.ctx.Violate(Prop, "checksum-mismatch", "%s: recorded checksum %x, header carries %x", s.cfg, saved.Checksum, res.Header.PayloadChecksum)
	}
	if uint64(res.Header.Version) != uint64(s.cfg.Version) || res.Header.CompressionType != s.cfg.CT {
		s.ctx.Violate(Prop, "roundtrip", "%s: header says version %d compression %d", s.cfg, res.Header.Version, res.Header.CompressionType)
	}
	s.ctx.Count("ev.roundtrip_ok", 1)
	s.ctx.Count(fmt.Sprintf("ev.rt_lenclass_%d", s.class), 1)
	// a shrunk snapshot is the one whose stream is an empty session table (8
	// bytes, then a zero count) and nothing else - and only that one
	if s.cfg.Version == rsm.V2 && len(payload) >= 16 {
		var shrunk bool
		var serr error
		panicked := ""
		func() {
			defer func() {
				if r := recover(); r != nil {
					panicked = fmt.Sprintf("%v", r)
				}
			}()
			shrunk, serr = rsm.IsShrunkSnapshotFile(filePath, s.fs)
		}()
		// (a file that was not produced by shrinking but happens to hold exactly
		// an empty session table may be classified either way: there is nothing
		// to recover from it; compressed files are examined as they are stored)
		mustNot := len(payload) > 16 || !bytes.Equal(payload[8:16], make([]byte, 8))
		s.ctx.Count("ev.shrunk_classified", 1)
		if len(payload) > 16 && len(payload) < 24 && bytes.Equal(payload[8:16], make([]byte, 8)) {
			s.ctx.Count("probe.empty_sessions_plus_1_to_7_bytes", 1)
		}
		if panicked != "" || (serr != nil && s.cfg.CT == pb.NoCompression) || (shrunk && mustNot) {
			s.ctx.Violate(Prop, "shrunk-misclassified", "%s: IsShrunkSnapshotFile on a file with %d payload bytes (bytes 8..16 zero: %t): shrunk=%t err=%v panic=%s", s.cfg, len(payload), bytes.Equal(payload[8:16], make([]byte, 8)), shrunk, serr, panicked)
		}
	}
	// shrink: what snapshotter.Shrink does to the snapshot of an on disk state machine
	if s.src.Chance(1, 2) {
		s.shrink(payload)
	}
}

func (s *sim) shrink(payload []byte) {
	var err error
	panicked := ""
	func() {
		defer func() {
			if r := recover(); r != nil {
				panicked = fmt.Sprintf("%v", r)
			}
		}()
		if err = rsm.ShrinkSnapshot(filePath, shrunkFP, s.fs); err != nil {
			return
		}
		err = rsm.ReplaceSnapshot(shrunkFP, filePath, s.fs)
	}()
	s.ctx.Ev("shrink", b2u(err == nil), b2u(panicked == ""))
	if s.cfg.Version != rsm.V2 {
		// shrinking applies to snapshots of on disk state machines, which this
		// version writes as v2; what happens to a v1 source is only recorded
		if panicked != "" || err != nil {
			s.ctx.Count("probe.shrink_v1_source_refused", 1)
			s.ctx.Tracef("shrink of a v1 source: err=%v panic=%s", err, panicked)
			return
		}
		s.ctx.Count("probe.shrink_v1_source_ok", 1)
	} else if panicked != "" || err != nil {
		s.ctx.Violate(Prop, "shrunk-not-loadable", "%s: shrinking failed: err=%v panic=%s", s.cfg, err, panicked)
		return
	}
	var shrunk bool
	func() {
		defer func() {
			if r := recover(); r != nil {
				panicked = fmt.Sprintf("%v", r)
			}
		}()
		shrunk, err = rsm.IsShrunkSnapshotFile(filePath, s.fs)
	}()
	if panicked != "" || err != nil || !shrunk {
		s.ctx.Violate(Prop, "shrunk-not-loadable", "%s: IsShrunkSnapshotFile on the shrunk file: shrunk=%t err=%v panic=%s", s.cfg, shrunk, err, panicked)
		return
	}
	res := s.load(filePath, 64)
	s.ctx.Ev("shrunk-loaded", uint64(res.Outcome), uint64(len(res.Data)))
	if res.Outcome != LoadOK {
		s.ctx.Violate(Prop, "shrunk-not-loadable", "%s: loading the shrunk file failed (%s): %s", s.cfg, res.Outcome, res.Why)
		return
	}
	// empty payload: the stream holds an empty session table and nothing else
	sm := rsm.NewSessionManager()
	rd := bytes.NewReader(res.Data)
	var lerr error
	func() {
		defer func() {
			if r := recover(); r != nil {
				lerr = fmt.Errorf("panic: %v", r)
			}
		}()
		lerr = sm.LoadSessions(rd, rsm.SSVersion(res.Header.Version))
	}()
	if lerr != nil {
		s.ctx.Violate(Prop, "shrunk-not-loadable", "%s: sessions of the shrunk file do not load: %v", s.cfg, lerr)
		return
	}
	if rd.Len() != 0 {
		s.ctx.Violate(Prop, "shrunk-not-loadable", "%s: shrunk file carries %d payload bytes after the session table", s.cfg, rd.Len())
		return
	}
	if sm.GetSessionHash() != rsm.NewSessionManager().GetSessionHash() {
		s.ctx.Violate(Prop, "shrunk-not-loadable", "%s: shrunk file restores a non empty session table", s.cfg)
		return
	}
	s.ctx.Count("ev.shrunk_ok", 1)
	_ = payload
}

// judgeLoad applies the corruption oracle: the load fails, or hands exactly
// the original bytes to the state machine.
func (s *sim) judgeLoad(res Loaded, payload []byte, strict bool, what string) (class uint64) {
	switch {
	case res.Outcome == LoadErr:
		s.ctx.Count("ev.detected_error", 1)
		return 1
	case res.Outcome == LoadPanic:
		s.ctx.Count("ev.detected_panic", 1)
		return 2
	case bytes.Equal(res.Data, payload):
		s.ctx.Count("ev.accepted_identical", 1)
		return 3
	}
	d := firstDiff(res.Data, payload)
	if strict {
		s.ctx.Violate(Prop, "corruption-undetected", "%s %s: load succeeded and handed %d bytes to the state machine, original has %d, first difference at %d",
			s.cfg, what, len(res.Data), len(payload), d)
	} else {
		s.ctx.Count("probe.file_trunc_accepted_altered", 1)
		s.ctx.Tracef("PROBE %s %s: accepted with altered bytes (%d vs %d, first difference %d)", s.cfg, what, len(res.Data), len(payload), d)
	}
	return 4
}

// enumPick maps the run index to a configuration and a unit number inside
// it. skipPad tells that the header padding is not walked for this one.
func (s *sim) enumPick(mode string) (j int64, skipPad bool) {
	lens := enumLensOf(s.ctx.Param("lens", "small"))
	var cfgs []enumCfg
	if mode == "stream" {
		cfgs = enumStreamCfgs(lens)
	} else {
		cfgs = enumFileCfgs(lens)
	}
	nf, uf, np, _ := enumLayout(mode, lens)
	full, part := cfgs[len(cfgs)-nf:], cfgs[:len(cfgs)-nf]
	var c enumCfg
	idx := int64(s.idx)
	if idx < int64(nf*uf) || np == 0 {
		c, j = full[idx%int64(nf)], idx/int64(nf)
	} else {
		idx -= int64(nf * uf)
		c, j, skipPad = part[idx%int64(np)], idx/int64(np), true
	}
	s.cfg = Config{Version: c.v, CT: c.ct, N: c.n, Kind: 0, Seed: 0xc14 + uint64(c.n)}
	return j, skipPad
}

// enumByte maps the k-th walked byte to its offset (skipping the padding).
func enumByte(k int64, skipPad bool) int64 {
	if skipPad && k >= padSkipFrom {
		return k + int64(headerSize-padSkipFrom)
	}
	return k
}

// walked returns how many bytes of an artefact of the given size are walked.
func walked(size int64, skipPad bool) int64 {
	if skipPad && size > padSkipFrom {
		if size <= int64(headerSize) {
			return padSkipFrom
		}
		return size - int64(headerSize-padSkipFrom)
	}
	return size
}

// runFileFault: corruption at rest (one flipped bit, or a cut when trunc).
func (s *sim) runFileFault(trunc bool) {
	var j int64 = -1
	skipPad := false
	if s.enum {
		mode := "flip"
		if trunc {
			mode = "trunc"
		}
		j, skipPad = s.enumPick(mode)
	} else {
		s.cfg, s.class = drawConfig(s.src, s.ctx.Param("big", "1") == "1", true)
		if s.ctx.Param("multi", "0") == "1" {
			// files of several blocks only (a part of their own: they are slow to
			// write and read, the mixed part draws them rarely)
			s.cfg.N = s.src.Range(1, 2)*blockSize + drawRem(s.src, -3, 3)
			s.class = 4
		}
	}
	s.evCfg()
	payload, file, _, ok := s.produce(filePath)
	if !ok {
		return
	}
	size := int64(len(file))
	v2 := s.cfg.Version == rsm.V2
	if trunc {
		var cut int64
		if s.enum {
			if j >= walked(size, skipPad) {
				s.note = "index beyond the file"
				return
			}
			cut = enumByte(j, skipPad)
		} else {
			cut = s.drawCut(size, v2)
		}
		s.non = true
		s.writeRaw(filePath, file[:cut])
		s.ctx.Count("fault.truncate", 1)
		s.ctx.Ev("truncate", uint64(cut), uint64(size))
		res := s.load(filePath, len(payload))
		what := fmt.Sprintf("file truncated to %d of %d bytes (cut in %s)", cut, size, Region(file, v2, int(cut)))
		cl := s.judgeLoad(res, payload, s.ctx.Param("trunc_strict", "0") == "1", what)
		s.ctx.Ev("outcome", cl)
		s.sig = append(s.sig, uint64(cut), cl)
		s.note = fmt.Sprintf("cut=%d/%d outcome=%s", cut, size, res.Outcome)
		return
	}
	var bit int64
	if s.enum {
		if j >= walked(size, skipPad)*8 {
			s.note = "index beyond the file"
			return
		}
		bit = enumByte(j/8, skipPad)*8 + j%8
	} else {
		bit = s.drawBit(size, v2, file)
	}
	s.non = true
	s.flipRaw(filePath, bit)
	s.ctx.Count("fault.bitflip", 1)
	s.ctx.Ev("flip", uint64(bit), uint64(size))
	region := Region(file, v2, int(bit/8))
	res := s.load(filePath, len(payload))
	what := fmt.Sprintf("flip byte=%d bit=%d (%s) of a %d byte file", bit/8, bit%8, region, size)
	cl := s.judgeLoad(res, payload, true, what)
	if bit/8 >= int64(headerSize) {
		// the header carries a wall clock time stamp; what a flip inside the
		// header does may depend on it, so the outcome stays out of the trace hash
		s.ctx.Ev("outcome", cl)
	}
	s.ctx.Count("ev.flip_"+regionClass(region), 1)
	s.sig = append(s.sig, uint64(bit), cl)
	s.note = fmt.Sprintf("bit=%d/%d region=%s outcome=%s", bit, size*8, region, res.Outcome)
}

func regionClass(r string) string {
	switch {
	case r == "payload" || r == "tail":
		return r
	case r == "header.padding" || r == "header.crc" || r == "header.length":
		return r[7:]
	}
	return "header"
}

// drawBit picks the bit to flip, spreading the choice over the regions of the
// file (a uniform draw would almost always land in the payload of a large
// file and in the padding of a small one).
func (s *sim) drawBit(size int64, v2 bool, file []byte) int64 {
	var lo, hi int64
	wTail := 10
	if size > int64(headerSize+blockSize) {
		wTail = 30 // several blocks: a shortened length can still be a whole number of blocks
	}
	switch s.src.Weighted([]int{30, 8, 22, 10, 14, 16, wTail}) {
	case 6: // the length the v2 tail records (16 bytes before the end of the file)
		lo, hi = size-16, size-8
		if lo >= 0 && int64(len(file)) == size && s.src.Chance(3, 4) {
			// a flip that makes the recorded length smaller: one of its set bits
			var set []int64
			for b := lo * 8; b < hi*8; b++ {
				if file[b/8]&(1<<uint(b%8)) != 0 {
					set = append(set, b)
				}
			}
			if len(set) > 0 {
				return set[s.src.Intn(len(set))]
			}
		}
	case 0: // payload
		lo, hi = int64(headerSize), size
	case 1: // header length field
		lo, hi = 0, 8
	case 2: // header record and crc
		lo, hi = 8, 80
	case 3: // header padding
		lo, hi = 80, int64(headerSize)
	case 4: // around the end of the file (last block crc, tail)
		lo, hi = size-40, size
	default: // around block boundaries
		k := int64(s.src.Range(1, 3))
		c := int64(headerSize) + k*int64(blockSize+4)
		lo, hi = c-12, c+12
	}
	if lo < 0 {
		lo = 0
	}
	if hi > size {
		hi = size
	}
	if lo >= hi {
		lo, hi = 0, size
	}
	byteOff := lo + int64(s.src.Intn(int(hi-lo)))
	return byteOff*8 + int64(s.src.Intn(8))
}

func (s *sim) drawCut(size int64, v2 bool) int64 {
	var c int64
	switch s.src.Weighted([]int{30, 15, 20, 20, 15}) {
	case 0:
		c = int64(s.src.Intn(int(size)))
	case 1:
		c = int64(s.src.Range(0, headerSize+20))
	case 2:
		c = size - 1 - int64(s.src.Intn(40))
	case 3:
		k := int64(s.src.Range(0, 3))
		c = int64(headerSize) + k*int64(blockSize+4) + int64(s.src.Range(-2, 18))
	default:
		c = int64(headerSize) + int64(s.src.Range(0, 16))
	}
	if c < 0 {
		c = 0
	}
	if c >= size {
		c = size - 1
	}
	return c
}

// ---------------------------------------------------------------------------
// stream side

func concat(ps []Piece) []byte {
	var out []byte
	for _, p := range ps {
		out = append(out, p.Data...)
	}
	return out
}

func clonePieces(ps []Piece) []Piece {
	out := make([]Piece, len(ps))
	for i, p := range ps {
		out[i] = Piece{Data: append([]byte(nil), p.Data...), ID: p.ID}
	}
	return out
}

// runStream: rsm.ChunkWriter -> rsm.SnapshotValidator (file=false), or a
// file written by rsm.SnapshotWriter cut into chunks the way the sender does
// -> rsm.SnapshotValidator (file=true).
func (s *sim) runStream(file bool) {
	var j int64 = -1
	skipPad := false
	if s.enum {
		if file {
			j, skipPad = s.enumPick("fstream")
		} else {
			j, skipPad = s.enumPick("stream")
		}
	} else {
		s.cfg, s.class = drawConfig(s.src, s.ctx.Param("big", "1") == "1", file)
	}
	s.evCfg()
	var payload []byte
	var pieces []Piece
	if file {
		var img []byte
		var ok bool
		payload, img, _, ok = s.produce(filePath)
		if !ok {
			return
		}
		// the sender cuts the file into chunks of one fixed size
		cs := s.drawChunkSize(len(img))
		for off, id := 0, uint64(0); off < len(img); id++ {
			e := off + cs
			if e > len(img) {
				e = len(img)
			}
			pieces = append(pieces, Piece{Data: img[off:e], ID: id})
			off = e
		}
		s.ctx.Ev("split", uint64(cs), uint64(len(pieces)))
		s.sig = append(s.sig, uint64(cs))
	} else {
		payload = Payload(s.cfg.Seed, s.cfg.N, s.cfg.Kind)
		seg := drawSizer(s.src, len(payload))
		calls := 0
		var chunks []pb.Chunk
		var err error
		func() {
			defer func() {
				if r := recover(); r != nil {
					err = fmt.Errorf("panic: %v", r)
				}
			}()
			chunks, err = Stream(s.cfg.CT, s.writeFn(payload, seg, &calls))
		}()
		s.ctx.Ev("streamed", uint64(calls), seg.hash(), uint64(len(chunks)), b2u(err == nil))
		s.sig = append(s.sig, seg.hash())
		if err != nil {
			s.ctx.Violate(Prop, "validator-rejects-good", "%s: fault free streaming failed: %v", s.cfg, err)
			return
		}
		for i, c := range chunks {
			if c.ChunkId != uint64(i) || uint64(len(c.Data)) != c.ChunkSize && len(c.Data) > 0 {
				s.ctx.Violate(Prop, "validator-rejects-good", "%s: chunk %d of the writer carries id %d size %d data %d", s.cfg, i, c.ChunkId, c.ChunkSize, len(c.Data))
				return
			}
			pieces = append(pieces, Piece{Data: c.Data, ID: c.ChunkId})
		}
		if len(chunks) == 0 || !chunks[len(chunks)-1].IsLastChunk() {
			s.ctx.Violate(Prop, "validator-rejects-good", "%s: the writer's stream does not end with a last chunk", s.cfg)
			return
		}
	}
	s.non = true
	good := concat(pieces)
	total := int64(len(good))
	what := "chunk writer stream"
	if file {
		what = "snapshot file sent as chunks"
	}
	// fault free: the validator accepts exactly this
	acc, pan, why := Validate(pieces)
	s.ctx.Ev("validate-good", b2u(acc), b2u(pan), uint64(len(pieces)), uint64(total))
	if !acc {
		s.ctx.Violate(Prop, "validator-rejects-good", "%s: %s (%d pieces, %d bytes) refused: %s", s.cfg, what, len(pieces), total, why)
		return
	}
	if !file {
		// what the receiver stores is a snapshot file: it must load as the payload
		s.writeRaw(recvPath, good)
		res := s.load(recvPath, len(payload))
		if res.Outcome != LoadOK || !bytes.Equal(res.Data, payload) {
			s.ctx.Violate(Prop, "roundtrip", "%s: the received stream stored as a file does not load as the payload: outcome=%s %s, %d bytes vs %d",
				s.cfg, res.Outcome, res.Why, len(res.Data), len(payload))
			return
		}
	}
	s.ctx.Count("ev.stream_accepted_good", 1)
	// fault
	var bad []Piece
	var desc string
	kind := 0
	var pos int64
	if s.enum {
		wk := walked(total, skipPad)
		switch {
		case j < wk*8:
			kind, pos = 1, enumByte(j/8, skipPad)*8+j%8
		case j < wk*9:
			kind, pos = 2, enumByte(j-wk*8, skipPad)
		default:
			s.note = "index beyond the stream"
			s.non = false
			return
		}
	} else {
		weights := []int{15, 45, 25, 5, 5, 5}
		dataPieces := 0
		for _, p := range pieces {
			if len(p.Data) > 0 {
				dataPieces++
			}
		}
		if dataPieces >= 3 {
			// several blocks: whole pieces going missing is what only the size
			// recorded in the tail can reveal
			weights = []int{5, 30, 15, 25, 10, 15}
		}
		kind = s.src.Weighted(weights)
		switch kind {
		case 1:
			pos = s.drawBit(total, true, nil)
		case 2:
			pos = s.drawCut(total, true)
		}
	}
	v2 := true
	if file && s.cfg.Version == rsm.V1 {
		v2 = false
	}
	switch kind {
	case 0:
		s.note = "fault free"
		return
	case 1: // flip one bit of the stream data
		bad = clonePieces(pieces)
		rem := pos / 8
		for i := range bad {
			if rem < int64(len(bad[i].Data)) {
				bad[i].Data[rem] ^= 1 << uint(pos%8)
				break
			}
			rem -= int64(len(bad[i].Data))
		}
		s.ctx.Count("fault.bitflip", 1)
		desc = fmt.Sprintf("flip byte=%d bit=%d (%s) of the %d byte stream", pos/8, pos%8, Region(good, v2, int(pos/8)), total)
		s.ctx.Count("ev.streamflip_"+regionClass(Region(good, v2, int(pos/8))), 1)
	case 2: // cut the stream at byte pos
		rem := pos
		for _, p := range pieces {
			if rem <= 0 {
				break
			}
			if int64(len(p.Data)) <= rem {
				bad = append(bad, Piece{Data: append([]byte(nil), p.Data...), ID: p.ID})
				rem -= int64(len(p.Data))
				continue
			}
			bad = append(bad, Piece{Data: append([]byte(nil), p.Data[:rem]...), ID: p.ID})
			rem = 0
		}
		s.ctx.Count("fault.truncate", 1)
		desc = fmt.Sprintf("stream cut after %d of %d bytes (in %s)", pos, total, Region(good, v2, int(pos)))
	case 3, 4, 5: // lose / repeat / exchange whole pieces that carry data
		var withData []int
		for i, p := range pieces {
			if len(p.Data) > 0 {
				withData = append(withData, i)
			}
		}
		if len(withData) < 2 {
			s.note = "single piece stream"
			return
		}
		a := withData[s.src.Intn(len(withData))]
		bad = clonePieces(pieces)
		switch kind {
		case 3:
			bad = append(bad[:a], bad[a+1:]...)
			s.ctx.Count("fault.drop", 1)
			desc = fmt.Sprintf("piece %d of %d lost", a, len(pieces))
		case 4:
			if a == 0 {
				a = withData[1]
			}
			dup := Piece{Data: append([]byte(nil), bad[a].Data...), ID: bad[a].ID}
			bad = append(bad[:a+1], append([]Piece{dup}, bad[a+1:]...)...)
			s.ctx.Count("fault.duplicate", 1)
			desc = fmt.Sprintf("piece %d of %d repeated", a, len(pieces))
		default:
			b := withData[s.src.Intn(len(withData))]
			if a == b || a == 0 || b == 0 || bytes.Equal(bad[a].Data, bad[b].Data) {
				s.note = "no effective swap"
				return
			}
			bad[a].Data, bad[b].Data = bad[b].Data, bad[a].Data
			s.ctx.Count("fault.swap", 1)
			desc = fmt.Sprintf("data of pieces %d and %d of %d exchanged", a, b, len(pieces))
		}
		pos = int64(a)
	}
	s.ctx.Ev("stream-fault", uint64(kind), uint64(pos))
	ForgetsRefusal = false
	acc, pan, why = Validate(bad)
	if ForgetsRefusal {
		s.ctx.Count("probe.validator_says_valid_after_refusing_a_chunk", 1)
		s.ctx.Tracef("PROBE %s: %s: AddChunk refused a piece, the rest of the stream was fed anyway and Validate() returned true", s.cfg, desc)
	}
	s.ctx.Ev("validate-bad", b2u(acc), b2u(pan))
	s.sig = append(s.sig, uint64(kind), uint64(pos), b2u(acc))
	s.note = fmt.Sprintf("%s accepted=%t", desc, acc)
	if pan {
		s.ctx.Count("probe.validator_panic", 1)
		s.ctx.Tracef("validator panicked: %s", why)
	}
	if !acc {
		s.ctx.Count("ev.stream_rejected_bad", 1)
		return
	}
	// accepted although altered: what would the state machine be handed?
	s.writeRaw(recvPath, concat(bad))
	res := s.load(recvPath, len(payload))
	harmless := res.Outcome == LoadOK && bytes.Equal(res.Data, payload)
	if harmless && s.ctx.Param("strict_stream", "0") != "1" {
		s.ctx.Count("probe.stream_fault_accepted_harmless", 1)
		s.ctx.Tracef("PROBE %s %s: %s accepted; the stored file still loads as the original payload", s.cfg, what, desc)
		return
	}
	if kind == 5 && s.ctx.Param("strict_stream", "0") != "1" {
		// whole blocks exchanged: not a single-bit flip, burst or truncation of the
		// stream, i.e. outside the quantifier of C14 (nothing in the v2 format
		// checks block order); recorded, not reported
		s.ctx.Count("probe.stream_block_exchange_accepted", 1)
		s.ctx.Tracef("PROBE %s %s: %s accepted by the validator (outside the stated fault model)", s.cfg, what, desc)
		return
	}
	s.ctx.Violate(Prop, "validator-accepts-corrupt", "%s %s: %s accepted by the validator; loading the stored file: outcome=%s %s, %d bytes, original %d, first difference %d (harmless=%t)",
		s.cfg, what, desc, res.Outcome, res.Why, len(res.Data), len(payload), firstDiff(res.Data, payload), harmless)
}

func (s *sim) drawChunkSize(total int) int {
	switch s.src.Weighted([]int{30, 10, 10, 10, 10, 10, 6, 6, 4, 4}) {
	case 0:
		return blockSize // the shipped chunk size
	case 1:
		return headerSize
	case 2:
		return headerSize + 1
	case 3:
		return headerSize + 16
	case 4:
		return s.src.Range(headerSize, 4096)
	case 5:
		return 65536
	case 6:
		return blockSize + 4
	case 7:
		return blockSize + 5
	case 8:
		return 2*blockSize + 8
	}
	if total < headerSize {
		return headerSize
	}
	return total
}

// ---------------------------------------------------------------------------
// injected I/O errors: an operation may fail, never produce wrong data

func (s *sim) runIOFault() {
	s.cfg, s.class = drawConfig(s.src, false, true)
	s.evCfg()
	payload := Payload(s.cfg.Seed, s.cfg.N, s.cfg.Kind)
	s.env.kind = s.src.Intn(3)
	s.env.at = int64(1 + s.src.Intn(12))
	seg := drawSizer(s.src, len(payload))
	calls := 0
	s.env.armed = s.env.kind != 2
	saved, err := s.save(filePath, payload, seg, &calls)
	s.env.armed = false
	s.ctx.Ev("saved", uint64(calls), seg.hash(), saved.FileSize, b2u(err == nil), b2u(s.env.fired), uint64(s.env.kind), uint64(s.env.at))
	s.sig = append(s.sig, seg.hash(), uint64(s.env.kind), uint64(s.env.at), b2u(err == nil))
	s.non = true
	if s.env.fired {
		if s.env.kind == 1 {
			s.ctx.Count("fault.short_write", 1)
		} else {
			s.ctx.Count("fault.io_error_"+s.env.firedOp.String(), 1)
		}
	}
	if err != nil {
		if !s.env.fired {
			s.ctx.Violate(Prop, "roundtrip", "%s: save failed without an injected fault: %v", s.cfg, err)
		}
		s.ctx.Count("ev.save_failed_on_fault", 1)
		s.note = "save reported the injected error"
		return
	}
	if s.env.fired {
		// the error was not reported: then the file has to be good
		s.ctx.Count("probe.io_error_not_reported_by_save", 1)
	}
	if s.env.kind == 2 {
		s.env.armed = true
	}
	res := s.load(filePath, len(payload))
	s.env.armed = false
	if s.env.fired && s.env.kind == 2 {
		s.ctx.Count("fault.io_error_read", 1)
	}
	s.ctx.Ev("loaded", uint64(res.Outcome), uint64(len(res.Data)), b2u(s.env.fired))
	s.note = fmt.Sprintf("fault kind=%d at=%d fired=%t load=%s", s.env.kind, s.env.at, s.env.fired, res.Outcome)
	if res.Outcome == LoadOK {
		if !bytes.Equal(res.Data, payload) {
			s.ctx.Violate(Prop, "roundtrip", "%s: injected I/O error (kind %d at op %d, fired=%t) was swallowed: save and load succeeded but %d bytes came back for %d written, first difference %d",
				s.cfg, s.env.kind, s.env.at, s.env.fired, len(res.Data), len(payload), firstDiff(res.Data, payload))
		}
		return
	}
	if s.env.fired && s.env.kind == 2 {
		s.ctx.Count("ev.load_failed_on_fault", 1)
		return
	}
	// the save reported success, nothing was injected into the load
	s.ctx.Violate(Prop, "roundtrip", "%s: save reported success (injected fault kind %d at op %d fired=%t) but the file does not load: %s %s",
		s.cfg, s.env.kind, s.env.at, s.env.fired, res.Outcome, res.Why)
}

package snapio

import (
	"encoding/binary"
	"fmt"

	"github.com/lni/dragonboat/v4/internal/rsm"
	pb "github.com/lni/dragonboat/v4/raftpb"
	"github.com/lni/dragonboat/v4/verifsim/choice"
)

// blockSize is the block size of the v2 format, taken from the exported
// constant of the code under test (rsm.ChunkSize == settings.SnapshotChunkSize
// == the blockSize of rwv.go).
const blockSize = int(rsm.ChunkSize)

// headerSize is the documented size of the snapshot header.
const headerSize = int(rsm.HeaderSize)

// Config is one snapshot to be produced.
type Config struct {
	Version rsm.SSVersion
	CT      pb.CompressionType
	N       int    // payload length
	Kind    int    // 0 compressible, 1 random, 2 zeros
	Seed    uint64 // content seed
}

func (c Config) String() string {
	return fmt.Sprintf("version=V%d ct=%s len=%d kind=%d", c.Version, ctName(c.CT), c.N, c.Kind)
}

func ctName(ct pb.CompressionType) string {
	if ct == pb.Snappy {
		return "Snappy"
	}
	return "NoCompression"
}

// Payload generates the payload of a configuration (a function of the
// configuration only).
func Payload(seed uint64, n int, kind int) []byte {
	out := make([]byte, n)
	r := choice.NewSplitMix(seed ^ 0x5eed)
	switch kind {
	case 1:
		i := 0
		for i+8 <= n {
			binary.LittleEndian.PutUint64(out[i:], r.Next())
			i += 8
		}
		if i < n {
			var b [8]byte
			binary.LittleEndian.PutUint64(b[:], r.Next())
			copy(out[i:], b[:])
		}
	case 2:
		// zeros
	default:
		i := 0
		for i < n {
			v := r.Next()
			b := byte('a' + v%7)
			run := int((v>>8)%40) + 1
			for j := 0; j < run && i < n; j++ {
				out[i] = b
				i++
			}
		}
	}
	return out
}

// drawRem draws how far past a block boundary a payload ends.
func drawRem(src *choice.Source, lo, hi int) int {
	switch src.Weighted([]int{4, 3, 3}) {
	case 0:
		return src.Range(lo, hi)
	case 1:
		return (4 << uint(src.Intn(9))) - 4 // 0, 4, 12, 28, ..., 1020
	}
	return src.Range(-70, 1100)
}

// drawLen draws a payload length; 0 on the tape is the smallest class.
func drawLen(src *choice.Source, ct pb.CompressionType, big bool) (n int, class int) {
	w := []int{40, 6, 6, 26, 8, 5, 3, 6}
	if !big {
		w = []int{50, 8, 8, 34, 0, 0, 0, 0}
	}
	class = src.Weighted(w)
	// with compression the block arithmetic applies to the compressed stream;
	// snappy framing adds a few bytes per 64KB, so the window is widened
	lo, hi := -3, 3
	if ct == pb.Snappy {
		lo, hi = -400, 8
	}
	// past a block boundary: a few bytes, or a remainder that makes the last block
	// (data + 4 byte checksum) a power of two long - then a single flipped bit of
	// a length field can land on another whole number of blocks - or anything near
	rem := func() int { return drawRem(src, lo, hi) }
	switch class {
	case 0:
		n = src.Range(2, 64)
	case 1:
		n = 0
	case 2:
		n = 1
	case 3:
		n = src.Range(65, 5000)
	case 4:
		n = blockSize + rem()
	case 5:
		n = 2*blockSize + rem()
	case 6:
		n = 3*blockSize + rem()
	default:
		n = src.Range(blockSize/2, 3*blockSize)
	}
	return n, class
}

func drawConfig(src *choice.Source, big bool, v1 bool) (Config, int) {
	c := Config{Version: rsm.V2}
	if v1 && src.Chance(1, 4) {
		c.Version = rsm.V1
	}
	if src.Chance(2, 5) {
		c.CT = pb.Snappy
	}
	var class int
	c.N, class = drawLen(src, c.CT, big)
	c.Kind = src.Intn(3)
	c.Seed = src.Uint64()
	return c, class
}

// sizer hands out buffer / segment sizes from a short tape chosen pattern.
type sizer struct {
	pat []int
	i   int
}

func (s *sizer) next() int {
	v := s.pat[s.i%len(s.pat)]
	s.i++
	return v
}

func (s *sizer) hash() uint64 {
	h := uint64(1469598103934665603)
	for _, v := range s.pat {
		h = (h ^ uint64(v)) * 1099511628211
	}
	return h
}

// drawSizer draws a pattern of 1..6 sizes. total is the amount of data the
// pattern will be applied to: for large amounts tiny sizes are scaled up so
// that a run stays cheap. The pattern always contains a positive size.
func drawSizer(src *choice.Source, total int) *sizer {
	k := 1 + src.Intn(6)
	s := &sizer{}
	pos := false
	for i := 0; i < k; i++ {
		var v int
		switch src.Weighted([]int{30, 10, 10, 12, 8, 6, 3, 4, 3, 3, 2, 4, 5}) {
		case 0:
			v = 32768
		case 1:
			v = 1
		case 2:
			v = src.Range(2, 16)
		case 3:
			v = src.Range(17, 1024)
		case 4:
			v = 4096
		case 5:
			v = 65536
		case 6:
			v = blockSize - 1
		case 7:
			v = blockSize
		case 8:
			v = blockSize + 1
		case 9:
			v = blockSize + 4
		case 10:
			v = 2*blockSize + 8
		case 11:
			v = 0
		default:
			v = total
		}
		if total > 256*1024 && v > 0 && v < 1024 {
			v *= 4099
		} else if total > 16*1024 && v > 0 && v < 16 {
			v *= 61
		}
		if v > blockSize && total < 64*1024 {
			// huge buffers for tiny payloads only cost time
			v = v%8191 + 1
		}
		if v > 0 {
			pos = true
		}
		s.pat = append(s.pat, v)
	}
	if !pos {
		s.pat = append(s.pat, 4096)
	}
	return s
}

// field names of pb.SnapshotHeader by protobuf field number, only used to
// describe where a flipped bit landed.
var headerFields = map[uint64]string{1: "SessionSize", 2: "DataStoreSize", 3: "UnreliableTime",
	4: "GitVersion", 5: "HeaderChecksum", 6: "PayloadChecksum", 7: "ChecksumType", 8: "Version",
	9: "CompressionType"}

// Region names the part of a snapshot file (or of the data of a chunk
// stream, which has the same layout) a byte offset belongs to. It only
// labels findings; no oracle depends on it.
func Region(file []byte, v2 bool, off int) string {
	if off < 8 {
		return "header.length"
	}
	if off >= headerSize {
		if v2 && off >= len(file)-16 {
			return "tail"
		}
		return "payload"
	}
	if len(file) < 8 {
		return "header"
	}
	sz := int(binary.LittleEndian.Uint64(file))
	if sz < 0 || sz > headerSize-8 || 8+sz > len(file) {
		return "header"
	}
	if off >= 8+sz+4 {
		return "header.padding"
	}
	if off >= 8+sz {
		return "header.crc"
	}
	data := file[8 : 8+sz]
	i := 0
	for i < len(data) {
		start := i
		tag, n := binary.Uvarint(data[i:])
		if n <= 0 {
			break
		}
		i += n
		switch tag & 7 {
		case 0:
			_, m := binary.Uvarint(data[i:])
			if m <= 0 {
				return "header.body"
			}
			i += m
		case 2:
			l, m := binary.Uvarint(data[i:])
			if m <= 0 {
				return "header.body"
			}
			i += m + int(l)
		default:
			return "header.body"
		}
		if off-8 >= start && off-8 < i {
			name := headerFields[tag>>3]
			if name == "" {
				name = fmt.Sprintf("field%d", tag>>3)
			}
			if off-8 == start {
				return "header." + name + ".tag"
			}
			return "header." + name
		}
	}
	return "header.body"
}

func fnv(vals ...uint64) uint64 {
	h := uint64(1469598103934665603)
	for _, v := range vals {
		h = (h ^ v) * 1099511628211
		h ^= h >> 29
	}
	return h
}

func firstDiff(a, b []byte) int {
	n := len(a)
	if len(b) < n {
		n = len(b)
	}
	for i := 0; i < n; i++ {
		if a[i] != b[i] {
			return i
		}
	}
	if len(a) != len(b) {
		return n
	}
	return -1
}

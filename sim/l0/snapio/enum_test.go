package snapio

import (
	"fmt"
	"os"
	"sort"
	"strconv"
	"strings"
	"testing"

	"github.com/lni/dragonboat/v4/logger"
	"github.com/lni/dragonboat/v4/verifsim/choice"
	"github.com/lni/dragonboat/v4/verifsim/runner"
)

type quiet struct{}

func (quiet) SetLevel(logger.LogLevel)                    {}
func (quiet) Debugf(format string, args ...interface{})   {}
func (quiet) Infof(format string, args ...interface{})    {}
func (quiet) Warningf(format string, args ...interface{}) {}
func (quiet) Errorf(format string, args ...interface{})   {}
func (quiet) Panicf(format string, args ...interface{})   { panic(fmt.Sprintf(format, args...)) }

func init() {
	logger.SetLoggerFactory(func(string) logger.ILogger { return quiet{} })
}

// TestEnumerationSummary walks a whole enumerating part in process and prints
// every distinct class of violation / probe with a count (the batch runner
// stops a worker at its first violation, which hides the rest of the list).
// Run with VERIF_SNAPIO_ENUM=flip|stream|fstream|trunc [VERIF_SNAPIO_LENS=medium].
func TestEnumerationSummary(t *testing.T) {
	mode := os.Getenv("VERIF_SNAPIO_ENUM")
	if mode == "" {
		t.Skip("set VERIF_SNAPIO_ENUM")
	}
	lens := os.Getenv("VERIF_SNAPIO_LENS")
	if lens == "" {
		lens = "small"
	}
	extra := os.Getenv("VERIF_SNAPIO_PARAMS") // k=v,k=v
	classes := map[string]int{}
	example := map[string]string{}
	counters := map[string]int64{}
	n := EnumRuns(mode, lens)
	runs, non := 0, 0
	for i := 0; i < n; i++ {
		params := map[string]string{"mode": mode, "enum": "1", "lens": lens, "_i": strconv.Itoa(i)}
		for _, kv := range strings.Split(extra, ",") {
			if j := strings.Index(kv, "="); j > 0 {
				params[kv[:j]] = kv[j+1:]
			}
		}
		ctx := runner.NewCtx(choice.FromSeed(choice.Mix(1, uint64(i))), params, Prop, false)
		res := Run(ctx)
		runs++
		if res.Nontrivial {
			non++
		}
		for k, v := range res.Counters {
			counters[k] += v
		}
		for _, v := range res.Violations {
			// class = oracle + configuration + region (strip positions)
			d := v.Detail
			key := v.Oracle + " | " + classOf(d)
			classes[key]++
			if _, ok := example[key]; !ok {
				example[key] = d
			}
		}
	}
	fmt.Printf("mode=%s lens=%s runs=%d nontrivial=%d\n", mode, lens, runs, non)
	var keys []string
	for k := range counters {
		keys = append(keys, k)
	}
	sort.Strings(keys)
	for _, k := range keys {
		fmt.Printf("  %s=%d\n", k, counters[k])
	}
	keys = keys[:0]
	for k := range classes {
		keys = append(keys, k)
	}
	sort.Strings(keys)
	for _, k := range keys {
		fmt.Printf("CLASS %4d  %s\n      e.g. %s\n", classes[k], k, example[k])
	}
}

// classOf reduces a detail string to configuration + region + outcome.
func classOf(d string) string {
	cfg := d
	if i := strings.Index(d, " kind="); i > 0 {
		cfg = d[:i]
	}
	region := ""
	if i := strings.Index(d, "("); i >= 0 {
		if j := strings.Index(d[i:], ")"); j > 0 {
			region = d[i : i+j+1]
		}
	}
	if i := strings.Index(d, "(cut in "); i >= 0 {
		region = d[i:]
		if j := strings.Index(region, ")"); j > 0 {
			region = region[:j+1]
		}
	}
	out := ""
	if i := strings.Index(d, "outcome="); i >= 0 {
		out = d[i:]
		if j := strings.Index(out, ","); j > 0 {
			out = out[:j]
		}
	}
	return cfg + " " + region + " " + out
}

// Package snapio is the L0 simulator deciding property C14 (snapshot files
// read back intact; any corruption is detected, not loaded).
//
// Everything that touches the snapshot format is shipped code: the
// rsm.SnapshotWriter / dio.Compressor stack assembled exactly like
// snapshotter.Save does, the rsm.SnapshotReader / dio.Decompressor stack
// assembled exactly like snapshotter.Load does, rsm.ShrinkSnapshot,
// rsm.IsShrunkSnapshotFile, rsm.ChunkWriter and rsm.SnapshotValidator. The
// simulator owns the disk (simfs), the payload, the segmentation of writes
// and reads, and the faults (corruption at rest, cut streams, I/O errors).
package snapio

import (
	"fmt"
	"io"

	"github.com/lni/dragonboat/v4/internal/rsm"
	"github.com/lni/dragonboat/v4/internal/utils/dio"
	"github.com/lni/dragonboat/v4/internal/vfs"
	pb "github.com/lni/dragonboat/v4/raftpb"
)

// Saved is what the real save path records about a snapshot file
// (pb.Snapshot.FileSize and pb.Snapshot.Checksum in snapshotter.Save).
type Saved struct {
	FileSize uint64
	Checksum []byte
	Total    uint64 // bytes that reached the SnapshotWriter (after compression)
}

func dioType(ct pb.CompressionType) dio.CompressionType {
	// same mapping (and same refusal of unknown values) as compressionType()
	// in /repo/snapshotter.go
	switch ct {
	case pb.NoCompression:
		return dio.NoCompression
	case pb.Snappy:
		return dio.Snappy
	}
	panic(fmt.Sprintf("unknown compression type: %d", ct))
}

// Save writes a snapshot file the way snapshotter.Save does: SnapshotWriter
// wrapped in a CountedWriter wrapped in the Compressor; the compressor is
// closed (which flushes, rewrites the header, syncs and closes the file) and
// only then the recorded size and checksum are taken. write is the state
// machine: it receives the io.Writer the state machine would receive.
func Save(fs vfs.IFS, fp string, version rsm.SSVersion, ct pb.CompressionType,
	write func(w io.Writer) error) (s Saved, err error) {
	var w *rsm.SnapshotWriter
	if version == rsm.DefaultVersion {
		w, err = rsm.NewSnapshotWriter(fp, ct, fs)
	} else {
		w, err = rsm.VerifNewVersionedSnapshotWriter(fp, version, ct, fs)
	}
	if err != nil {
		return Saved{}, err
	}
	cw := dio.NewCountedWriter(w)
	sw := dio.NewCompressor(dioType(ct), cw)
	werr := write(sw)
	cerr := sw.Close()
	s.Total = cw.BytesWritten()
	s.Checksum = w.GetPayloadChecksum()
	s.FileSize = w.GetPayloadSize(s.Total) + rsm.HeaderSize
	if werr != nil {
		return s, werr
	}
	return s, cerr
}

// Outcome classifies one attempt to load a snapshot file.
type Outcome int

// Outcomes.
const (
	LoadOK Outcome = iota
	LoadErr
	LoadPanic
)

func (o Outcome) String() string { return [...]string{"ok", "error", "panic"}[o] }

// Loaded is the result of Load.
type Loaded struct {
	Outcome Outcome
	Data    []byte // what the state machine received before the outcome
	Header  pb.SnapshotHeader
	Why     string
	Reads   int
}

// Load reads a snapshot file the way snapshotter.Load does: SnapshotReader,
// the decompressor selected by the header, the state machine reading until
// EOF with buffers of the sizes handed out by next, then Close (which
// validates the payload checksum of v1 files). Errors and panics of the code
// under test are outcomes, not failures of the harness. limit bounds the
// number of bytes accepted (a corrupt stream must not make the harness eat
// all memory).
func Load(fs vfs.IFS, fp string, next func() int, limit int) (res Loaded) {
	defer func() {
		if r := recover(); r != nil {
			res.Outcome = LoadPanic
			res.Why = fmt.Sprintf("%v", r)
			if len(res.Why) > 200 {
				res.Why = res.Why[:200]
			}
		}
	}()
	reader, header, err := rsm.NewSnapshotReader(fp, fs)
	if err != nil {
		res.Outcome, res.Why = LoadErr, "open: "+err.Error()
		return res
	}
	res.Header = header
	closed := false
	var cr io.ReadCloser
	func() {
		// an unknown compression type panics before the decompressor exists;
		// the reader has to be released all the same
		defer func() {
			if r := recover(); r != nil {
				_ = closeQuietly(reader)
				panic(r)
			}
		}()
		cr = dio.NewDecompressor(dioType(header.CompressionType), reader)
	}()
	defer func() {
		if !closed {
			_ = closeQuietly(cr)
		}
	}()
	stall := 0
	for {
		k := next()
		if k < 0 {
			k = 0
		}
		buf := make([]byte, k)
		n, rerr := cr.Read(buf)
		res.Reads++
		if n < 0 || n > k {
			res.Outcome, res.Why = LoadErr, fmt.Sprintf("Read returned n=%d for a buffer of %d", n, k)
			return res
		}
		res.Data = append(res.Data, buf[:n]...)
		if rerr == io.EOF {
			break
		}
		if rerr != nil {
			res.Outcome, res.Why = LoadErr, "read: "+rerr.Error()
			return res
		}
		if n == 0 && k > 0 {
			stall++
			if stall > 64 {
				res.Outcome, res.Why = LoadErr, "no progress: Read keeps returning 0, nil"
				return res
			}
		} else if n > 0 {
			stall = 0
		}
		if len(res.Data) > limit {
			res.Outcome, res.Why = LoadErr, "harness limit: more data than any valid file could hold"
			return res
		}
	}
	closed = true
	if err := cr.Close(); err != nil {
		res.Outcome, res.Why = LoadErr, "close: "+err.Error()
		return res
	}
	res.Outcome = LoadOK
	return res
}

func closeQuietly(c io.Closer) (err error) {
	defer func() {
		if r := recover(); r != nil {
			err = fmt.Errorf("%v", r)
		}
	}()
	return c.Close()
}

// captureSink is the pb.IChunkSink collecting what rsm.ChunkWriter emits.
type captureSink struct {
	chunks []pb.Chunk
	closed int
}

func (s *captureSink) Receive(c pb.Chunk) (bool, bool) {
	c.Data = append([]byte(nil), c.Data...)
	s.chunks = append(s.chunks, c)
	return true, false
}
func (s *captureSink) Close() error        { s.closed++; return nil }
func (s *captureSink) ShardID() uint64     { return 7 }
func (s *captureSink) ToReplicaID() uint64 { return 3 }

// Stream produces a chunk stream the way snapshotter.Stream does:
// dio.Compressor over rsm.ChunkWriter over the sink.
func Stream(ct pb.CompressionType, write func(w io.Writer) error) ([]pb.Chunk, error) {
	sink := &captureSink{}
	meta := rsm.SSMeta{From: 1, Index: 100, Term: 5, CompressionType: ct}
	cw := dio.NewCompressor(dioType(ct), rsm.NewChunkWriter(sink, meta))
	if err := write(cw); err != nil {
		_ = sink.Close()
		return sink.chunks, err
	}
	return sink.chunks, cw.Close()
}

// Piece is one element of a received stream as the validator sees it.
type Piece struct {
	Data []byte
	ID   uint64
}

// Validate feeds a stream to a fresh rsm.SnapshotValidator the way
// transport.Chunk does (AddChunk for every chunk in order, giving up at the
// first refusal; Validate after the last one). A panic is a refusal; it is
// reported separately.
func Validate(pieces []Piece) (accepted bool, panicked bool, why string) {
	defer func() {
		if r := recover(); r != nil {
			accepted, panicked = false, true
			why = fmt.Sprintf("panic: %v", r)
		}
	}()
	v := rsm.NewSnapshotValidator()
	for i, p := range pieces {
		if !v.AddChunk(p.Data, p.ID) {
			ForgetsRefusal = validatesAfterRefusal(v, pieces[i+1:])
			return false, false, fmt.Sprintf("AddChunk refused piece %d", i)
		}
	}
	if !v.Validate() {
		return false, false, "Validate returned false"
	}
	return true, false, ""
}

// ForgetsRefusal is set by Validate when, after AddChunk refused a piece, the
// same validator fed with the rest of the stream answers Validate() == true.
// The stream was rejected (AddChunk said so), so this is no violation of C14;
// it is recorded because a caller that keeps going after a refusal (C15)
// would be told the stream is good.
var ForgetsRefusal bool

func validatesAfterRefusal(v *rsm.SnapshotValidator, rest []Piece) (ok bool) {
	defer func() {
		if r := recover(); r != nil {
			ok = false
		}
	}()
	for _, p := range rest {
		_ = v.AddChunk(p.Data, p.ID)
	}
	return v.Validate()
}

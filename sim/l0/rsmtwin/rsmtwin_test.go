package rsmtwin

import (
	"fmt"
	"testing"

	"github.com/lni/dragonboat/v4/verifsim/choice"
	"github.com/lni/dragonboat/v4/verifsim/runner"
	_ "github.com/lni/dragonboat/v4/verifsim/simhost" // quiet logger
)

func runTape(t *testing.T, params map[string]string, src *choice.Source) *runner.Result {
	t.Helper()
	sc := &runner.Scenario{Name: "l0/rsmtwin", Run: Run}
	res, infra := runner.ExecRun(sc, params, "", src, false)
	if infra != nil {
		t.Fatalf("params=%v: infrastructure error: %v", params, infra)
	}
	return res
}

// TestTapeRobustness: every tape is a valid scenario (the shrinker hands the
// scenario truncated, zeroed and otherwise mangled tapes), never a harness
// panic, and - on the unchanged tree - never a violation.
func TestTapeRobustness(t *testing.T) {
	for _, focus := range []string{"sessions", "membership", "snapshot"} {
		for _, enum := range []string{"0", "1"} {
			if enum == "1" && focus != "snapshot" {
				continue
			}
			params := map[string]string{"focus": focus, "enum": enum}
			check := func(what string, res *runner.Result) {
				for _, v := range res.Violations {
					t.Errorf("%s %s: violation %s/%s: %s", runner.ParamString(params), what, v.Property, v.Oracle, v.Detail)
				}
			}
			// the all zero tape and the empty tape
			check("zero tape", runTape(t, params, choice.FromTape(make([]uint32, 4096), 1)))
			check("empty tape", runTape(t, params, choice.FromTape(nil, 2)))
			seeds := 12
			if enum == "1" {
				seeds = 3
			}
			for seed := uint64(1); seed <= uint64(seeds); seed++ {
				src := choice.FromSeed(choice.Mix(seed, 99))
				res := runTape(t, params, src)
				check(fmt.Sprintf("seed %d", seed), res)
				tape := src.Tape()
				rng := choice.NewSplitMix(seed)
				for k := 0; k < 6; k++ {
					m := append([]uint32(nil), tape...)
					switch k % 3 {
					case 0: // truncate
						m = m[:int(rng.Next()%uint64(len(m)+1))]
					case 1: // zero a range
						a := int(rng.Next() % uint64(len(m)))
						b := a + int(rng.Next()%uint64(len(m)-a))
						for i := a; i < b; i++ {
							m[i] = 0
						}
					case 2: // large values
						for i := 0; i < len(m)/8+1; i++ {
							m[int(rng.Next()%uint64(len(m)))] = uint32(rng.Next())
						}
					}
					r2 := runTape(t, params, choice.FromTape(m, src.Aux))
					check(fmt.Sprintf("seed %d mangled %d", seed, k), r2)
					// replaying the recorded tape of the mangled run gives the same run
					r3 := runTape(t, params, choice.FromTape(m, src.Aux))
					if r2.TraceHash != r3.TraceHash {
						t.Errorf("%s seed %d mangled %d: not deterministic", runner.ParamString(params), seed, k)
					}
				}
			}
		}
	}
}

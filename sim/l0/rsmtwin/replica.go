package rsmtwin

import (
	"bytes"
	"fmt"
	"strings"

	dragonboat "github.com/lni/dragonboat/v4"
	"github.com/lni/dragonboat/v4/config"
	"github.com/lni/dragonboat/v4/internal/fileutil"
	"github.com/lni/dragonboat/v4/internal/raft"
	"github.com/lni/dragonboat/v4/internal/rsm"
	"github.com/lni/dragonboat/v4/internal/settings"
	"github.com/lni/dragonboat/v4/internal/transport"
	pb "github.com/lni/dragonboat/v4/raftpb"
	sm "github.com/lni/dragonboat/v4/statemachine"
	"github.com/lni/dragonboat/v4/verifsim/simfs"
)

const shardID = 7

// callback is one thing the state machine reported through rsm.INode.
type callback struct {
	isCC     bool
	entry    pb.Entry // ApplyUpdate
	result   sm.Result
	rejected bool
	ignored  bool
	notify   bool
	cc       pb.ConfigChange // ApplyConfigChange
	key      uint64
	member   pb.Membership // membership right after the change was processed
	userHash uint64        // user data hash right after the entry was processed
	updates  int           // number of commands the user SM had seen so far
}

// recNode implements rsm.INode and records everything it is told.
type recNode struct {
	r         *replica
	replicaID uint64
	calls     []callback
	stepReady int
	restored  []pb.Snapshot
}

var _ rsm.INode = (*recNode)(nil)

func (n *recNode) StepReady()                  { n.stepReady++ }
func (n *recNode) ReplicaID() uint64           { return n.replicaID }
func (n *recNode) ShardID() uint64             { return shardID }
func (n *recNode) ShouldStop() <-chan struct{} { return nil }
func (n *recNode) RestoreRemotes(ss pb.Snapshot) error {
	n.restored = append(n.restored, ss)
	return nil
}
func (n *recNode) ApplyUpdate(e pb.Entry, r sm.Result, rejected bool, ignored bool, notifyRead bool) {
	n.calls = append(n.calls, callback{entry: e, result: copyResult(r), rejected: rejected,
		ignored: ignored, notify: notifyRead, userHash: n.r.user.st.hash(), updates: len(n.r.user.rec)})
}
func (n *recNode) ApplyConfigChange(cc pb.ConfigChange, key uint64, rejected bool) error {
	// the state machine lock is not held while the node is told
	n.calls = append(n.calls, callback{isCC: true, cc: cc, key: key, rejected: rejected,
		member: n.r.sm.GetMembership(), userHash: n.r.user.st.hash(), updates: len(n.r.user.rec)})
	return nil
}

// outcome is everything observable about the processing of one entry on one
// replica.
type outcome struct {
	Seen     bool // the entry was handed to Handle and not covered by a snapshot
	Called   bool // ApplyUpdate / ApplyConfigChange was invoked for it
	IsCC     bool
	Result   sm.Result
	Rejected bool
	Ignored  bool
	Notify   bool
	Updates  int       // commands handed to the user state machine for this index
	UpdRes   sm.Result // what the user state machine returned
	UserHash uint64    // user data hash right after the entry (when Called)
	Member   pb.Membership
	Cover    uint64 // on disk kind: index the user state machine covered before the entry was processed
}

func sameResult(a, b sm.Result) bool {
	return a.Value == b.Value && bytes.Equal(a.Data, b.Data)
}

func resStr(r sm.Result) string { return fmt.Sprintf("{%x %x}", r.Value, r.Data) }

func (o outcome) String() string {
	if !o.Seen {
		return "unseen"
	}
	if o.IsCC {
		return fmt.Sprintf("cc(called=%t rejected=%t member=%s)", o.Called, o.Rejected, memberStr(o.Member))
	}
	return fmt.Sprintf("upd(called=%t res=%s rejected=%t ignored=%t smcalls=%d smres=%s hash=%x)",
		o.Called, resStr(o.Result), o.Rejected, o.Ignored, o.Updates, resStr(o.UpdRes), o.UserHash)
}

// stateAt is the replicated state at an applied index.
type stateAt struct {
	User, Session, Member uint64
	Term                  uint64
	Full                  pb.Membership
	UserApplied           uint64
}

// replica is one incarnation of one replica: a user state machine, the real
// NativeSM wrapper, the real snapshotter and the real rsm.StateMachine.
type replica struct {
	h      *harness
	name   string
	id     uint64
	kind   int
	disk   *simfs.Disk
	fs     *simfs.View
	ldb    *memLogDB
	root   string
	cfg    config.Config
	user   *userSM
	nsm    *rsm.NativeSM
	snap   *dragonboat.VerifSnapshotter
	node   *recNode
	sm     *rsm.StateMachine
	chunks *transport.Chunk
	recvd  []pb.Snapshot // snapshots delivered by the chunk receiver

	batch []rsm.Task
	apply []sm.Entry

	out       map[uint64]*outcome
	states    map[uint64]stateAt
	updSeen   int    // user.rec consumed so far
	startedAt uint64 // applied index right after start (restored snapshot index)
	openIndex uint64 // on disk kind: what Open returned / the snapshot recovered from covers
	term      uint64 // term of the last applied entry as far as the harness knows
	dead      bool
}

func (h *harness) rootDirFunc(root string) func(uint64, uint64) string {
	return func(s uint64, r uint64) string { return fmt.Sprintf("%s/snapshot-%d-%d", root, s, r) }
}

// newReplica builds an incarnation over disk (which may hold what earlier
// incarnations left behind) and the given log store.
func (h *harness) newReplica(name string, id uint64, kind int, disk *simfs.Disk, ldb *memLogDB, root string) *replica {
	return h.newReplicaAt(name, id, kind, disk, ldb, root, nil)
}

// newReplicaAt is newReplica with the snapshot directory given explicitly.
func (h *harness) newReplicaAt(name string, id uint64, kind int, disk *simfs.Disk, ldb *memLogDB, root string,
	rf func(uint64, uint64) string) *replica {
	r := &replica{h: h, name: name, id: id, kind: kind, disk: disk, ldb: ldb, root: root,
		out: map[uint64]*outcome{}, states: map[uint64]stateAt{}}
	r.fs = disk.View()
	r.cfg = config.Config{ShardID: shardID, ReplicaID: id, OrderedConfigChange: h.ordered,
		SnapshotCompressionType: h.sct, EntryCompressionType: h.ect}
	if rf == nil {
		rf = h.rootDirFunc(root)
	}
	if err := fileutil.MkdirAll(rf(shardID, id), r.fs); err != nil {
		panic(fmt.Sprintf("rsmtwin: mkdir: %v", err))
	}
	smdir := fmt.Sprintf("%s/sm-%d", root, id)
	if err := fileutil.MkdirAll(smdir, r.fs); err != nil {
		panic(fmt.Sprintf("rsmtwin: mkdir: %v", err))
	}
	r.user = newUserSM(kind, r.fs, smdir+"/image")
	r.user.pad = h.pad
	var ism rsm.IStateMachine
	switch kind {
	case KindRegular:
		ism = rsm.NewInMemStateMachine(&regularSM{u: r.user})
	case KindConcurrent:
		ism = rsm.NewConcurrentStateMachine(&concurrentSM{u: r.user})
	case KindOnDisk:
		ism = rsm.NewOnDiskStateMachine(&diskSM{u: r.user})
	default:
		panic("rsmtwin: bad kind")
	}
	r.nsm = rsm.NewNativeSM(r.cfg, ism, nil)
	r.snap = dragonboat.NewVerifSnapshotter(shardID, id, rf, ldb, r.fs)
	r.node = &recNode{r: r, replicaID: id}
	r.sm = rsm.NewStateMachine(r.nsm, r.snap, r.cfg, r.node, r.fs)
	r.chunks = transport.NewChunk(func(mb pb.MessageBatch) {
		for _, m := range mb.Requests {
			if m.Type == pb.InstallSnapshot {
				r.recvd = append(r.recvd, m.Snapshot)
			}
		}
	}, func(uint64, uint64, uint64) {}, rf, deploymentID, r.fs)
	return r
}

const deploymentID = 0x51d

// fsHook is the simfs environment of a saver's disk: when armed, the next
// mutating file system operation first runs fn. The snapshotter touches the
// disk between the moment the state machine has prepared a snapshot and the
// moment the user state machine is asked to write it out, which is exactly
// where a concurrent state machine may be updated by the apply worker.
type fsHook struct{ fn func() }

func (e *fsHook) FSOp(d *simfs.Disk, op simfs.Op, path string, size int, index int64) (error, int) {
	// only the snapshotter's own operations (inside the temporary snapshot
	// directory) qualify: the state machine lock is not held there, while it
	// is held when an on disk state machine syncs
	if e.fn != nil && (op == simfs.OpCreate || op == simfs.OpMkdir) && strings.Contains(path, ".generating") {
		f := e.fn
		e.fn = nil
		f()
	}
	return nil, 0
}

// start does what a starting node does before the first entry is applied:
// directory clean up, snapshot record of the log store into the LogReader,
// Open of an on disk state machine, initial recovery.
func (r *replica) start() (pb.Snapshot, error) {
	h := r.h
	if err := r.snap.VerifProcessOrphans(); err != nil {
		return pb.Snapshot{}, fmt.Errorf("processOrphans: %w", err)
	}
	if _, err := r.snap.VerifReplay(); err != nil {
		return pb.Snapshot{}, fmt.Errorf("replay: %w", err)
	}
	if r.kind == KindOnDisk {
		idx, err := r.sm.OpenOnDiskStateMachine()
		if err != nil {
			return pb.Snapshot{}, fmt.Errorf("open: %w", err)
		}
		r.openIndex = idx
	}
	ss, err := r.sm.Recover(rsm.Task{Recover: true, Initial: true})
	if err != nil {
		return pb.Snapshot{}, fmt.Errorf("initial recover: %w", err)
	}
	if err := r.afterRecover(ss); err != nil {
		return pb.Snapshot{}, err
	}
	r.covered(ss)
	r.startedAt = r.sm.GetLastApplied()
	r.term = ss.Term
	h.ctx.Ev("start", r.id, uint64(r.kind), ss.Index, ss.Term, r.openIndex)
	return ss, nil
}

// covered notes how far the on disk state machine is after recovering from
// ss: commands up to there are not applied again.
func (r *replica) covered(ss pb.Snapshot) {
	if r.kind == KindOnDisk && ss.OnDiskIndex > r.openIndex {
		r.openIndex = ss.OnDiskIndex
	}
}

// afterRecover is the tail of node.recover.
func (r *replica) afterRecover(ss pb.Snapshot) error {
	if pb.IsEmptySnapshot(ss) {
		return nil
	}
	if r.kind == KindOnDisk {
		if err := r.sm.Sync(); err != nil {
			return fmt.Errorf("sync after recover: %w", err)
		}
		if err := r.snap.Shrink(ss.Index); err != nil {
			return fmt.Errorf("shrink: %w", err)
		}
	}
	if err := ss.Unref(); err != nil {
		return fmt.Errorf("unref: %w", err)
	}
	return nil
}

// feed hands tasks of committed entries to the state machine the way
// node.pushEntries + engine.processApplies do, then sorts what was reported
// into per entry outcomes. tasks are slices of consecutive entries; sync asks
// for a periodic sync task in front of the i-th task.
func (r *replica) feed(tasks [][]pb.Entry, syncBefore []bool) {
	before := r.sm.GetLastApplied()
	nCalls := len(r.node.calls)
	q := r.sm.TaskQ()
	var all []pb.Entry
	for i, t := range tasks {
		if syncBefore != nil && syncBefore[i] && r.kind == KindOnDisk {
			q.Add(rsm.Task{PeriodicSync: true})
		}
		q.Add(rsm.Task{Entries: t, ShardID: shardID, ReplicaID: r.id})
		all = append(all, t...)
	}
	for {
		t, err := r.sm.Handle(r.batch, r.apply)
		if err != nil {
			panic(fmt.Sprintf("rsmtwin: Handle failed: %v", err))
		}
		if t.IsSnapshotTask() {
			panic("rsmtwin: unexpected snapshot task")
		}
		if q.Size() == 0 {
			break
		}
	}
	r.collect(all, before, nCalls)
}

// collect matches callbacks and user SM calls against the entries fed.
func (r *replica) collect(all []pb.Entry, before uint64, nCalls int) {
	h := r.h
	calls := r.node.calls[nCalls:]
	ci := 0
	recs := r.user.rec[r.updSeen:]
	ri := 0
	for _, e := range all {
		if e.Index <= before {
			// covered by what was applied (or restored) before: must be skipped
			if _, ok := r.out[e.Index]; !ok {
				r.out[e.Index] = &outcome{}
			}
			continue
		}
		o := &outcome{Seen: true, IsCC: e.IsConfigChange(), Cover: r.openIndex}
		for ri < len(recs) && recs[ri].Index < e.Index {
			h.ctx.Violate("C08", "reapplied-covered-entry", "%s: user SM was handed index %d while entry %d was being applied (restored/applied index %d)",
				r.name, recs[ri].Index, e.Index, before)
			ri++
		}
		for ri < len(recs) && recs[ri].Index == e.Index {
			o.Updates++
			o.UpdRes = recs[ri].Res
			ri++
		}
		if ci < len(calls) {
			c := calls[ci]
			if o.IsCC && c.isCC {
				o.Called, o.Rejected, o.Member, o.UserHash = true, c.rejected, c.member, c.userHash
				if c.key != e.Key {
					h.ctx.Violate("C07", "cc-outcome-untruthful", "%s: config change at index %d reported with key %d, entry key %d", r.name, e.Index, c.key, e.Key)
				}
				ci++
			} else if !o.IsCC && !c.isCC && c.entry.Index == e.Index {
				o.Called, o.Result, o.Rejected, o.Ignored, o.Notify, o.UserHash = true, c.result, c.rejected, c.ignored, c.notify, c.userHash
				ci++
			}
		}
		if o.IsCC && !o.Called {
			h.ctx.Violate("C07", "cc-outcome-untruthful", "%s: no outcome reported for the config change at index %d", r.name, e.Index)
		}
		r.out[e.Index] = o
		if e.Term > r.term {
			r.term = e.Term
		}
	}
	for ; ri < len(recs); ri++ {
		h.ctx.Violate("C08", "reapplied-covered-entry", "%s: user SM was handed index %d which is not among the entries being applied (%d,...]",
			r.name, recs[ri].Index, before)
	}
	if ci != len(calls) {
		c := calls[ci]
		idx := c.entry.Index
		prop, orc := "C05", "twin-session-differs"
		if c.isCC {
			prop, orc = "C07", "cc-outcome-untruthful"
		} else if idx <= before {
			prop, orc = "C08", "reapplied-covered-entry"
		}
		h.ctx.Violate(prop, orc, "%s: %d unexpected reports from the state machine, first: cc=%t index=%d key=%d (applied before the batch: %d)",
			r.name, len(calls)-ci, c.isCC, idx, c.key, before)
	}
	r.updSeen = len(r.user.rec)
	if len(all) > 0 {
		last := all[len(all)-1].Index
		if got := r.sm.GetLastApplied(); last > before && got != last {
			h.ctx.Violate("C08", "snapshot-suffix-differs", "%s: applied index %d after applying entries up to %d", r.name, got, last)
		}
	}
	r.recordState()
}

// recordState notes the replicated state at the current applied index.
func (r *replica) recordState() stateAt {
	uh, err := r.sm.GetHash()
	if err != nil {
		panic(fmt.Sprintf("rsmtwin: GetHash: %v", err))
	}
	st := stateAt{User: uh, Session: r.sm.GetSessionHash(), Member: r.sm.GetMembershipHash(),
		Full: r.sm.GetMembership(), Term: r.term, UserApplied: r.user.st.applied}
	r.states[r.sm.GetLastApplied()] = st
	return st
}

// save takes a snapshot the way node.doSave does. ok=false means the request
// was refused for a documented reason (nothing new to save).
func (r *replica) save(req rsm.SSRequest) (ss pb.Snapshot, ok bool, err error) {
	ss, _, err = r.sm.Save(req)
	if err != nil {
		if err == raft.ErrSnapshotOutOfDate {
			return pb.Snapshot{}, false, nil
		}
		return pb.Snapshot{}, false, err
	}
	if err := r.snap.Commit(ss, req); err != nil {
		return pb.Snapshot{}, false, fmt.Errorf("commit: %w", err)
	}
	if req.Exported() {
		return ss, true, nil
	}
	if !ss.Validate(r.fs) {
		return ss, false, fmt.Errorf("generated snapshot record does not validate: %+v", ss)
	}
	if err := r.snap.VerifCreated(ss); err != nil {
		return ss, false, fmt.Errorf("create snapshot: %w", err)
	}
	return ss, true, nil
}

// install is what a replica does with a snapshot received from another one:
// record it (step worker), then recover from it (snapshot worker).
func (r *replica) install(ss pb.Snapshot) (pb.Snapshot, error) {
	if err := r.snap.VerifInstalled(ss); err != nil {
		return pb.Snapshot{}, fmt.Errorf("install: %w", err)
	}
	got, err := r.sm.Recover(rsm.Task{Recover: true, Index: ss.Index})
	if err != nil {
		return pb.Snapshot{}, err
	}
	if err := r.afterRecover(got); err != nil {
		return pb.Snapshot{}, err
	}
	r.term = got.Term
	r.updSeen = len(r.user.rec)
	r.covered(got)
	return got, nil
}

// sendFileSnapshot moves the snapshot ss of r to the replica to through the
// shipped sender side splitting and the shipped receiving side chunk tracker.
func (r *replica) sendFileSnapshot(ss pb.Snapshot, to *replica, chunkSize uint64) (pb.Snapshot, error) {
	transport.VerifSetSnapshotChunkSize(chunkSize)
	defer transport.VerifSetSnapshotChunkSize(settings.SnapshotChunkSize)
	m := pb.Message{Type: pb.InstallSnapshot, From: r.id, To: to.id, ShardID: shardID, Snapshot: ss}
	chunks, err := transport.VerifSplitSnapshotMessage(m, r.fs)
	if err != nil {
		return pb.Snapshot{}, err
	}
	n := len(to.recvd)
	for _, c := range chunks {
		c.DeploymentId = deploymentID
		data, err := transport.VerifLoadChunkData(c, r.fs)
		if err != nil {
			return pb.Snapshot{}, err
		}
		c.Data = data
		if !to.chunks.Add(c) {
			return pb.Snapshot{}, fmt.Errorf("chunk %d/%d refused by the receiver", c.ChunkId, c.ChunkCount)
		}
	}
	r.h.ctx.Count("ev.file_chunks", int64(len(chunks)))
	if len(to.recvd) != n+1 {
		return pb.Snapshot{}, fmt.Errorf("receiver produced %d snapshots out of %d chunks", len(to.recvd)-n, len(chunks))
	}
	return to.recvd[n], nil
}

// sink is the pb.IChunkSink handed to StateMachine.Stream: chunks go straight
// into the receiving replica's chunk tracker.
type sink struct {
	to     *replica
	n      int
	failed bool
	closed bool
}

func (s *sink) Receive(c pb.Chunk) (bool, bool) {
	c.DeploymentId = deploymentID
	s.n++
	if !s.to.chunks.Add(c) {
		s.failed = true
		return false, false
	}
	return true, false
}
func (s *sink) Close() error        { s.closed = true; return nil }
func (s *sink) ShardID() uint64     { return shardID }
func (s *sink) ToReplicaID() uint64 { return s.to.id }

// streamTo streams the current state of r to the replica to.
func (r *replica) streamTo(to *replica) (pb.Snapshot, error) {
	n := len(to.recvd)
	sk := &sink{to: to}
	if err := r.sm.Stream(sk); err != nil {
		return pb.Snapshot{}, err
	}
	r.h.ctx.Count("ev.stream_chunks", int64(sk.n))
	if sk.failed || len(to.recvd) != n+1 {
		return pb.Snapshot{}, fmt.Errorf("receiver produced %d snapshots out of %d streamed chunks (failed=%t)", len(to.recvd)-n, sk.n, sk.failed)
	}
	return to.recvd[n], nil
}

package rsmtwin

import (
	"github.com/lni/dragonboat/v4/raftio"
	pb "github.com/lni/dragonboat/v4/raftpb"
)

// memLogDB is the part of a log store the snapshotter needs: the most recent
// snapshot record per replica. It is durable by fiat (it survives the
// simulated restarts and disk crashes of the replica using it). Everything
// else is outside of what this simulator exercises and panics.
type memLogDB struct {
	ss    map[raftio.NodeInfo]pb.Snapshot
	saves int
}

var _ raftio.ILogDB = (*memLogDB)(nil)

func newMemLogDB() *memLogDB { return &memLogDB{ss: map[raftio.NodeInfo]pb.Snapshot{}} }

func (m *memLogDB) Name() string         { return "rsmtwin-mem" }
func (m *memLogDB) Close() error         { return nil }
func (m *memLogDB) BinaryFormat() uint32 { return raftio.PlainLogDBBinVersion }
func (m *memLogDB) ListNodeInfo() ([]raftio.NodeInfo, error) {
	panic("rsmtwin: memLogDB.ListNodeInfo not supported")
}
func (m *memLogDB) SaveBootstrapInfo(uint64, uint64, pb.Bootstrap) error {
	panic("rsmtwin: memLogDB.SaveBootstrapInfo not supported")
}
func (m *memLogDB) GetBootstrapInfo(uint64, uint64) (pb.Bootstrap, error) {
	panic("rsmtwin: memLogDB.GetBootstrapInfo not supported")
}
func (m *memLogDB) SaveRaftState([]pb.Update, uint64) error {
	panic("rsmtwin: memLogDB.SaveRaftState not supported")
}
func (m *memLogDB) IterateEntries([]pb.Entry, uint64, uint64, uint64, uint64, uint64, uint64) ([]pb.Entry, uint64, error) {
	panic("rsmtwin: memLogDB.IterateEntries not supported")
}
func (m *memLogDB) ReadRaftState(uint64, uint64, uint64) (raftio.RaftState, error) {
	panic("rsmtwin: memLogDB.ReadRaftState not supported")
}
func (m *memLogDB) RemoveEntriesTo(uint64, uint64, uint64) error {
	panic("rsmtwin: memLogDB.RemoveEntriesTo not supported")
}
func (m *memLogDB) CompactEntriesTo(uint64, uint64, uint64) (<-chan struct{}, error) {
	panic("rsmtwin: memLogDB.CompactEntriesTo not supported")
}
func (m *memLogDB) RemoveNodeData(uint64, uint64) error {
	panic("rsmtwin: memLogDB.RemoveNodeData not supported")
}
func (m *memLogDB) ImportSnapshot(pb.Snapshot, uint64) error {
	panic("rsmtwin: memLogDB.ImportSnapshot not supported")
}

// SaveSnapshots keeps the most recent snapshot record of each replica.
func (m *memLogDB) SaveSnapshots(uds []pb.Update) error {
	for _, ud := range uds {
		if pb.IsEmptySnapshot(ud.Snapshot) {
			continue
		}
		k := raftio.NodeInfo{ShardID: ud.ShardID, ReplicaID: ud.ReplicaID}
		if cur, ok := m.ss[k]; ok && cur.Index >= ud.Snapshot.Index {
			continue
		}
		// keep a marshalled-and-back copy, as a real store would
		var c pb.Snapshot
		pb.MustUnmarshal(&c, pb.MustMarshal(&ud.Snapshot))
		m.ss[k] = c
		m.saves++
	}
	return nil
}

// GetSnapshot returns the most recent snapshot record.
func (m *memLogDB) GetSnapshot(shardID uint64, replicaID uint64) (pb.Snapshot, error) {
	return m.ss[raftio.NodeInfo{ShardID: shardID, ReplicaID: replicaID}], nil
}

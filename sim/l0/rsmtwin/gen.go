package rsmtwin

import (
	"fmt"

	"github.com/lni/dragonboat/v4/client"
	"github.com/lni/dragonboat/v4/internal/rsm"
	pb "github.com/lni/dragonboat/v4/raftpb"
	"github.com/lni/dragonboat/v4/verifsim/choice"
)

// entry kinds of the synthetic committed stream
const (
	ekBootstrap = iota // initial membership (what raft's bootstrap appends)
	ekEmpty            // the blank entry of a new leader
	ekMeta             // metadata entry (what a witness is sent instead of a payload)
	ekRegister
	ekUnregister
	ekPropose // proposal of a regular client session
	ekNoop    // proposal of a NO-OP session
	ekCC
)

var ekNames = []string{"bootstrap", "empty", "meta", "register", "unregister", "propose", "noop", "cc"}

// entInfo is what the generator knows about an entry (never what the code
// under test did with it).
type entInfo struct {
	kind      int
	cid       uint64
	series    uint64
	responded uint64
	wid       uint64 // unique id of the write carried (0 = no parsable payload)
	dupOf     int    // position of the entry this one is a copy of, -1 otherwise
	retry     bool   // an earlier entry carries the same (client, series)
	cc        pb.ConfigChange
	// filled in while the reference replica applies the stream
	inc int // incarnation of the client session the entry belongs to
}

// auxSource adapts the run constant identity randomness to goutils'
// random.Source (client ids are identities, not decisions).
type auxSource struct{ *choice.AuxRand }

func (a auxSource) Int() int { return int(a.Uint64() >> 1) }

// genClient is a simulated user of the client session API. It owns a real
// client.Session and only ever uses the documented protocol on it.
type genClient struct {
	s          *client.Session
	registered bool // a register entry has been issued
	closed     bool // an unregister entry has been issued
	proposed   map[uint64]uint64
	never      bool // never registers, proposes anyway
}

type genState struct {
	h       *harness
	src     *choice.Source
	aux     auxSource
	term    uint64
	key     uint64
	wid     uint64
	clients []*genClient
	// rough picture of the membership, only used to bias config changes
	// towards interesting ones
	gm       *guessMember
	lastCC   uint64   // index of the most recent config change entry
	ccSeen   []uint64 // indexes of all config change entries
	sessEnts []int    // positions of all session managed entries so far
}

func (g *genState) nextKey() uint64 { g.key++; return g.key }
func (g *genState) nextWid() uint64 { g.wid++; return g.wid }

func (g *genState) push(e pb.Entry, inf entInfo) int {
	h := g.h
	e.Index = uint64(len(h.ents) + 1)
	e.Term = g.term
	h.ents = append(h.ents, e)
	h.info = append(h.info, inf)
	pos := len(h.ents) - 1
	if inf.kind == ekRegister || inf.kind == ekUnregister || inf.kind == ekPropose {
		g.sessEnts = append(g.sessEnts, pos)
	}
	return pos
}

func (g *genState) payload(wid uint64) (pb.EntryType, []byte) {
	h := g.h
	key := byte(g.src.Intn(4))
	pad := 0
	if g.src.Chance(1, 6) {
		pad = g.src.Range(1, 300)
	}
	cmd := makeCmd(key, wid, pad)
	return pb.EncodedEntry, rsm.GetEncoded(h.ect, cmd, nil)
}

// sessionEntry builds the entry pendingProposal.propose builds for a session.
func (g *genState) sessionEntry(s *client.Session, cmd []byte, typ pb.EntryType) pb.Entry {
	e := pb.Entry{Key: g.nextKey(), ClientID: s.ClientID, SeriesID: s.SeriesID, RespondedTo: s.RespondedTo}
	if len(cmd) == 0 {
		e.Type = pb.ApplicationEntry
	} else {
		e.Type = typ
		e.Cmd = cmd
	}
	return e
}

func (g *genState) newClient(never bool) *genClient {
	c := &genClient{s: client.NewSession(shardID, g.aux), proposed: map[uint64]uint64{}, never: never}
	if never {
		// a client that skipped registration and went straight to proposing
		c.s.PrepareForPropose()
	}
	g.clients = append(g.clients, c)
	return c
}

func (g *genState) register(c *genClient) {
	c.s.PrepareForRegister()
	e := g.sessionEntry(c.s, nil, pb.ApplicationEntry)
	g.push(e, entInfo{kind: ekRegister, cid: e.ClientID, series: e.SeriesID, responded: e.RespondedTo, dupOf: -1, retry: c.registered})
	c.s.PrepareForPropose()
	c.registered = true
	c.closed = false
}

func (g *genState) unregister(c *genClient) {
	series, resp := c.s.SeriesID, c.s.RespondedTo
	c.s.PrepareForUnregister()
	e := g.sessionEntry(c.s, nil, pb.ApplicationEntry)
	g.push(e, entInfo{kind: ekUnregister, cid: e.ClientID, series: e.SeriesID, responded: e.RespondedTo, dupOf: -1, retry: c.closed})
	// the session object is dead for the API; the simulated user keeps using
	// it anyway (proposals of an unregistered session)
	c.s.SeriesID, c.s.RespondedTo = series, resp
	c.closed = true
}

func (g *genState) propose(c *genClient) {
	series := c.s.SeriesID
	wid, retry := c.proposed[series]
	if !retry || g.src.Chance(1, 12) {
		// first attempt, or (rarely) a retry that carries another payload
		wid = g.nextWid()
	}
	var cmd []byte
	typ := pb.ApplicationEntry
	if g.src.Chance(1, 16) {
		// a proposal without payload
		wid = 0
	} else {
		typ, cmd = g.payload(wid)
	}
	if !retry {
		c.proposed[series] = wid
	}
	e := g.sessionEntry(c.s, cmd, typ)
	g.push(e, entInfo{kind: ekPropose, cid: e.ClientID, series: e.SeriesID, responded: e.RespondedTo, wid: wid, dupOf: -1, retry: retry})
}

func (g *genState) noop() {
	s := client.NewNoOPSession(shardID, g.aux)
	wid := g.nextWid()
	typ, cmd := g.payload(wid)
	e := g.sessionEntry(s, cmd, typ)
	g.push(e, entInfo{kind: ekNoop, cid: e.ClientID, wid: wid, dupOf: -1})
}

// duplicate places a copy of an earlier session managed entry at the end of
// the log (a retransmission / a retry that was slow to commit).
func (g *genState) duplicate() bool {
	if len(g.sessEnts) == 0 {
		return false
	}
	h := g.h
	// value 0 = the most recent one
	pos := g.sessEnts[len(g.sessEnts)-1-g.src.Intn(len(g.sessEnts))]
	e := h.ents[pos]
	inf := h.info[pos]
	if inf.dupOf < 0 {
		inf.dupOf = pos
	}
	inf.retry = true
	if g.src.Chance(1, 2) {
		e.Key = g.nextKey()
	}
	g.push(e, inf)
	return true
}

func (g *genState) empty(meta bool) {
	if meta {
		g.push(pb.Entry{Type: pb.MetadataEntry}, entInfo{kind: ekMeta, dupOf: -1})
		return
	}
	g.push(pb.Entry{Type: pb.ApplicationEntry}, entInfo{kind: ekEmpty, dupOf: -1})
}

func (g *genState) newTerm() {
	g.term += uint64(g.src.Range(1, 3))
	g.empty(false)
}

func addrOf(id uint64) string { return fmt.Sprintf("host%d:%d", id, 9000+id) }

// configChange issues one membership change request.
func (g *genState) configChange() {
	h := g.h
	src := g.src
	gm := g.gm
	var cc pb.ConfigChange
	maxID := uint64(h.idPool)
	pick := func() uint64 { return uint64(src.Intn(int(maxID))) + 1 }
	switch src.Weighted([]int{5, 4, 3, 2, 3}) {
	case 0: // add a voting member
		cc.Type = pb.AddNode
		cc.ReplicaID = pick()
	case 1:
		cc.Type = pb.RemoveNode
		// prefer current members
		if ids := gm.ids(); len(ids) > 0 && !src.Chance(1, 4) {
			cc.ReplicaID = ids[src.Intn(len(ids))]
		} else {
			cc.ReplicaID = pick()
		}
	case 2:
		cc.Type = pb.AddNonVoting
		cc.ReplicaID = pick()
	case 3:
		cc.Type = pb.AddWitness
		cc.ReplicaID = pick()
	case 4: // promotion of a non voting member
		cc.Type = pb.AddNode
		if ids := gm.nonVotingIDs(); len(ids) > 0 {
			cc.ReplicaID = ids[src.Intn(len(ids))]
		} else {
			cc.ReplicaID = pick()
		}
	}
	if cc.Type != pb.RemoveNode {
		switch src.Weighted([]int{10, 2, 2}) {
		case 0:
			cc.Address = addrOf(cc.ReplicaID)
			if a, ok := gm.addr[cc.ReplicaID]; ok {
				cc.Address = a
			}
		case 1: // the address of some other replica id
			cc.Address = addrOf(pick())
		case 2: // a fresh address
			cc.Address = fmt.Sprintf("fresh%d:1", len(h.ents))
		}
	}
	// the id the request is based on: the caller read it from the membership
	// some time ago
	switch src.Weighted([]int{12, 3, 2, 1, 1}) {
	case 0:
		cc.ConfigChangeId = gm.ccid
	case 1:
		cc.ConfigChangeId = g.lastCC
	case 2:
		if len(g.ccSeen) > 0 {
			cc.ConfigChangeId = g.ccSeen[len(g.ccSeen)-1-src.Intn(len(g.ccSeen))]
		}
	case 3:
		cc.ConfigChangeId = 0
	case 4:
		cc.ConfigChangeId = uint64(len(h.ents)) + uint64(src.Intn(5))
	}
	e := pb.Entry{Type: pb.ConfigChangeEntry, Key: g.nextKey(), Cmd: pb.MustMarshal(&cc)}
	pos := g.push(e, entInfo{kind: ekCC, cc: cc, dupOf: -1})
	idx := uint64(pos + 1)
	gm.guess(cc, idx, h.ordered)
	g.lastCC = idx
	g.ccSeen = append(g.ccSeen, idx)
}

// guessMember is the generator's rough idea of the membership. It only biases
// the requests; no oracle looks at it.
type guessMember struct {
	kind    map[uint64]int // 1 voting 2 non voting 3 witness
	addr    map[uint64]string
	removed map[uint64]bool
	ccid    uint64
}

func newGuessMember() *guessMember {
	return &guessMember{kind: map[uint64]int{}, addr: map[uint64]string{}, removed: map[uint64]bool{}}
}

func (m *guessMember) ids() []uint64 {
	var out []uint64
	for id := uint64(1); id <= 64; id++ {
		if m.kind[id] != 0 {
			out = append(out, id)
		}
	}
	return out
}

func (m *guessMember) nonVotingIDs() []uint64 {
	var out []uint64
	for id := uint64(1); id <= 64; id++ {
		if m.kind[id] == 2 {
			out = append(out, id)
		}
	}
	return out
}

func (m *guessMember) voters() int {
	n := 0
	for _, k := range m.kind {
		if k == 1 {
			n++
		}
	}
	return n
}

func (m *guessMember) guess(cc pb.ConfigChange, index uint64, ordered bool) {
	if ordered && !cc.Initialize && cc.ConfigChangeId != m.ccid {
		return
	}
	want := map[pb.ConfigChangeType]int{pb.AddNode: 1, pb.AddNonVoting: 2, pb.AddWitness: 3}[cc.Type]
	if cc.Type == pb.RemoveNode {
		if m.kind[cc.ReplicaID] == 1 && m.voters() == 1 {
			return
		}
		delete(m.kind, cc.ReplicaID)
		delete(m.addr, cc.ReplicaID)
		m.removed[cc.ReplicaID] = true
		m.ccid = index
		return
	}
	if m.removed[cc.ReplicaID] {
		return
	}
	cur := m.kind[cc.ReplicaID]
	if cur != 0 {
		if !(cur == 2 && want == 1 && m.addr[cc.ReplicaID] == cc.Address) {
			return
		}
	} else {
		for _, a := range m.addr {
			if a == cc.Address {
				return
			}
		}
	}
	m.kind[cc.ReplicaID] = want
	m.addr[cc.ReplicaID] = cc.Address
	m.ccid = index
}

// genStream draws the whole committed stream from the tape.
func (h *harness) genStream(n int) {
	src := h.src
	g := &genState{h: h, src: src, aux: auxSource{choice.NewAuxRand(src.Aux)}, term: 1, gm: newGuessMember()}
	// initial members, exactly what raft's bootstrap() appends
	nBoot := src.Range(1, 3)
	if h.focus == "membership" {
		nBoot = 1 + src.Intn(3)
	}
	for i := 1; i <= nBoot; i++ {
		cc := pb.ConfigChange{Type: pb.AddNode, ReplicaID: uint64(i), Initialize: true, Address: addrOf(uint64(i))}
		pos := g.push(pb.Entry{Type: pb.ConfigChangeEntry, Cmd: pb.MustMarshal(&cc)}, entInfo{kind: ekBootstrap, cc: cc, dupOf: -1})
		g.gm.guess(cc, uint64(pos+1), h.ordered)
		g.lastCC = uint64(pos + 1)
		g.ccSeen = append(g.ccSeen, g.lastCC)
	}
	h.nBoot = nBoot
	g.newTerm()

	// operation weights by focus:
	// propose, complete, duplicate, register, unregister, never-registered,
	// noop, empty/term, config change
	var w []int
	sessions := h.kind != KindOnDisk
	switch h.focus {
	case "sessions":
		w = []int{34, 16, 13, 6, 3, 2, 4, 3, 1}
	case "membership":
		w = []int{6, 3, 2, 2, 1, 0, 4, 3, 30}
	default: // snapshot
		w = []int{14, 8, 5, 5, 2, 1, 8, 4, 5}
	}
	if !sessions {
		// client sessions are not supported by on disk state machines: NO-OP
		// sessions only
		w[6] += w[0]
		w[0], w[1], w[2], w[3], w[4], w[5] = 0, 0, 0, 0, 0, 0
	}
	nClients := 0
	if sessions {
		nClients = int(h.lruCap) + src.Range(1, 4)
		if h.focus != "sessions" {
			nClients = 2 + src.Intn(4)
		}
	}
	for i := 0; i < nClients; i++ {
		g.newClient(false)
	}
	var never *genClient
	pickClient := func(pred func(*genClient) bool) *genClient {
		var cs []*genClient
		for _, c := range g.clients {
			if !c.never && pred(c) {
				cs = append(cs, c)
			}
		}
		if len(cs) == 0 {
			return nil
		}
		return cs[src.Intn(len(cs))]
	}
	for guard := 0; len(h.ents) < n && guard < 20*n; guard++ {
		switch src.Weighted(w) {
		case 0: // propose (a retry if the current series was proposed before)
			c := pickClient(func(c *genClient) bool { return c.registered })
			if c == nil {
				if c = pickClient(func(c *genClient) bool { return !c.registered }); c == nil {
					c = g.newClient(false)
				}
				g.register(c)
				continue
			}
			g.propose(c)
		case 1: // the client is done with the current proposal (completed, or gave up)
			c := pickClient(func(c *genClient) bool { _, ok := c.proposed[c.s.SeriesID]; return c.registered && ok })
			if c != nil {
				c.s.ProposalCompleted()
				h.ctx.Ev("ack", c.s.ClientID, c.s.RespondedTo)
			}
		case 2:
			g.duplicate()
		case 3:
			// a session object is registered once (registering an id again
			// only happens through duplicated register entries)
			c := pickClient(func(c *genClient) bool { return !c.registered })
			if c == nil || src.Chance(1, 8) {
				c = g.newClient(false)
			}
			g.register(c)
		case 4:
			c := pickClient(func(c *genClient) bool { return c.registered && !c.closed })
			if c == nil {
				c = pickClient(func(c *genClient) bool { return true })
			}
			if c != nil {
				g.unregister(c)
			}
		case 5:
			if never == nil {
				never = g.newClient(true)
			}
			g.propose(never)
			if src.Chance(1, 3) {
				never.s.ProposalCompleted()
			}
		case 6:
			// NO-OP proposals come in runs (they are applied in batches by
			// concurrent state machines)
			for k := src.Range(1, 4); k > 0 && len(h.ents) < n; k-- {
				g.noop()
			}
		case 7:
			switch src.Intn(3) {
			case 0:
				g.empty(false)
			case 1:
				g.newTerm()
			case 2:
				g.empty(true)
			}
		case 8:
			g.configChange()
		}
	}
	for len(h.ents) < n {
		g.noop()
	}
}

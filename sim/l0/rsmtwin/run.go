package rsmtwin

import (
	"fmt"
	"strconv"

	"github.com/lni/dragonboat/v4/config"
	"github.com/lni/dragonboat/v4/internal/rsm"
	"github.com/lni/dragonboat/v4/internal/settings"
	pb "github.com/lni/dragonboat/v4/raftpb"
	"github.com/lni/dragonboat/v4/verifsim/choice"
	"github.com/lni/dragonboat/v4/verifsim/runner"
	"github.com/lni/dragonboat/v4/verifsim/simfs"
)

// Rule is the scenario's case generation / non-triviality / distinctness rule.
const Rule = "one run = one tape drawn committed entry stream (session register/unregister/proposals/retries/late duplicates of more clients " +
	"than the lowered LRU bound, NO-OP proposals, membership changes valid and invalid, blank/metadata entries, term changes) applied to a reference " +
	"replica one entry at a time and to twins that are snapshotted, restarted (optionally after a disk crash), fed by a file snapshot through the " +
	"real chunk path, by a streamed snapshot (on disk SM) or by an exported snapshot at tape chosen (enum=1: all) cut indexes; " +
	"non-trivial = by focus: sessions: >=1 applied session proposal, >=1 retry answered from the session table or late duplicate, >=1 twin rebuilt from a snapshot; " +
	"membership: >=1 applied and >=1 rejected non-bootstrap change, >=1 twin rebuilt from a snapshot; snapshot: >=1 twin rebuilt from a snapshot that applied a " +
	"suffix and >=3 user commands; distinct = distinct (focus, kind, compression, final user/session/membership hashes, cut set) signature"

var origLRU = rsm.LRUMaxSessionCount

type harness struct {
	ctx     *runner.Ctx
	src     *choice.Source
	focus   string
	enum    bool
	kind    int
	ordered bool
	sct     config.CompressionType
	ect     config.CompressionType
	pad     int
	lruCap  uint64
	idPool  int

	ents  []pb.Entry
	info  []entInfo
	nBoot int

	ref        *replica // applies the whole stream one entry at a time
	model      *refSession
	rm         *refMember
	prevHash   uint64
	prevMember pb.Membership
	appliedAt  map[seriesKey]uint64

	// what happened (for the non triviality rule and the signature)
	nTwins, nTwinSuffix, nUserCmds int
	nExports                       int
	noHash                         bool // do not compare session table hashes (behaviour only)
	nRetryAfterRestore             int
	sig                            uint64
}

func (h *harness) mix(vs ...uint64) {
	for _, v := range vs {
		h.sig = (h.sig ^ v) * 1099511628211
		h.sig ^= h.sig >> 29
	}
}

// viol reports one finding under every property it speaks for.
func (h *harness) viol(props []string, oracles []string, format string, a ...interface{}) {
	for i, p := range props {
		h.ctx.Violate(p, oracles[i], format, a...)
	}
}

func propertyOf(oracle string) string {
	switch oracle {
	case "membership-invariant", "cc-outcome-untruthful":
		return "C07"
	case "snapshot-suffix-differs", "reapplied-covered-entry":
		return "C08"
	}
	return "C05"
}

func (h *harness) verdicts(vs []verdict, where string) {
	for _, v := range vs {
		h.ctx.Violate(propertyOf(v.oracle), v.oracle, "%s: %s", where, v.msg)
	}
}

func atoi(s string, def int) int {
	v, err := strconv.Atoi(s)
	if err != nil {
		return def
	}
	return v
}

// Run is the scenario entry point.
func Run(ctx *runner.Ctx) *runner.Result {
	h := &harness{ctx: ctx, src: ctx.Src, sig: 1469598103934665603, appliedAt: map[seriesKey]uint64{}}
	src := h.src
	h.focus = ctx.Param("focus", "sessions")
	switch h.focus {
	case "sessions", "membership", "snapshot":
	default:
		panic("rsmtwin: focus must be sessions, membership or snapshot")
	}
	h.enum = ctx.Param("enum", "0") == "1"
	h.noHash = ctx.Param("nohash", "0") == "1"
	runIdx := atoi(ctx.Param("_i", "-1"), -1)

	// ---- configuration
	kinds := []int{KindRegular, KindConcurrent, KindOnDisk}
	switch h.focus {
	case "sessions":
		h.kind = kinds[src.Intn(2)] // client sessions are not supported by on disk SMs
	default:
		h.kind = kinds[src.Intn(3)]
	}
	h.sct = config.NoCompression
	if src.Chance(1, 2) {
		h.sct = config.Snappy
	}
	h.ect = config.NoCompression
	if src.Chance(1, 3) {
		h.ect = config.Snappy
	}
	if h.enum && runIdx >= 0 {
		// consecutive runs walk through kind x snapshot compression x entry compression
		h.kind = kinds[runIdx%3]
		h.sct = []config.CompressionType{config.NoCompression, config.Snappy}[(runIdx/3)%2]
		h.ect = []config.CompressionType{config.NoCompression, config.Snappy}[(runIdx/6)%2]
	}
	switch ctx.Param("kind", "") {
	case "regular":
		h.kind = KindRegular
	case "concurrent":
		h.kind = KindConcurrent
	case "ondisk":
		h.kind = KindOnDisk
	}
	h.ordered = src.Intn(3) > 0
	h.lruCap = uint64([]int{4, 3, 2, 1, 6, 8}[src.Intn(6)])
	h.idPool = 5 + src.Intn(4)
	switch src.Weighted([]int{40, 16, 6, 1}) {
	case 1:
		h.pad = src.Range(1, 2000)
	case 2:
		h.pad = src.Range(2000, 100000)
	case 3:
		if h.focus == "snapshot" && !h.enum {
			// more than one block of the snapshot file format
			h.pad = int(settings.SnapshotChunkSize) + src.Range(1, 70000)
			ctx.Count("probe.multi_block_image", 1)
		}
	}
	var n int
	switch {
	case h.enum:
		n = src.Range(10, 26)
	case h.focus == "sessions":
		n = src.Range(40, 180)
	case h.focus == "membership":
		n = src.Range(25, 110)
	default:
		n = src.Range(20, 110)
	}
	if v := atoi(ctx.Param("n", ""), 0); v > 0 {
		n = v
	}
	rsm.LRUMaxSessionCount = h.lruCap
	defer func() { rsm.LRUMaxSessionCount = origLRU }()
	ctx.Ev("config", uint64(h.kind), uint64(h.sct), uint64(h.ect), b2u(h.ordered), h.lruCap, uint64(h.pad), uint64(n))
	h.mix(uint64(len(h.focus)), uint64(h.kind), uint64(h.sct), uint64(h.ect), b2u(h.ordered))

	// ---- the committed stream
	h.genStream(n)
	n = len(h.ents)
	for i := range h.ents {
		e := &h.ents[i]
		ctx.Ev("gen", e.Index, e.Term, uint64(h.info[i].kind), e.ClientID, e.SeriesID, e.RespondedTo, e.Key, uint64(len(e.Cmd)))
	}

	// ---- the reference replica: everything, one entry at a time
	h.model = newRefSession(int(h.lruCap))
	h.rm = newRefMember(h.ordered)
	h.ref = h.newReplica("full", 1, h.kind, simfs.NewDisk("full", nil), newMemLogDB(), "/data")
	if _, err := h.ref.start(); err != nil {
		panic(fmt.Sprintf("rsmtwin: start of an empty replica failed: %v", err))
	}
	h.ref.recordState()
	h.prevHash = h.ref.states[0].User
	h.prevMember = h.ref.states[0].Full
	for i := range h.ents {
		h.ref.feed([][]pb.Entry{{h.ents[i]}}, nil)
		h.checkEntry(i)
	}
	fin := h.ref.states[uint64(n)]
	ctx.State(fin.User ^ fin.Session*3 ^ fin.Member*7)
	h.mix(fin.User, fin.Session, fin.Member)
	h.nUserCmds = len(h.ref.user.rec)

	// ---- twins
	if !ctx.Violated() {
		h.twins()
	}

	// ---- probes
	m := h.model
	ctx.Count("probe.lru_overflow", int64(m.nOverflow))
	ctx.Count("probe.eviction_observed", int64(m.nEvicted))
	ctx.Count("probe.retry_answered_from_table", int64(m.nCachedRetry))
	ctx.Count("probe.late_duplicate_after_ack", int64(m.nAckedDup))
	ctx.Count("probe.unknown_session_rejected", int64(m.nUnknownRejected))
	ctx.Count("probe.session_proposal_applied", int64(m.nApplied))
	ctx.Count("probe.retry_after_snapshot_restore", int64(h.nRetryAfterRestore))
	ctx.Count("probe.cc_applied", int64(h.rm.nAccepted-h.nBoot))
	ctx.Count("probe.cc_rejected", int64(h.rm.nRejected))
	for k, v := range h.rm.byRule {
		ctx.Count("probe.cc_rejected."+k, int64(v))
	}
	ctx.Count("ev.entries", int64(n))
	ctx.Count("ev.twins", int64(h.nTwins))

	nontrivial := false
	switch h.focus {
	case "sessions":
		nontrivial = m.nApplied >= 1 && m.nCachedRetry+m.nAckedDup >= 1 && h.nTwins >= 1
	case "membership":
		nontrivial = h.rm.nAccepted-h.nBoot >= 1 && h.rm.nRejected >= 1 && h.nTwins >= 1
	default:
		nontrivial = h.nTwinSuffix >= 1 && h.nUserCmds >= 3
	}
	sum := fmt.Sprintf("focus=%s kind=%s sct=%d ect=%d ordered=%t lru=%d n=%d twins=%d cmds=%d cc=%d/%d evict=%d retry=%d ackdup=%d",
		h.focus, kindName(h.kind), h.sct, h.ect, h.ordered, h.lruCap, n, h.nTwins, h.nUserCmds,
		h.rm.nAccepted-h.nBoot, h.rm.nRejected, m.nEvicted, m.nCachedRetry, m.nAckedDup)
	return ctx.Finish(nontrivial, h.sig, int64(n), sum)
}

func b2u(b bool) uint64 {
	if b {
		return 1
	}
	return 0
}

// checkEntry runs the reference models over the outcome of entry i on the
// reference replica.
func (h *harness) checkEntry(i int) {
	ctx := h.ctx
	e := h.ents[i]
	inf := &h.info[i]
	o := h.ref.out[e.Index]
	st := h.ref.states[e.Index]
	hashChanged := st.User != h.prevHash
	where := fmt.Sprintf("full replica, index %d (%s)", e.Index, ekNames[inf.kind])
	ctx.Ev("ent", e.Index, uint64(inf.kind), b2u(o.Called), b2u(o.Rejected), b2u(o.Ignored), o.Result.Value, uint64(o.Updates), st.User, st.Session, st.Member)
	ctx.Tracef("%s client=%x series=%d responded=%d retry=%t -> %s", where, e.ClientID, e.SeriesID, e.RespondedTo, inf.retry, o)
	switch inf.kind {
	case ekBootstrap, ekCC:
		if o.Called {
			vs := h.rm.check(e.Index, inf.cc, o.Rejected, h.prevMember, o.Member)
			h.verdicts(vs, where)
			if o.Rejected {
				h.rm.byRule[classifyRejection(h.ordered, inf.cc, h.prevMember, h.rm.everRemoved)]++
			}
			if !sameMembership(o.Member, st.Full) {
				ctx.Violate("C07", "cc-outcome-untruthful", "%s: membership %s when the outcome was reported, %s after the entry", where, memberStr(o.Member), memberStr(st.Full))
			}
		}
		if o.Updates != 0 || hashChanged {
			ctx.Violate("C07", "cc-outcome-untruthful", "%s: a config change reached the user state machine", where)
		}
	case ekRegister:
		h.verdicts(h.model.register(e.ClientID, o), where)
		inf.inc = h.model.incs[e.ClientID]
	case ekUnregister:
		h.verdicts(h.model.unregister(e.ClientID, o), where)
	case ekPropose:
		vs, inc := h.model.propose(e.ClientID, e.SeriesID, e.RespondedTo, o, hashChanged)
		h.verdicts(vs, where)
		inf.inc = inc
		if inc != 0 && o.Updates > 0 {
			k := seriesKey{e.ClientID, inc, e.SeriesID}
			if _, ok := h.appliedAt[k]; !ok {
				h.appliedAt[k] = e.Index
			}
		}
	case ekNoop:
		if o.Updates > 1 {
			ctx.Violate("C05", "dup-apply", "%s: a NO-OP session proposal was handed to the user state machine %d times", where, o.Updates)
		}
	case ekEmpty, ekMeta:
		if o.Updates != 0 || hashChanged {
			ctx.Violate("C05", "unknown-session-touched-sm", "%s: an entry without a command reached the user state machine", where)
		}
	}
	if !sameMembership(st.Full, h.prevMember) && inf.kind != ekCC && inf.kind != ekBootstrap {
		ctx.Violate("C07", "membership-invariant", "%s: the membership changed from %s to %s without a config change", where, memberStr(h.prevMember), memberStr(st.Full))
	}
	h.prevHash = st.User
	h.prevMember = st.Full
}

// ---------------------------------------------------------------------------
// feeding with tape chosen batching
// ---------------------------------------------------------------------------

// feedTo applies entries up to index `to` to r in tape chosen tasks and Handle
// calls; overlap>0 re-feeds that many entries the replica already covers in
// front (the way a restarted node is handed entries from its log).
func (h *harness) feedTo(r *replica, to uint64, overlap int) {
	src := h.src
	applied := r.sm.GetLastApplied()
	for applied < to {
		start := applied + 1
		if overlap > 0 {
			ov := uint64(overlap)
			if ov > applied {
				ov = applied
			}
			start -= ov
			h.ctx.Count("probe.covered_entries_refed", int64(ov))
			overlap = 0
		}
		nt := 1 + src.Weighted([]int{6, 2, 1})
		var tasks [][]pb.Entry
		var syncs []bool
		first := start
		for t := 0; t < nt && start <= to; t++ {
			sz := uint64(1 + src.Weighted([]int{4, 3, 2, 2, 1, 1, 1, 1}))
			end := start + sz - 1
			if end > to {
				end = to
			}
			tasks = append(tasks, append([]pb.Entry(nil), h.ents[start-1:end]...))
			syncs = append(syncs, r.kind == KindOnDisk && src.Chance(1, 6))
			start = end + 1
		}
		h.ctx.Ev("feed", r.id, first, start-1, uint64(len(tasks)))
		r.feed(tasks, syncs)
		applied = r.sm.GetLastApplied()
		if applied < first {
			panic("rsmtwin: no progress")
		}
	}
}

// ---------------------------------------------------------------------------
// twins
// ---------------------------------------------------------------------------

func (h *harness) twins() {
	src := h.src
	n := uint64(len(h.ents))
	// a twin that applies everything in tape chosen batches (no snapshot)
	b := h.newReplica("batched", 5, h.kind, simfs.NewDisk("batched", nil), newMemLogDB(), "/data")
	if _, err := b.start(); err != nil {
		panic(fmt.Sprintf("rsmtwin: start of an empty replica failed: %v", err))
	}
	h.feedTo(b, n, 0)
	h.compareTwin(b, 0)
	h.compareFinal(b)
	if b.user.batchMax > 1 {
		h.ctx.Count("probe.batched_update", 1)
	}
	lo := uint64(h.nBoot)
	if lo >= n {
		return
	}
	if h.enum {
		for c := lo; c <= n; c++ {
			h.lineage(fmt.Sprintf("cut%d", c), []uint64{c}, true)
			if h.ctx.Violated() {
				return
			}
		}
		return
	}
	nl := 1 + src.Weighted([]int{3, 1})
	for l := 0; l < nl; l++ {
		nc := 1 + src.Weighted([]int{3, 2, 1})
		var cuts []uint64
		c := lo
		for k := 0; k < nc; k++ {
			// sampled cut, anywhere in the rest of the stream
			c = c + uint64(src.Intn(int(n-c+1)))
			cuts = append(cuts, c)
			if c >= n {
				break
			}
			c++
		}
		h.lineage(fmt.Sprintf("lineage%d", l), cuts, false)
		if h.ctx.Violated() {
			return
		}
	}
}

func minU(a, b uint64) uint64 {
	if a < b {
		return a
	}
	return b
}

// lineage runs one saver replica through the stream: at every cut it takes a
// snapshot (concurrently with updates where that is legal) from which twins
// are derived.
func (h *harness) lineage(tag string, cuts []uint64, all bool) {
	ctx := h.ctx
	src := h.src
	n := uint64(len(h.ents))
	hook := &fsHook{}
	disk := simfs.NewDisk(tag, hook)
	ldb := newMemLogDB()
	t := h.newReplica(tag+"/saver", 2, h.kind, disk, ldb, "/data")
	if _, err := t.start(); err != nil {
		panic(fmt.Sprintf("rsmtwin: start of an empty replica failed: %v", err))
	}
	restored := uint64(0)
	overlap := 0
	for _, c := range cuts {
		if c <= t.sm.GetLastApplied() && t.sm.GetLastApplied() > 0 {
			continue
		}
		h.mix(c)
		h.feedTo(t, c, overlap)
		overlap = 0
		// ---- snapshot at c
		conc := uint64(0)
		if h.kind == KindConcurrent && c < n && src.Chance(1, 2) {
			conc = h.armConcurrent(t, hook, "probe.concurrent_save_with_updates")
		}
		req := rsm.SSRequest{}
		if src.Chance(1, 3) {
			req = rsm.SSRequest{Type: rsm.UserRequested, Key: 77, OverrideCompaction: true, CompactionOverhead: uint64(src.Intn(10))}
		}
		ctx.Ev("save", t.id, c, uint64(req.Type), conc)
		ss, ok, err := t.save(req)
		t.user.midSave, hook.fn = nil, nil
		if err != nil {
			h.viol([]string{"C08"}, []string{"snapshot-suffix-differs"}, "%s: saving a snapshot at index %d failed: %v", t.name, c, err)
			return
		}
		if !ok {
			ctx.Count("probe.save_refused", 1)
			continue
		}
		h.checkSnapshotRecord(t, ss, c)
		if ctx.Violated() {
			return
		}
		// ---- twins fed by this snapshot
		if all || src.Chance(1, 2) {
			h.follower(tag, t, ss)
			if ctx.Violated() {
				return
			}
		}
		if src.Chance(1, 4) {
			h.exported(tag, t, hook)
			if ctx.Violated() {
				return
			}
		}
		// ---- restart of the saver itself
		if all || src.Chance(1, 2) {
			pos := t.sm.GetLastApplied()
			if pos < n {
				h.feedTo(t, pos+uint64(src.Intn(int(minU(6, n-pos)+1))), 0)
			}
			if t.kind == KindOnDisk && src.Chance(1, 3) {
				if err := t.sm.Sync(); err != nil {
					panic(fmt.Sprintf("rsmtwin: sync: %v", err))
				}
			}
			h.compareTwin(t, restored)
			crash := src.Chance(1, 2)
			if crash {
				disk.Crash(nil)
				ctx.Count("probe.restart_after_disk_crash", 1)
			}
			t.dead = true
			ctx.Ev("restart", t.id, t.sm.GetLastApplied(), b2u(crash))
			t2 := h.newReplica(tag+"/restarted", 2, h.kind, disk, ldb, "/data")
			rs, err := t2.start()
			if err != nil {
				h.viol([]string{"C08"}, []string{"snapshot-suffix-differs"}, "%s: restart from the snapshot at index %d failed: %v", t2.name, ss.Index, err)
				return
			}
			ctx.Count("probe.restart", 1)
			h.nTwins++
			if rs.Index != ss.Index {
				h.viol([]string{"C08"}, []string{"snapshot-suffix-differs"}, "%s: restarted from snapshot %d, the most recent one is %d", t2.name, rs.Index, ss.Index)
				return
			}
			h.checkRecovered(t2, rs, "restart")
			t = t2
			restored = rs.Index
			overlap = src.Intn(5)
			if ctx.Violated() {
				return
			}
		}
	}
	before := t.sm.GetLastApplied()
	h.feedTo(t, n, overlap)
	if restored > 0 && n > before {
		h.nTwinSuffix++
	}
	h.compareTwin(t, restored)
	h.compareFinal(t)
}

// armConcurrent arranges for up to 4 of the entries following the applied
// index to be applied while the snapshot being taken next is in progress: some
// right after the state machine prepared the snapshot (when the snapshotter
// first touches the disk), the rest in the middle of the user state machine
// writing its image. Only legal for concurrent and on disk state machines.
func (h *harness) armConcurrent(t *replica, hook *fsHook, probe string) uint64 {
	src := h.src
	ctx := h.ctx
	n := uint64(len(h.ents))
	pos := t.sm.GetLastApplied()
	conc := 1 + uint64(src.Intn(int(minU(4, n-pos))))
	early := uint64(src.Intn(int(conc) + 1)) // 0 = all of them in the middle of the image
	counted := false
	count := func() {
		if !counted {
			counted = true
			ctx.Count(probe, 1)
		}
	}
	if early > 0 {
		hook.fn = func() {
			ctx.Ev("concurrent-updates-after-prepare", t.id, pos+1, pos+early)
			h.feedTo(t, pos+early, 0)
			ctx.Count("probe.updates_between_prepare_and_save", 1)
			count()
		}
	}
	if early < conc {
		t.user.midSave = func() {
			t.user.midSave = nil
			ctx.Ev("concurrent-updates-mid-image", t.id, pos+early+1, pos+conc)
			h.feedTo(t, pos+conc, 0)
			count()
		}
	}
	return conc
}

// probeMeta takes an exported snapshot of a replica that was just rebuilt and
// has not applied anything since: the applied index, the term and the
// membership it records are the ones that were restored.
func (h *harness) probeMeta(tw *replica, idx uint64) {
	h.nExports++
	path := fmt.Sprintf("/probe%d", h.nExports)
	if err := tw.fs.MkdirAll(path, 0o755); err != nil {
		panic(fmt.Sprintf("rsmtwin: mkdir: %v", err))
	}
	h.ctx.Ev("probe-meta", tw.id, idx)
	ss, ok, err := tw.save(rsm.SSRequest{Type: rsm.Exported, Path: path})
	if err != nil || !ok {
		h.viol([]string{"C08"}, []string{"snapshot-suffix-differs"}, "%s: exporting a snapshot right after recovery at index %d failed: ok=%t err=%v", tw.name, idx, ok, err)
		return
	}
	h.ctx.Count("probe.meta_checked_after_recovery", 1)
	ref := h.ref.states[idx]
	if ss.Index != idx || ss.Term != h.ents[idx-1].Term {
		h.viol([]string{"C08"}, []string{"snapshot-suffix-differs"},
			"%s: rebuilt at index %d term %d, a snapshot taken right away records index %d term %d", tw.name, idx, h.ents[idx-1].Term, ss.Index, ss.Term)
	}
	if !sameMembership(ss.Membership, ref.Full) {
		h.viol([]string{"C08", "C07"}, []string{"snapshot-suffix-differs", "membership-invariant"},
			"%s: rebuilt at index %d, a snapshot taken right away records membership %s, want %s", tw.name, idx, memberStr(ss.Membership), memberStr(ref.Full))
	}
}

// checkSnapshotRecord: the record describes the state at the cut.
func (h *harness) checkSnapshotRecord(t *replica, ss pb.Snapshot, c uint64) {
	ref := h.ref.states[c]
	bad := func(f string, a ...interface{}) {
		h.viol([]string{"C08"}, []string{"snapshot-suffix-differs"}, "%s: snapshot taken at index %d: %s", t.name, c, fmt.Sprintf(f, a...))
	}
	if ss.Index != c {
		bad("record says index %d", ss.Index)
		return
	}
	if ss.Term != h.ents[c-1].Term {
		bad("record says term %d, the entry at the index has term %d", ss.Term, h.ents[c-1].Term)
	}
	if !sameMembership(ss.Membership, ref.Full) {
		bad("record carries membership %s, a replica that applied the log up to there has %s", memberStr(ss.Membership), memberStr(ref.Full))
		h.ctx.Violate("C07", "membership-invariant", "%s: snapshot at index %d carries membership %s, applied membership is %s", t.name, c, memberStr(ss.Membership), memberStr(ref.Full))
	}
	if t.kind == KindOnDisk {
		if !ss.Dummy {
			bad("an on disk state machine produced a regular snapshot with payload")
		}
		// what the on disk state machine covers: the last command up to the
		// cut, or more when it was reopened ahead of the replayed entries
		want := ref.UserApplied
		if t.openIndex > want {
			want = t.openIndex
		}
		if ss.OnDiskIndex != want {
			bad("OnDiskIndex %d, the last command applied up to there has index %d and the state machine was opened at index %d", ss.OnDiskIndex, ref.UserApplied, t.openIndex)
		}
	} else if ss.Dummy {
		bad("dummy snapshot from a state machine that keeps its state in memory")
	}
}

// checkRecovered compares a replica right after it was rebuilt from the
// snapshot ss with the reference replica at that index.
func (h *harness) checkRecovered(tw *replica, ss pb.Snapshot, how string) {
	idx := ss.Index
	ref, ok := h.ref.states[idx]
	if !ok {
		panic("rsmtwin: no reference state")
	}
	got := tw.recordState()
	h.ctx.Ev("recovered", tw.id, idx, got.User, got.Session, got.Member)
	all := func(f string, a ...interface{}) {
		h.viol([]string{"C08", "C05"}, []string{"snapshot-suffix-differs", "twin-state-differs"},
			"%s: after %s from the snapshot at index %d: %s", tw.name, how, idx, fmt.Sprintf(f, a...))
	}
	if la := tw.sm.GetLastApplied(); la != idx {
		all("applied index is %d", la)
	}
	if got.Session != ref.Session && !h.noHash {
		all("session table hash %x, a replica that applied the log up to there has %x", got.Session, ref.Session)
	}
	if got.Member != ref.Member || !sameMembership(got.Full, ref.Full) {
		h.viol([]string{"C08", "C07"}, []string{"snapshot-suffix-differs", "membership-invariant"},
			"%s: after %s from the snapshot at index %d: membership %s, a replica that applied the log up to there has %s", tw.name, how, idx, memberStr(got.Full), memberStr(ref.Full))
	}
	if len(tw.node.restored) == 0 {
		all("RestoreRemotes was not invoked")
	} else if rm := tw.node.restored[len(tw.node.restored)-1]; rm.Index != idx || !sameMembership(rm.Membership, ref.Full) {
		h.viol([]string{"C08", "C07"}, []string{"snapshot-suffix-differs", "membership-invariant"},
			"%s: after %s: RestoreRemotes was given index %d membership %s, want index %d %s", tw.name, how, rm.Index, memberStr(rm.Membership), idx, memberStr(ref.Full))
	}
	if h.src.Chance(1, 3) {
		h.probeMeta(tw, idx)
	}
	if tw.kind != KindOnDisk {
		if got.User != ref.User {
			all("user data hash %x, a replica that applied the log up to there has %x", got.User, ref.User)
		}
		return
	}
	// on disk state machine: the user data is whatever the state machine made
	// durable itself, which must be the state at the index it reports and
	// cover at least what the snapshot says it covers
	ua := tw.user.st.applied
	if ua < ss.OnDiskIndex {
		all("the on disk state machine is at index %d, the snapshot says it covers %d", ua, ss.OnDiskIndex)
	}
	uref, ok := h.ref.states[ua]
	if !ok || uref.UserApplied != ua || uref.User != got.User {
		all("the on disk state machine says it is at index %d with data hash %x; a replica that applied the log up to there has %x (last command %d)",
			ua, got.User, uref.User, uref.UserApplied)
	}
}

// follower: another replica, possibly lagging behind, is brought up to date
// by the snapshot - a file snapshot through the chunk path, or, for on disk
// state machines, the live state streamed while updates continue.
func (h *harness) follower(tag string, t *replica, ss pb.Snapshot) {
	ctx := h.ctx
	src := h.src
	n := uint64(len(h.ents))
	f := h.newReplica(tag+"/follower", 3, h.kind, simfs.NewDisk(tag+"/f", nil), newMemLogDB(), "/data")
	if _, err := f.start(); err != nil {
		panic(fmt.Sprintf("rsmtwin: start of an empty replica failed: %v", err))
	}
	pos := t.sm.GetLastApplied()
	at := ss.Index
	if t.kind == KindOnDisk {
		at = pos
		if !t.sm.ReadyToStream() {
			// a reopened on disk state machine that is still ahead of the
			// entries replayed is not asked to stream (node.canStream)
			ctx.Count("probe.not_ready_to_stream", 1)
			return
		}
	}
	lag := uint64(src.Intn(int(at))) // 0 = a brand new replica
	if lag > 0 {
		h.feedTo(f, lag, 0)
		ctx.Count("probe.lagging_follower", 1)
	}
	var rs pb.Snapshot
	var err error
	how := "file snapshot"
	if t.kind == KindOnDisk {
		how = "streamed snapshot"
		conc := uint64(0)
		if pos < n && src.Chance(1, 2) {
			conc = 1 + uint64(src.Intn(int(minU(4, n-pos))))
			t.user.midSave = func() {
				t.user.midSave = nil
				ctx.Ev("concurrent-updates", t.id, pos+1, pos+conc)
				h.feedTo(t, pos+conc, 0)
				ctx.Count("probe.stream_with_updates", 1)
			}
		}
		ctx.Ev("stream", t.id, f.id, pos, conc)
		rs, err = t.streamTo(f)
		t.user.midSave = nil
		ctx.Count("probe.follower_streamed", 1)
	} else {
		cs := []uint64{settings.SnapshotChunkSize, 4096, 1500, settings.SnapshotHeaderSize}[src.Intn(4)]
		ctx.Ev("send-file", t.id, f.id, ss.Index, cs)
		rs, err = t.sendFileSnapshot(ss, f, cs)
		ctx.Count("probe.follower_file_snapshot", 1)
	}
	if err != nil {
		h.viol([]string{"C08"}, []string{"snapshot-suffix-differs"}, "%s: %s of index %d to a follower failed: %v", t.name, how, at, err)
		return
	}
	if rs.Index != at {
		h.viol([]string{"C08"}, []string{"snapshot-suffix-differs"}, "%s: %s taken at index %d arrived as index %d", t.name, how, at, rs.Index)
		return
	}
	if rs.Term != h.ents[at-1].Term {
		h.viol([]string{"C08"}, []string{"snapshot-suffix-differs"}, "%s: %s taken at index %d says term %d, the entry has term %d", t.name, how, at, rs.Term, h.ents[at-1].Term)
	}
	got, err := f.install(rs)
	if err != nil {
		h.viol([]string{"C08"}, []string{"snapshot-suffix-differs"}, "%s: recovering from the %s at index %d failed: %v", f.name, how, at, err)
		return
	}
	h.nTwins++
	h.checkRecovered(f, got, how)
	if ctx.Violated() {
		return
	}
	restored := got.Index
	if f.kind == KindOnDisk {
		// the snapshot was shrunk after it was applied: the image must be gone
		shrunk, err := f.snap.Shrunk(got)
		if err != nil || !shrunk {
			h.viol([]string{"C08"}, []string{"snapshot-suffix-differs"}, "%s: streamed snapshot %d not shrunk after recovery (shrunk=%t err=%v)", f.name, got.Index, shrunk, err)
		}
		if src.Chance(1, 2) {
			// and the follower restarts from the shrunk snapshot later on
			if restored < n {
				h.feedTo(f, restored+uint64(src.Intn(int(minU(5, n-restored)+1))), src.Intn(4))
			}
			if src.Chance(1, 2) {
				if err := f.sm.Sync(); err != nil {
					panic(fmt.Sprintf("rsmtwin: sync: %v", err))
				}
			}
			h.compareTwin(f, restored)
			crash := src.Chance(1, 2)
			if crash {
				f.disk.Crash(nil)
			}
			ctx.Ev("restart", f.id, f.sm.GetLastApplied(), b2u(crash))
			f2 := h.newReplica(tag+"/follower-restarted", 3, h.kind, f.disk, f.ldb, "/data")
			rs2, err := f2.start()
			if err != nil {
				h.viol([]string{"C08"}, []string{"snapshot-suffix-differs"}, "%s: restart from the shrunk snapshot %d failed: %v", f2.name, restored, err)
				return
			}
			ctx.Count("probe.restart_from_shrunk_snapshot", 1)
			if rs2.Index != restored {
				h.viol([]string{"C08"}, []string{"snapshot-suffix-differs"}, "%s: restarted from snapshot %d, the most recent one is %d", f2.name, rs2.Index, restored)
				return
			}
			if f2.user.nRecover != 0 {
				h.viol([]string{"C08"}, []string{"snapshot-suffix-differs"}, "%s: the user state machine was asked to recover from the shrunk snapshot %d", f2.name, restored)
			}
			h.checkRecovered(f2, rs2, "restart from the shrunk snapshot")
			f = f2
			if ctx.Violated() {
				return
			}
		}
	}
	before := f.sm.GetLastApplied()
	h.feedTo(f, n, src.Intn(5))
	if n > before {
		h.nTwinSuffix++
	}
	h.compareTwin(f, restored)
	h.compareFinal(f)
}

// exported: the saver exports a snapshot (full image for every kind) and a new
// replica is started from it, the way an imported snapshot is.
func (h *harness) exported(tag string, t *replica, hook *fsHook) {
	ctx := h.ctx
	src := h.src
	n := uint64(len(h.ents))
	pos := t.sm.GetLastApplied()
	if pos == 0 {
		return
	}
	h.nExports++
	path := fmt.Sprintf("/export%d", h.nExports)
	if err := t.fs.MkdirAll(path, 0o755); err != nil {
		panic(fmt.Sprintf("rsmtwin: mkdir: %v", err))
	}
	conc := uint64(0)
	if t.kind != KindRegular && pos < n && src.Chance(1, 2) {
		conc = h.armConcurrent(t, hook, "probe.export_with_updates")
	}
	ctx.Ev("export", t.id, pos, conc)
	ss, ok, err := t.save(rsm.SSRequest{Type: rsm.Exported, Path: path})
	t.user.midSave, hook.fn = nil, nil
	if err != nil || !ok {
		h.viol([]string{"C08"}, []string{"snapshot-suffix-differs"}, "%s: exporting a snapshot at index %d failed: ok=%t err=%v", t.name, pos, ok, err)
		return
	}
	ctx.Count("probe.exported_snapshot", 1)
	if ss.Index != pos || ss.Dummy {
		h.viol([]string{"C08"}, []string{"snapshot-suffix-differs"}, "%s: exported snapshot at index %d: record says index %d dummy=%t", t.name, pos, ss.Index, ss.Dummy)
		return
	}
	// the new replica lives on the same disk; its snapshot directory is the
	// export directory and its log store is handed the record, marked imported
	x := h.newReplicaAt(tag+"/imported", 4, h.kind, t.disk, newMemLogDB(), fmt.Sprintf("/x%d", h.nExports),
		func(uint64, uint64) string { return path })
	ss.Imported = true
	if err := x.ldb.SaveSnapshots([]pb.Update{{ShardID: shardID, ReplicaID: x.id, Snapshot: ss}}); err != nil {
		panic(err)
	}
	rs, err := x.start()
	if err != nil {
		h.viol([]string{"C08"}, []string{"snapshot-suffix-differs"}, "%s: starting from the exported snapshot %d failed: %v", x.name, pos, err)
		return
	}
	if rs.Index != pos {
		h.viol([]string{"C08"}, []string{"snapshot-suffix-differs"}, "%s: started from snapshot %d, exported one is %d", x.name, rs.Index, pos)
		return
	}
	h.nTwins++
	h.checkRecovered(x, rs, "start from the exported snapshot")
	if ctx.Violated() {
		return
	}
	h.feedTo(x, n, src.Intn(4))
	if n > pos {
		h.nTwinSuffix++
	}
	h.compareTwin(x, pos)
	h.compareFinal(x)
}

// ---------------------------------------------------------------------------
// twin comparison
// ---------------------------------------------------------------------------

func isUpdateKind(k int) bool { return k == ekPropose || k == ekNoop }

// compareTwin compares every entry the twin processed with what the reference
// replica did with it. restored is the snapshot index the twin was rebuilt
// from (0 = none).
func (h *harness) compareTwin(tw *replica, restored uint64) {
	ctx := h.ctx
	n := uint64(len(h.ents))
	for idx := uint64(1); idx <= n; idx++ {
		o, ok := tw.out[idx]
		if !ok {
			continue
		}
		inf := h.info[idx-1]
		ref := h.ref.out[idx]
		if !o.Seen {
			continue
		}
		if idx <= tw.startedAt {
			h.viol([]string{"C08"}, []string{"reapplied-covered-entry"}, "%s: entry %d was processed although the replica was rebuilt at index %d", tw.name, idx, tw.startedAt)
			continue
		}
		if tw.kind == KindOnDisk && idx <= o.Cover && isUpdateKind(inf.kind) {
			// already in the on disk state machine when it was opened
			if o.Updates != 0 {
				h.viol([]string{"C08"}, []string{"reapplied-covered-entry"}, "%s: entry %d was applied again, the on disk state machine covered index %d", tw.name, idx, o.Cover)
			}
			ctx.Count("probe.ondisk_covered_entry_skipped", 1)
			continue
		}
		diff := ""
		switch {
		case o.Called != ref.Called || o.Rejected != ref.Rejected || o.Ignored != ref.Ignored:
			diff = "reported outcome"
		case !sameResult(o.Result, ref.Result):
			diff = "result"
		case o.Updates != ref.Updates || !sameResult(o.UpdRes, ref.UpdRes):
			diff = "user state machine calls"
		case o.IsCC && !sameMembership(o.Member, ref.Member):
			diff = "membership"
		case o.Called && ref.Called && o.UserHash != ref.UserHash && !(inf.kind == ekNoop && tw.kind != KindRegular) &&
			!(tw.kind == KindOnDisk && idx <= o.Cover):
			// (NO-OP proposals are applied to concurrent state machines in
			// batches: the hash seen by their reports is the one after the batch;
			// a reopened on disk state machine is ahead of the entries replayed)
			diff = "user data hash"
		}
		if restored > 0 && inf.kind == ekPropose && inf.retry && ref.Called && !ref.Rejected && !ref.Ignored && ref.Updates == 0 {
			if at, ok := h.appliedAt[seriesKey{inf.cid, inf.inc, inf.series}]; ok && at <= restored {
				h.nRetryAfterRestore++
			}
		}
		if diff == "" {
			continue
		}
		if inf.kind == ekCC || inf.kind == ekBootstrap {
			h.viol([]string{"C07", "C08"}, []string{"cc-outcome-untruthful", "snapshot-suffix-differs"},
				"%s differs from the full replica at index %d (%s, %s): %s vs %s", tw.name, idx, ekNames[inf.kind], diff, o, ref)
		} else {
			if inf.kind == ekPropose && o.Updates > ref.Updates {
				ctx.Violate("C05", "dup-apply", "%s (rebuilt at index %d): proposal of client %x series %d at index %d was applied, the full replica did not apply it there (retry=%t)",
					tw.name, restored, inf.cid, inf.series, idx, inf.retry)
			}
			h.viol([]string{"C05", "C08"}, []string{"twin-session-differs", "snapshot-suffix-differs"},
				"%s differs from the full replica at index %d (%s client %x series %d, %s): %s vs %s", tw.name, idx, ekNames[inf.kind], inf.cid, inf.series, diff, o, ref)
		}
		return
	}
	// state at every index both replicas have on record
	for idx := uint64(1); idx <= n; idx++ {
		st, ok := tw.states[idx]
		if !ok || idx <= tw.startedAt {
			continue
		}
		ref := h.ref.states[idx]
		if tw.kind == KindOnDisk && st.UserApplied != ref.UserApplied {
			// user data ahead of the applied index after a restart
			continue
		}
		if st.User != ref.User || (st.Session != ref.Session && !h.noHash) {
			h.viol([]string{"C05", "C08"}, []string{"twin-state-differs", "snapshot-suffix-differs"},
				"%s at index %d: user hash %x session hash %x, the full replica has %x %x", tw.name, idx, st.User, st.Session, ref.User, ref.Session)
			return
		}
		if st.Member != ref.Member || !sameMembership(st.Full, ref.Full) {
			h.viol([]string{"C07", "C08"}, []string{"membership-invariant", "snapshot-suffix-differs"},
				"%s at index %d: membership %s, the full replica has %s", tw.name, idx, memberStr(st.Full), memberStr(ref.Full))
			return
		}
	}
}

// compareFinal: the twin that reached the end of the stream is in exactly
// the state of the replica that applied the whole log.
func (h *harness) compareFinal(tw *replica) {
	n := uint64(len(h.ents))
	ref := h.ref.states[n]
	got := tw.recordState()
	h.ctx.Ev("final", tw.id, tw.sm.GetLastApplied(), got.User, got.Session, got.Member)
	if la := tw.sm.GetLastApplied(); la != n {
		h.viol([]string{"C05", "C08"}, []string{"twin-state-differs", "snapshot-suffix-differs"}, "%s: applied index %d at the end of a log of %d entries", tw.name, la, n)
	}
	if got.User != ref.User || got.UserApplied != ref.UserApplied {
		h.viol([]string{"C05", "C08"}, []string{"twin-state-differs", "snapshot-suffix-differs"},
			"%s: final user data hash %x (last command %d), the full replica has %x (last command %d)", tw.name, got.User, got.UserApplied, ref.User, ref.UserApplied)
	}
	if got.Session != ref.Session && !h.noHash {
		h.viol([]string{"C05", "C08"}, []string{"twin-state-differs", "snapshot-suffix-differs"},
			"%s: final session table hash %x, the full replica has %x", tw.name, got.Session, ref.Session)
	}
	if got.Member != ref.Member || !sameMembership(got.Full, ref.Full) {
		h.viol([]string{"C07", "C08"}, []string{"membership-invariant", "snapshot-suffix-differs"},
			"%s: final membership %s, the full replica has %s", tw.name, memberStr(got.Full), memberStr(ref.Full))
	}
}

// Package rsmtwin drives the real rsm.StateMachine (with the real NativeSM
// wrapper and the real snapshotter) single threaded with synthetic committed
// entry streams drawn from the choice tape and compares twins of it: a replica
// that applied the whole stream, replicas that were rebuilt from a snapshot
// (own restart, file snapshot received through the real chunk path, streamed
// snapshot, exported snapshot) at tape chosen cut indexes, against reference
// models of the client session contract (C05), the membership rules (C07) and
// snapshot + suffix == full replay (C08).
package rsmtwin

import (
	"encoding/binary"
	"errors"
	"fmt"
	"io"
	"sort"

	"github.com/lni/dragonboat/v4/internal/vfs"
	sm "github.com/lni/dragonboat/v4/statemachine"
)

// State machine kinds.
const (
	KindRegular    = 1
	KindConcurrent = 2
	KindOnDisk     = 3
)

func kindName(k int) string {
	switch k {
	case KindRegular:
		return "regular"
	case KindConcurrent:
		return "concurrent"
	case KindOnDisk:
		return "ondisk"
	}
	return "?"
}

// command layout: magic, key, 8 byte unique write id, padding
const cmdMagic = 0xC5

func makeCmd(key byte, wid uint64, pad int) []byte {
	b := make([]byte, 10+pad)
	b[0] = cmdMagic
	b[1] = key
	binary.LittleEndian.PutUint64(b[2:], wid)
	for i := 10; i < len(b); i++ {
		b[i] = byte(wid) + byte(i)
	}
	return b
}

func parseCmd(b []byte) (key byte, wid uint64, ok bool) {
	if len(b) < 10 || b[0] != cmdMagic {
		return 0, 0, false
	}
	return b[1], binary.LittleEndian.Uint64(b[2:]), true
}

type kvVal struct {
	Val uint64 // id of the last write
	Ver uint64 // number of writes applied to the key
}

// kvState is the user data: a tiny versioned KV plus the number of commands
// applied and the index of the last one.
type kvState struct {
	kv      map[byte]kvVal
	applied uint64
	count   uint64
	blank   uint64 // commands without a parsable payload
}

func newKVState() *kvState { return &kvState{kv: map[byte]kvVal{}} }

func (s *kvState) clone() *kvState {
	c := &kvState{kv: make(map[byte]kvVal, len(s.kv)), applied: s.applied, count: s.count, blank: s.blank}
	for k, v := range s.kv {
		c.kv[k] = v
	}
	return c
}

// apply executes one command. The result depends on the whole history (count)
// so that applying twice or in a different order is visible in it.
func (s *kvState) apply(index uint64, cmd []byte) sm.Result {
	key, wid, ok := parseCmd(cmd)
	s.applied = index
	s.count++
	if !ok {
		s.blank++
		return sm.Result{Value: s.count<<20 | s.blank}
	}
	v := s.kv[key]
	v.Val = wid
	v.Ver++
	s.kv[key] = v
	if wid%4 == 0 {
		// a state machine may well answer a command with the empty result (a
		// previous value of zero, "nothing to report")
		return sm.Result{}
	}
	d := make([]byte, 16)
	binary.LittleEndian.PutUint64(d, v.Ver)
	binary.LittleEndian.PutUint64(d[8:], wid)
	return sm.Result{Value: s.count<<20 | uint64(key)<<12 | v.Ver&0xfff, Data: d}
}

func (s *kvState) encode() []byte {
	keys := make([]int, 0, len(s.kv))
	for k := range s.kv {
		keys = append(keys, int(k))
	}
	sort.Ints(keys)
	b := make([]byte, 0, 32+17*len(keys))
	var tmp [8]byte
	put := func(v uint64) {
		binary.LittleEndian.PutUint64(tmp[:], v)
		b = append(b, tmp[:]...)
	}
	put(s.applied)
	put(s.count)
	put(s.blank)
	put(uint64(len(keys)))
	for _, k := range keys {
		b = append(b, byte(k))
		put(s.kv[byte(k)].Val)
		put(s.kv[byte(k)].Ver)
	}
	return b
}

func decodeKVState(b []byte) (*kvState, error) {
	if len(b) < 32 {
		return nil, errors.New("short sm image")
	}
	s := newKVState()
	s.applied = binary.LittleEndian.Uint64(b[0:])
	s.count = binary.LittleEndian.Uint64(b[8:])
	s.blank = binary.LittleEndian.Uint64(b[16:])
	n := binary.LittleEndian.Uint64(b[24:])
	b = b[32:]
	if uint64(len(b)) != n*17 {
		return nil, fmt.Errorf("bad sm image: %d keys, %d bytes", n, len(b))
	}
	for i := uint64(0); i < n; i++ {
		k := b[0]
		s.kv[k] = kvVal{Val: binary.LittleEndian.Uint64(b[1:]), Ver: binary.LittleEndian.Uint64(b[9:])}
		b = b[17:]
	}
	return s, nil
}

// hash covers the user data; the index of the last command is left out (a
// regular state machine does not know it) and compared on its own where it is
// part of the contract.
func (s *kvState) hash() uint64 {
	h := uint64(1469598103934665603)
	for _, c := range s.encode()[8:] {
		h = (h ^ uint64(c)) * 1099511628211
	}
	return h
}

// updRec is one command handed to the user state machine.
type updRec struct {
	Index  uint64
	Wid    uint64
	HasWid bool
	Res    sm.Result
}

// userSM is the instrumented user state machine shared by the three kinds.
type userSM struct {
	kind int
	st   *kvState
	rec  []updRec // every command handed to Update by this instance
	// pad is the number of filler bytes appended to every snapshot image
	pad int
	// midSave, when set, is called in the middle of writing a snapshot image
	// (legal place for concurrent updates of concurrent / on disk kinds)
	midSave func()
	// on disk kind: where the image lives
	fs        vfs.IFS
	path      string
	opened    bool
	openIndex uint64
	// call counters
	nPrepare, nSave, nRecover, nSync, nOpen, nClose int
	recoveredAt                                     []uint64 // `applied` of every image loaded by RecoverFromSnapshot
	savedAt                                         []uint64 // `applied`/count of every image written by SaveSnapshot
	batchMax                                        int
}

func newUserSM(kind int, fs vfs.IFS, path string) *userSM {
	return &userSM{kind: kind, st: newKVState(), fs: fs, path: path}
}

func (u *userSM) update(e *sm.Entry) {
	e.Result = u.st.apply(e.Index, e.Cmd)
	_, wid, ok := parseCmd(e.Cmd)
	u.rec = append(u.rec, updRec{Index: e.Index, Wid: wid, HasWid: ok, Res: copyResult(e.Result)})
}

func copyResult(r sm.Result) sm.Result {
	c := sm.Result{Value: r.Value}
	if r.Data != nil {
		c.Data = append([]byte{}, r.Data...)
	}
	return c
}

func fillByte(i int, seed uint64) byte {
	// compressible but not constant
	return byte(seed>>uint((i/64)%8*8)) ^ byte(i/7)
}

func (u *userSM) writeImage(st *kvState, w io.Writer, mid func()) error {
	b := st.encode()
	var hdr [8]byte
	binary.LittleEndian.PutUint32(hdr[:], uint32(len(b)))
	binary.LittleEndian.PutUint32(hdr[4:], uint32(u.pad))
	if _, err := w.Write(hdr[:]); err != nil {
		return err
	}
	half := len(b) / 2
	if _, err := w.Write(b[:half]); err != nil {
		return err
	}
	if mid != nil {
		mid()
	}
	if _, err := w.Write(b[half:]); err != nil {
		return err
	}
	if u.pad > 0 {
		seed := st.hash()
		buf := make([]byte, 0, 4096)
		for off := 0; off < u.pad; {
			buf = buf[:0]
			for len(buf) < 4096 && off < u.pad {
				buf = append(buf, fillByte(off, seed))
				off++
			}
			if _, err := w.Write(buf); err != nil {
				return err
			}
		}
	}
	return nil
}

func readImage(r io.Reader) (*kvState, error) {
	var hdr [8]byte
	if _, err := io.ReadFull(r, hdr[:]); err != nil {
		return nil, err
	}
	n := binary.LittleEndian.Uint32(hdr[:])
	pad := int(binary.LittleEndian.Uint32(hdr[4:]))
	if n > 1<<20 || pad > 1<<24 {
		return nil, fmt.Errorf("absurd sm image size %d/%d", n, pad)
	}
	b := make([]byte, n)
	if _, err := io.ReadFull(r, b); err != nil {
		return nil, err
	}
	st, err := decodeKVState(b)
	if err != nil {
		return nil, err
	}
	if pad > 0 {
		seed := st.hash()
		buf := make([]byte, 4096)
		for off := 0; off < pad; {
			n := pad - off
			if n > len(buf) {
				n = len(buf)
			}
			if _, err := io.ReadFull(r, buf[:n]); err != nil {
				return nil, fmt.Errorf("filler: %w", err)
			}
			for i := 0; i < n; i++ {
				if buf[i] != fillByte(off+i, seed) {
					return nil, fmt.Errorf("filler byte %d differs", off+i)
				}
			}
			off += n
		}
	}
	// the image must end here
	var one [1]byte
	if n, _ := r.Read(one[:]); n != 0 {
		return nil, errors.New("trailing bytes after the sm image")
	}
	return st, nil
}

func (u *userSM) lookup(q interface{}) (interface{}, error) {
	return u.st.clone(), nil
}

// ---- regular ----

type regularSM struct{ u *userSM }

func (s *regularSM) Update(e sm.Entry) (sm.Result, error) {
	s.u.update(&e)
	return e.Result, nil
}
func (s *regularSM) Lookup(q interface{}) (interface{}, error) { return s.u.lookup(q) }
func (s *regularSM) SaveSnapshot(w io.Writer, fc sm.ISnapshotFileCollection, done <-chan struct{}) error {
	s.u.nSave++
	s.u.savedAt = append(s.u.savedAt, s.u.st.count)
	// a regular state machine is not updated while it is being saved: the
	// callback is only used to observe that
	return s.u.writeImage(s.u.st, w, s.u.midSave)
}
func (s *regularSM) RecoverFromSnapshot(r io.Reader, files []sm.SnapshotFile, done <-chan struct{}) error {
	s.u.nRecover++
	st, err := readImage(r)
	if err != nil {
		return err
	}
	s.u.st = st
	s.u.recoveredAt = append(s.u.recoveredAt, st.count)
	return nil
}
func (s *regularSM) Close() error             { s.u.nClose++; return nil }
func (s *regularSM) GetHash() (uint64, error) { return s.u.st.hash(), nil }

// ---- concurrent ----

type concurrentSM struct{ u *userSM }

func (s *concurrentSM) Update(ents []sm.Entry) ([]sm.Entry, error) {
	if len(ents) > s.u.batchMax {
		s.u.batchMax = len(ents)
	}
	for k := range ents {
		s.u.update(&ents[k])
	}
	return ents, nil
}
func (s *concurrentSM) Lookup(q interface{}) (interface{}, error) { return s.u.lookup(q) }
func (s *concurrentSM) PrepareSnapshot() (interface{}, error) {
	s.u.nPrepare++
	return s.u.st.clone(), nil
}
func (s *concurrentSM) SaveSnapshot(ctx interface{}, w io.Writer, fc sm.ISnapshotFileCollection, done <-chan struct{}) error {
	s.u.nSave++
	st := ctx.(*kvState)
	s.u.savedAt = append(s.u.savedAt, st.count)
	return s.u.writeImage(st, w, s.u.midSave)
}
func (s *concurrentSM) RecoverFromSnapshot(r io.Reader, files []sm.SnapshotFile, done <-chan struct{}) error {
	s.u.nRecover++
	st, err := readImage(r)
	if err != nil {
		return err
	}
	s.u.st = st
	s.u.recoveredAt = append(s.u.recoveredAt, st.count)
	return nil
}
func (s *concurrentSM) Close() error             { s.u.nClose++; return nil }
func (s *concurrentSM) GetHash() (uint64, error) { return s.u.st.hash(), nil }

// ---- on disk ----

type diskSM struct{ u *userSM }

func (s *diskSM) Open(stopc <-chan struct{}) (uint64, error) {
	s.u.nOpen++
	st := newKVState()
	f, err := s.u.fs.Open(s.u.path)
	if err == nil {
		img, lerr := readImage(f)
		_ = f.Close()
		if lerr != nil {
			return 0, lerr
		}
		st = img
	}
	s.u.st = st
	s.u.opened = true
	s.u.openIndex = st.applied
	return st.applied, nil
}

func (s *diskSM) Update(ents []sm.Entry) ([]sm.Entry, error) {
	if len(ents) > s.u.batchMax {
		s.u.batchMax = len(ents)
	}
	for k := range ents {
		s.u.update(&ents[k])
	}
	return ents, nil
}
func (s *diskSM) Lookup(q interface{}) (interface{}, error) { return s.u.lookup(q) }

// persist makes the current state durable: temp file, fsync, rename, fsync of
// the directory.
func (s *diskSM) persist() error {
	fs := s.u.fs
	dir := fs.PathDir(s.u.path)
	tmp := s.u.path + ".tmp"
	f, err := fs.Create(tmp)
	if err != nil {
		return err
	}
	pad := s.u.pad
	s.u.pad = 0 // the image kept by the state machine itself carries no filler
	err = s.u.writeImage(s.u.st, f, nil)
	s.u.pad = pad
	if err != nil {
		_ = f.Close()
		return err
	}
	if err := f.Sync(); err != nil {
		_ = f.Close()
		return err
	}
	if err := f.Close(); err != nil {
		return err
	}
	if err := fs.Rename(tmp, s.u.path); err != nil {
		return err
	}
	d, err := fs.OpenDir(dir)
	if err != nil {
		return err
	}
	defer d.Close()
	return d.Sync()
}

func (s *diskSM) Sync() error {
	s.u.nSync++
	return s.persist()
}
func (s *diskSM) PrepareSnapshot() (interface{}, error) {
	s.u.nPrepare++
	return s.u.st.clone(), nil
}
func (s *diskSM) SaveSnapshot(ctx interface{}, w io.Writer, done <-chan struct{}) error {
	s.u.nSave++
	st := ctx.(*kvState)
	s.u.savedAt = append(s.u.savedAt, st.count)
	return s.u.writeImage(st, w, s.u.midSave)
}
func (s *diskSM) RecoverFromSnapshot(r io.Reader, done <-chan struct{}) error {
	s.u.nRecover++
	st, err := readImage(r)
	if err != nil {
		return err
	}
	s.u.st = st
	s.u.recoveredAt = append(s.u.recoveredAt, st.count)
	// an on disk state machine makes the recovered state durable itself
	return s.persist()
}
func (s *diskSM) Close() error             { s.u.nClose++; return nil }
func (s *diskSM) GetHash() (uint64, error) { return s.u.st.hash(), nil }

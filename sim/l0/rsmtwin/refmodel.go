package rsmtwin

import (
	"fmt"
	"sort"
	"strings"

	pb "github.com/lni/dragonboat/v4/raftpb"
	sm "github.com/lni/dragonboat/v4/statemachine"
)

// ---------------------------------------------------------------------------
// RefSession: the client session contract, written from the statement of C05
// and the documented protocol (client/session.pb.go, NodeHost.SyncGetSession /
// SyncCloseSession, thesis 6.3):
//
//   - a session exists from the entry that registers it to the entry that
//     unregisters it, or until the bounded table drops it;
//   - within a session a series id is applied at most once; while the client
//     has not acknowledged it (RespondedTo below the series id) every retry is
//     answered with the result of that single application;
//   - once acknowledged, a late duplicate is ignored;
//   - a proposal of a session the table does not hold is rejected and does
//     not reach the user state machine.
//
// The table is bounded. WHICH session is dropped when it overflows is the
// implementation's business (it only has to be the same on every replica): the
// model learns about a drop when it first becomes observable and only insists
// that no more sessions vanish than registrations overflowed the table.
// ---------------------------------------------------------------------------

type refSess struct {
	inc       int
	responded uint64
	hist      map[uint64]sm.Result
	maybe     bool // registered, but the table overflowed since it was last seen
}

type seriesKey struct {
	cid    uint64
	inc    int
	series uint64
}

type refSession struct {
	cap        int
	sess       map[uint64]*refSess
	unobserved int // drops that must have happened and whose victim is not yet known
	incs       map[uint64]int
	// ghost: result of the single application of every (session, series)
	applied map[seriesKey]sm.Result
	// counters
	nEvicted, nCachedRetry, nAckedDup, nUnknownRejected, nApplied, nOverflow int
}

func newRefSession(cap int) *refSession {
	return &refSession{cap: cap, sess: map[uint64]*refSess{}, incs: map[uint64]int{}, applied: map[seriesKey]sm.Result{}}
}

func (m *refSession) size() int { return len(m.sess) - m.unobserved }

func (m *refSession) normalise() {
	if m.unobserved == 0 {
		for _, s := range m.sess {
			s.maybe = false
		}
	}
}

// dropObserved handles the observation that cid is not in the table although
// it was registered. Returns false when no drop can explain it.
func (m *refSession) dropObserved(cid uint64) bool {
	s := m.sess[cid]
	if s == nil || !s.maybe || m.unobserved == 0 {
		return false
	}
	delete(m.sess, cid)
	m.unobserved--
	m.nEvicted++
	m.normalise()
	return true
}

type verdict struct {
	oracle string
	msg    string
}

func isEmptyRes(r sm.Result) bool { return r.Value == 0 && len(r.Data) == 0 }

// register checks the outcome of a register entry and updates the model.
func (m *refSession) register(cid uint64, o *outcome) (vs []verdict) {
	bad := func(orc, f string, a ...interface{}) { vs = append(vs, verdict{orc, fmt.Sprintf(f, a...)}) }
	if !o.Called || o.Ignored {
		bad("session-register-untruthful", "register of client %x: no outcome reported (%s)", cid, o)
		return
	}
	if o.Updates != 0 {
		bad("unknown-session-touched-sm", "register of client %x reached the user state machine", cid)
	}
	created := o.Result.Value == cid && !o.Rejected
	refused := isEmptyRes(o.Result) && o.Rejected
	if !created && !refused {
		bad("session-register-untruthful", "register of client %x answered with %s rejected=%t", cid, resStr(o.Result), o.Rejected)
		return
	}
	s := m.sess[cid]
	if s != nil && created {
		// the table says the session was not there
		if !m.dropObserved(cid) {
			bad("session-register-untruthful", "client %x is registered and cannot have been dropped, yet it was registered again as new", cid)
			delete(m.sess, cid)
		}
		s = nil
	}
	if s == nil {
		if refused {
			bad("session-register-untruthful", "register of the unknown client %x was refused", cid)
			return
		}
		m.incs[cid]++
		m.sess[cid] = &refSess{inc: m.incs[cid], hist: map[uint64]sm.Result{}}
		if m.size() > m.cap {
			// somebody else had to go
			m.unobserved++
			m.nOverflow++
			for id, x := range m.sess {
				if id != cid {
					x.maybe = true
				}
			}
		}
		return
	}
	// refused and the model holds the session: consistent (it is present)
	return
}

func (m *refSession) unregister(cid uint64, o *outcome) (vs []verdict) {
	bad := func(orc, f string, a ...interface{}) { vs = append(vs, verdict{orc, fmt.Sprintf(f, a...)}) }
	if !o.Called || o.Ignored {
		bad("session-register-untruthful", "unregister of client %x: no outcome reported (%s)", cid, o)
		return
	}
	if o.Updates != 0 {
		bad("unknown-session-touched-sm", "unregister of client %x reached the user state machine", cid)
	}
	removed := o.Result.Value == cid && !o.Rejected
	refused := isEmptyRes(o.Result) && o.Rejected
	if !removed && !refused {
		bad("session-register-untruthful", "unregister of client %x answered with %s rejected=%t", cid, resStr(o.Result), o.Rejected)
		return
	}
	s := m.sess[cid]
	switch {
	case s == nil && removed:
		bad("session-register-untruthful", "unregister of the unknown client %x reported success", cid)
	case s != nil && removed:
		delete(m.sess, cid)
		if m.unobserved > m.maybeCount() {
			// cannot happen with a consistent table: the removed session was
			// one of the candidates, so there is one candidate less than drops
			bad("session-register-untruthful", "more sessions dropped than the table can account for after unregistering %x", cid)
			m.unobserved = m.maybeCount()
		}
		m.normalise()
	case s != nil && refused:
		if !m.dropObserved(cid) {
			bad("registered-session-rejected", "unregister of client %x was refused although the session is registered and cannot have been dropped", cid)
			delete(m.sess, cid)
		}
	}
	return
}

func (m *refSession) maybeCount() int {
	n := 0
	for _, s := range m.sess {
		if s.maybe {
			n++
		}
	}
	return n
}

// propose checks the outcome of a proposal of a regular session. hashChanged
// says whether the user data hash differs from the one before the entry.
// It returns the incarnation the entry was accounted to (0 = none).
func (m *refSession) propose(cid, series, responded uint64, o *outcome, hashChanged bool) (vs []verdict, inc int) {
	bad := func(orc, f string, a ...interface{}) { vs = append(vs, verdict{orc, fmt.Sprintf(f, a...)}) }
	s := m.sess[cid]
	rejected := o.Called && o.Rejected
	if s != nil && rejected {
		_, cached := s.hist[series]
		if !m.dropObserved(cid) {
			if cached && series > s.responded {
				bad("retry-result-differs", "retry of client %x series %d was rejected although the session is registered, cannot have been dropped and holds the result", cid, series)
			} else {
				bad("registered-session-rejected", "proposal of client %x series %d was rejected although the session is registered and cannot have been dropped", cid, series)
			}
			delete(m.sess, cid)
		}
		s = nil
	}
	if s == nil {
		// never registered / unregistered / dropped
		if !rejected {
			bad("unknown-session-touched-sm", "proposal of client %x series %d, which has no session, was not rejected: %s", cid, series, o)
		}
		if o.Updates != 0 || hashChanged {
			bad("unknown-session-touched-sm", "proposal of client %x series %d, which has no session, reached the user state machine (calls=%d, hash changed=%t)", cid, series, o.Updates, hashChanged)
		}
		if o.Called && !isEmptyRes(o.Result) {
			bad("unknown-session-touched-sm", "rejected proposal of client %x series %d carries the result %s", cid, series, resStr(o.Result))
		}
		m.nUnknownRejected++
		return vs, 0
	}
	// the session is present; seeing it accepted does not protect it from a
	// later drop
	inc = s.inc
	k := seriesKey{cid, s.inc, series}
	if responded > s.responded {
		s.responded = responded
		for id := range s.hist {
			if id <= responded {
				delete(s.hist, id)
			}
		}
	}
	switch {
	case series <= s.responded:
		// the client has acknowledged this series: a late duplicate
		m.nAckedDup++
		if o.Updates != 0 || hashChanged {
			bad("acked-dup-applied", "late duplicate of client %x series %d (acknowledged up to %d) was applied to the user state machine", cid, series, s.responded)
			break
		}
		if o.Called && !o.Ignored {
			if first, ok := m.applied[k]; !ok || !sameResult(first, o.Result) || o.Rejected {
				bad("acked-dup-applied", "late duplicate of client %x series %d (acknowledged up to %d) was answered with %s rejected=%t, the application returned %s (applied=%t)",
					cid, series, s.responded, resStr(o.Result), o.Rejected, resStr(first), ok)
			}
		}
	default:
		if res, ok := s.hist[series]; ok {
			// a retry the client has not acknowledged
			m.nCachedRetry++
			if o.Updates != 0 || hashChanged {
				bad("dup-apply", "retry of client %x series %d was applied again (calls=%d)", cid, series, o.Updates)
			}
			if !o.Called || o.Ignored || o.Rejected || !sameResult(o.Result, res) {
				bad("retry-result-differs", "retry of client %x series %d answered with %s, the single application returned %s", cid, series, o, resStr(res))
			}
			break
		}
		// first time the series is seen by this session
		if _, ok := m.applied[k]; ok {
			bad("dup-apply", "client %x series %d applied before in the same session and about to be applied again", cid, series)
		}
		if o.Updates > 1 {
			bad("dup-apply", "proposal of client %x series %d was handed to the user state machine %d times", cid, series, o.Updates)
		}
		if o.Updates == 0 {
			bad("retry-result-differs", "first proposal of client %x series %d of a registered session was not applied: %s", cid, series, o)
			break
		}
		if !o.Called || o.Ignored || o.Rejected || !sameResult(o.Result, o.UpdRes) {
			bad("retry-result-differs", "proposal of client %x series %d answered with %s, the user state machine returned %s", cid, series, o, resStr(o.UpdRes))
		}
		s.hist[series] = o.UpdRes
		m.applied[k] = o.UpdRes
		m.nApplied++
	}
	return vs, inc
}

// ---------------------------------------------------------------------------
// Membership invariants, written from the statement of C07.
// ---------------------------------------------------------------------------

func memberStr(m pb.Membership) string {
	part := func(mm map[uint64]string) string {
		ids := make([]uint64, 0, len(mm))
		for id := range mm {
			ids = append(ids, id)
		}
		sort.Slice(ids, func(i, j int) bool { return ids[i] < ids[j] })
		var sb strings.Builder
		for _, id := range ids {
			fmt.Fprintf(&sb, "%d@%s ", id, mm[id])
		}
		return strings.TrimSpace(sb.String())
	}
	rem := make([]uint64, 0, len(m.Removed))
	for id := range m.Removed {
		rem = append(rem, id)
	}
	sort.Slice(rem, func(i, j int) bool { return rem[i] < rem[j] })
	return fmt.Sprintf("{ccid=%d V[%s] N[%s] W[%s] R%v}", m.ConfigChangeId, part(m.Addresses), part(m.NonVotings), part(m.Witnesses), rem)
}

func sameStrMap(a, b map[uint64]string) bool {
	if len(a) != len(b) {
		return false
	}
	for k, v := range a {
		if w, ok := b[k]; !ok || w != v {
			return false
		}
	}
	return true
}

func sameMembership(a, b pb.Membership) bool {
	if a.ConfigChangeId != b.ConfigChangeId || len(a.Removed) != len(b.Removed) {
		return false
	}
	for k := range a.Removed {
		if !b.Removed[k] {
			return false
		}
	}
	return sameStrMap(a.Addresses, b.Addresses) && sameStrMap(a.NonVotings, b.NonVotings) && sameStrMap(a.Witnesses, b.Witnesses)
}

const (
	mkNone = iota
	mkVoting
	mkNonVoting
	mkWitness
)

func kindOf(m pb.Membership, id uint64) (int, string, int) {
	k, addr, n := mkNone, "", 0
	if a, ok := m.Addresses[id]; ok {
		k, addr = mkVoting, a
		n++
	}
	if a, ok := m.NonVotings[id]; ok {
		k, addr = mkNonVoting, a
		n++
	}
	if a, ok := m.Witnesses[id]; ok {
		k, addr = mkWitness, a
		n++
	}
	return k, addr, n
}

// refMember carries what has to hold forever.
type refMember struct {
	ordered     bool
	everRemoved map[uint64]uint64 // id -> index of the entry that removed it
	nAccepted   int
	nRejected   int
	byRule      map[string]int
}

func newRefMember(ordered bool) *refMember {
	return &refMember{ordered: ordered, everRemoved: map[uint64]uint64{}, byRule: map[string]int{}}
}

// check examines one processed config change: before/after are the
// memberships reported by the state machine around it.
func (rm *refMember) check(index uint64, cc pb.ConfigChange, rejected bool, before, after pb.Membership) (vs []verdict) {
	inv := func(f string, a ...interface{}) {
		vs = append(vs, verdict{"membership-invariant", fmt.Sprintf("index %d %s id=%d addr=%q ccid=%d: ", index, cc.Type, cc.ReplicaID, cc.Address, cc.ConfigChangeId) + fmt.Sprintf(f, a...)})
	}
	lie := func(f string, a ...interface{}) {
		vs = append(vs, verdict{"cc-outcome-untruthful", fmt.Sprintf("index %d %s id=%d addr=%q ccid=%d rejected=%t: ", index, cc.Type, cc.ReplicaID, cc.Address, cc.ConfigChangeId, rejected) + fmt.Sprintf(f, a...)})
	}
	// ---- the reported outcome is truthful
	if rejected {
		rm.nRejected++
		if !sameMembership(before, after) {
			lie("reported rejected but the membership changed from %s to %s", memberStr(before), memberStr(after))
		}
	} else {
		rm.nAccepted++
		if after.ConfigChangeId != index {
			lie("reported applied but the membership's ConfigChangeId is %d", after.ConfigChangeId)
		}
		k, addr, _ := kindOf(after, cc.ReplicaID)
		switch cc.Type {
		case pb.AddNode:
			if k != mkVoting || addr != cc.Address {
				lie("reported applied but the replica is %d@%q afterwards", k, addr)
			}
		case pb.AddNonVoting:
			if k != mkNonVoting || addr != cc.Address {
				lie("reported applied but the replica is %d@%q afterwards", k, addr)
			}
		case pb.AddWitness:
			if k != mkWitness || addr != cc.Address {
				lie("reported applied but the replica is %d@%q afterwards", k, addr)
			}
		case pb.RemoveNode:
			if k != mkNone || !after.Removed[cc.ReplicaID] {
				lie("reported applied but the replica is kind %d removed=%t afterwards", k, after.Removed[cc.ReplicaID])
			}
		}
		// one change at a time: nobody else is touched
		ids := map[uint64]bool{}
		for _, mm := range []map[uint64]string{before.Addresses, before.NonVotings, before.Witnesses, after.Addresses, after.NonVotings, after.Witnesses} {
			for id := range mm {
				ids[id] = true
			}
		}
		for id := range ids {
			if id == cc.ReplicaID {
				continue
			}
			kb, ab, _ := kindOf(before, id)
			ka, aa, _ := kindOf(after, id)
			if kb != ka || ab != aa {
				lie("replica %d changed from %d@%q to %d@%q as a side effect", id, kb, ab, ka, aa)
			}
		}
		for id := range after.Removed {
			if id != cc.ReplicaID && !before.Removed[id] {
				lie("replica %d became removed as a side effect", id)
			}
		}
		// ---- ordered config change: applied => based on the previous applied change
		if rm.ordered && !cc.Initialize && cc.ConfigChangeId != before.ConfigChangeId {
			inv("applied although it is based on change %d and the last applied change is %d", cc.ConfigChangeId, before.ConfigChangeId)
		}
		// ---- admission rules
		if at, ok := rm.everRemoved[cc.ReplicaID]; ok && cc.Type != pb.RemoveNode {
			inv("admitted a replica id removed at index %d", at)
		}
		if cc.Type == pb.RemoveNode {
			if _, ok := rm.everRemoved[cc.ReplicaID]; !ok {
				rm.everRemoved[cc.ReplicaID] = index
			}
		}
	}
	// ---- what has to hold after every change, applied or not
	for id, at := range rm.everRemoved {
		if k, _, _ := kindOf(after, id); k != mkNone {
			inv("replica %d, removed at index %d, is a member again", id, at)
		}
		if !after.Removed[id] {
			inv("replica %d, removed at index %d, is no longer recorded as removed", id, at)
		}
	}
	for id := range after.Removed {
		if k, _, _ := kindOf(after, id); k != mkNone {
			inv("replica %d is both removed and a member", id)
		}
	}
	if len(after.Addresses) == 0 {
		inv("no voting member left: %s", memberStr(after))
	}
	// kinds: a replica only ever changes kind by promotion
	ids := map[uint64]bool{}
	for _, mm := range []map[uint64]string{after.Addresses, after.NonVotings, after.Witnesses} {
		for id := range mm {
			ids[id] = true
		}
	}
	used := map[string]uint64{}
	for id := range ids {
		ka, aa, n := kindOf(after, id)
		if n > 1 {
			inv("replica %d has %d kinds at once", id, n)
		}
		kb, _, _ := kindOf(before, id)
		if kb != mkNone && kb != ka && !(kb == mkNonVoting && ka == mkVoting) {
			inv("replica %d changed kind from %d to %d", id, kb, ka)
		}
		if other, ok := used[aa]; ok {
			inv("address %q is used by replica %d and replica %d", aa, other, id)
		}
		used[aa] = id
	}
	return vs
}

// classify names the statement's rule that explains a rejection (for probes).
func classifyRejection(ordered bool, cc pb.ConfigChange, before pb.Membership, everRemoved map[uint64]uint64) string {
	if ordered && !cc.Initialize && cc.ConfigChangeId != before.ConfigChangeId {
		return "stale_ccid"
	}
	k, addr, _ := kindOf(before, cc.ReplicaID)
	if cc.Type == pb.RemoveNode {
		if k == mkVoting && len(before.Addresses) == 1 {
			return "last_voter"
		}
		return "unexplained"
	}
	if _, ok := everRemoved[cc.ReplicaID]; ok {
		return "readd_removed"
	}
	want := map[pb.ConfigChangeType]int{pb.AddNode: mkVoting, pb.AddNonVoting: mkNonVoting, pb.AddWitness: mkWitness}[cc.Type]
	if k != mkNone {
		if k == want {
			return "already_member"
		}
		if k == mkNonVoting && want == mkVoting {
			if addr != cc.Address {
				return "promotion_other_address"
			}
			return "unexplained"
		}
		return "kind_change"
	}
	for _, mm := range []map[uint64]string{before.Addresses, before.NonVotings, before.Witnesses} {
		for _, a := range mm {
			if a == cc.Address {
				return "address_in_use"
			}
		}
	}
	return "unexplained"
}

package chunks

import (
	"fmt"
	"strconv"

	"github.com/lni/dragonboat/v4/internal/rsm"
	"github.com/lni/dragonboat/v4/internal/transport"
	pb "github.com/lni/dragonboat/v4/raftpb"
	"github.com/lni/dragonboat/v4/verifsim/runner"
)

// Rule describes how cases are generated (for the evidence file).
const Rule = "one run = 1..3 source snapshots (main file written by the real writer, 0..3 external files, tape chosen sizes, " +
	"chunk size and relation between the streams: other replica / other index / same snapshot from another sender / other shard) " +
	"split by the real sender code and delivered through the real codec to one real receiver in a tape chosen interleaving with " +
	"tape chosen perturbations (drop, swap, repeat, restart, out of order, altered data, foreign deployment id / version / sender, " +
	"replica removed, short and long silences, unusual file names); enumerating parts apply every single perturbation at every " +
	"position of a fixed 5 chunk stream interleaved with a second stream, including every bit of the main file; " +
	"non-trivial = at least two chunks delivered; distinct = distinct (sources, schedule, reactions) signature"

func fnv(vals ...uint64) uint64 {
	h := uint64(1469598103934665603)
	for _, v := range vals {
		h = (h ^ v) * 1099511628211
		h ^= h >> 29
	}
	return h
}

// Run is the scenario entry point.
func Run(ctx *runner.Ctx) *runner.Result {
	w := newWorld(ctx)
	defer transport.VerifSetSnapshotChunkSize(rsm.ChunkSize)
	note := ""
	if ctx.Param("enum", "0") == "1" {
		idx, _ := strconv.ParseUint(ctx.Param("_i", "0"), 10, 64)
		note = w.runEnum(int(idx))
	} else {
		note = w.runSampled()
	}
	if note != "beyond" {
		w.finish()
	}
	sig := fnv(append(w.sig, uint64(w.delivered), uint64(w.accepted), uint64(len(w.finalized)), uint64(len(w.notes)))...)
	ctx.State(fnv(uint64(len(w.sources)), uint64(w.accepted), uint64(w.rejected), uint64(len(w.finalized))))
	return ctx.Finish(w.delivered >= 2, sig, int64(0),
		fmt.Sprintf("%s sources=%d delivered=%d accepted=%d ignored=%d finalized=%d notifications=%d", note, len(w.sources), w.delivered, w.accepted, w.rejected, len(w.finalized), len(w.notes)))
}

func (w *world) setChunkSize(cs int) int {
	transport.VerifSetSnapshotChunkSize(uint64(cs))
	return cs
}

func (w *world) sendChunk(s *source, idx int, mut func(c *pb.Chunk, t *deliverTag)) {
	c := s.chunks[idx]
	t := deliverTag{src: s, idx: idx}
	extra := ""
	if mut != nil {
		mut(&c, &t)
		extra = " " + t.desc
	}
	file := "main"
	if c.HasFileInfo {
		file = fmt.Sprintf("ext%d", c.FileInfo.FileId)
	}
	t.desc = fmt.Sprintf("src%d#%d/%d(shard=%d replica=%d index=%d from=%d file=%s name=%q%s)", s.id, idx, len(s.chunks),
		c.ShardID, c.ReplicaID, c.Index, c.From, file, c.Filepath, extra)
	w.deliver(c, t)
}

func mutDid(c *pb.Chunk, t *deliverTag) {
	c.DeploymentId++
	t.did = true
	t.desc = "foreign deployment id"
}
func mutBinVer(c *pb.Chunk, t *deliverTag) {
	c.BinVer++
	t.binver = true
	t.desc = "foreign bin version"
}
func mutFrom(c *pb.Chunk, t *deliverTag) { c.From += 100; t.foreign = true; t.desc = "foreign sender" }

func (w *world) mutCorrupt(s *source, off int, bit uint, cs int) func(c *pb.Chunk, t *deliverTag) {
	return func(c *pb.Chunk, t *deliverTag) {
		t.desc = "ALTERED " + corruptData(c, s, off, bit, cs)
		t.corrupt = t.desc
		if c.HasFileInfo {
			t.extCorrupt = true
		} else {
			t.mainCorrupt = true
		}
	}
}

// ---------------------------------------------------------------------------
// sampled runs

func (w *world) runSampled() string {
	src := w.src
	big := src.Weighted([]int{120, 1}) == 1 && w.ctx.Param("big", "1") == "1"
	if w.ctx.Param("big", "1") == "only" {
		big = true
	}
	var cs int
	if big {
		cs = w.setChunkSize(1 << 20)
		w.bigDisk = true
	} else {
		cs = w.setChunkSize([]int{4096, 2048, 1024, 1500, 1025, 65536}[src.Weighted([]int{30, 20, 20, 12, 10, 8})])
	}
	n := 1 + src.Weighted([]int{50, 35, 15})
	total := 0
	for i := 0; i < n; i++ {
		shard, replica, from, index := uint64(1), uint64(2), uint64(1), uint64(100)
		rel := 0
		if i > 0 {
			rel = 1 + src.Weighted([]int{30, 25, 25, 20})
			switch rel {
			case 1:
				replica += uint64(i)
			case 2:
				index += uint64(7 * i)
			case 3:
				from += uint64(i)
			case 4:
				shard += uint64(i)
			}
		}
		var mainLen int
		switch src.Weighted([]int{40, 40, 20}) {
		case 0:
			mainLen = src.Range(0, 200)
		case 1:
			mainLen = src.Range(201, 3000)
		default:
			mainLen = src.Range(3001, 9000)
		}
		if big && i == 0 {
			mainLen = 2*int(rsm.ChunkSize) + src.Range(0, 70000)
		}
		ct := pb.NoCompression
		if src.Chance(1, 3) {
			ct = pb.Snappy
		}
		kind := src.Intn(3)
		if big {
			kind = 1
		}
		seed := src.Uint64()
		var ext []int
		for j, ne := 0, src.Weighted([]int{40, 30, 20, 10}); j < ne; j++ {
			switch src.Weighted([]int{50, 35, 15}) {
			case 0:
				ext = append(ext, src.Range(1, 400))
			case 1:
				ext = append(ext, src.Range(401, 3000))
			default:
				ext = append(ext, cs*src.Range(1, 2)+src.Range(-1, 1))
			}
			if ext[len(ext)-1] < 1 {
				ext[len(ext)-1] = 1
			}
		}
		nameVariant, extDir, info := 0, 0, 0
		if w.ctx.Param("names", "1") == "1" {
			nameVariant = src.Weighted([]int{200, 3, 3, 3, 3, 2, 2, 2, 2, 2, 2})
			extDir = src.Weighted([]int{90, 4, 3, 3})
			info = src.Weighted([]int{90, 4, 3, 3})
		}
		s := w.buildSource(i, shard, replica, from, index, mainLen, ct, kind, seed, ext, nameVariant, extDir, info)
		w.sources = append(w.sources, s)
		w.root(shard, replica)
		total += len(s.chunks)
		w.ctx.Ev("source", uint64(i), uint64(rel), uint64(mainLen), uint64(ct), uint64(len(ext)), uint64(len(s.chunks)), uint64(nameVariant), uint64(extDir), uint64(info))
		w.sig = append(w.sig, uint64(rel), uint64(len(s.mainData)), uint64(len(s.chunks)), uint64(nameVariant))
		if nameVariant > 0 {
			w.ctx.Count("fault.unusual_file_name", 1)
		}
		if extDir > 0 || info > 0 {
			w.ctx.Count("fault.unusual_extfile_path", 1)
		}
	}
	w.ctx.Ev("chunksize", uint64(cs), uint64(total))
	w.sig = append(w.sig, uint64(cs))
	// the phase of the receiver's clock is arbitrary
	w.tick(src.Intn(64), false)
	cur := make([]int, n)
	steps := total*3 + 30
	for step := 0; step < steps && !w.stopped && !w.ctx.Violated(); step++ {
		var live []int
		for i := range cur {
			if cur[i] < len(w.sources[i].chunks) {
				live = append(live, i)
			}
		}
		if len(live) == 0 {
			break
		}
		weights := make([]int, len(live))
		for i := range weights {
			weights[i] = 3
		}
		weights[0] = 6
		i := live[src.Weighted(weights)]
		s := w.sources[i]
		c := cur[i]
		pw := []int{62, 4, 4, 4, 3, 4, 3, 2, 2, 3, 3, 3, 2, 1}
		if w.slow {
			// a slow transfer: pauses (each shorter than the idle timeout) between
			// most chunks, few other perturbations
			pw = []int{50, 1, 1, 1, 1, 1, 1, 1, 1, 1, 1, 45, 1, 1}
		}
		p := src.Weighted(pw)
		w.sig = append(w.sig, uint64(i)<<8|uint64(p))
		switch p {
		case 1: // the chunk is lost
			cur[i]++
			w.ctx.Count("fault.drop", 1)
			w.ctx.Ev("drop", uint64(i), uint64(c))
			continue
		case 2: // two chunks exchanged
			if c+1 < len(s.chunks) {
				w.ctx.Count("fault.swap", 1)
				w.sendChunk(s, c+1, nil)
				w.sendChunk(s, c, nil)
				cur[i] += 2
				continue
			}
		case 3: // an earlier chunk arrives again
			if c > 0 {
				back := src.Intn(3)
				if back > c-1 {
					back = c - 1
				}
				w.ctx.Count("fault.duplicate", 1)
				w.sendChunk(s, c-1-back, nil)
				continue
			}
		case 4: // the sender starts over
			if c > 0 {
				cur[i] = 0
				w.ctx.Count("fault.restart", 1)
				w.ctx.Ev("restart", uint64(i))
				continue
			}
		case 5: // data of a main file chunk altered
			if d := s.chunks[c].Data; !s.chunks[c].HasFileInfo && len(d) > 0 {
				// position in the file; mostly beyond the header: that is where the block checksums are
				base := int(s.chunks[c].FileChunkId) * cs
				lo := 0
				if base < 1024 && (w.ctx.Param("nohdr", "0") == "1" || src.Chance(3, 4)) {
					lo = 1024 - base
				}
				if lo < len(d) {
					off := lo + src.Intn(len(d)-lo)
					w.ctx.Count("fault.corrupt_main", 1)
					w.sendChunk(s, c, w.mutCorrupt(s, off, uint(src.Intn(8)), cs))
					cur[i]++
					continue
				}
			}
		case 6: // data of an external file chunk altered (probe, see package doc)
			if s.chunks[c].HasFileInfo && len(s.chunks[c].Data) > 0 {
				w.ctx.Count("fault.corrupt_ext", 1)
				w.sendChunk(s, c, w.mutCorrupt(s, src.Intn(len(s.chunks[c].Data)), uint(src.Intn(8)), cs))
				cur[i]++
				continue
			}
		case 7:
			w.ctx.Count("fault.wrong_deployment_id", 1)
			w.sendChunk(s, c, mutDid)
			continue
		case 8:
			w.ctx.Count("fault.wrong_bin_version", 1)
			w.sendChunk(s, c, mutBinVer)
			continue
		case 9:
			if c > 0 {
				w.ctx.Count("fault.foreign_sender", 1)
				w.sendChunk(s, c, mutFrom)
				continue
			}
		case 10: // some other chunk of the stream, out of order
			if len(s.chunks) > 2 {
				j := 1 + src.Intn(len(s.chunks)-1)
				if j != c {
					w.ctx.Count("fault.out_of_order", 1)
					w.sendChunk(s, j, nil)
					continue
				}
			}
		case 11:
			// a pause that leaves every live stream silent for less than the idle
			// timeout: all of them must survive, however long the run has lasted
			hi := w.timeout / 3
			if hi < 8 {
				hi = 8
			}
			t := src.Range(1, hi)
			fits := w.smallUsed+t <= 40*smallTickBudget
			for _, st := range w.streams {
				if st.idle+t >= w.timeout-1 {
					fits = false
				}
			}
			if fits {
				w.smallUsed += t
				w.ctx.Count("fault.short_silence", 1)
				w.tick(t, false)
				continue
			}
		case 12:
			w.ctx.Count("fault.long_silence", 1)
			w.tick(bigTicks, true)
			continue
		case 13:
			w.markRemoved(s.shard, s.replica)
			continue
		}
		w.sendChunk(s, c, nil)
		cur[i]++
	}
	return "sampled"
}

// ---------------------------------------------------------------------------
// enumerating runs

type pert struct {
	kind string
	a, b int
}

// EnumRuns bounds the run indexes of an enumerating part.
const EnumRuns = 16000

func (w *world) runEnum(idx int) string {
	cs, _ := strconv.Atoi(w.ctx.Param("cs", "1024"))
	if cs < 1024 {
		cs = 1024
	}
	w.setChunkSize(cs)
	ct := pb.NoCompression
	if w.ctx.Param("ct", "none") == "snappy" {
		ct = pb.Snappy
	}
	A := w.buildSource(0, 1, 2, 1, 100, 300, ct, 0, 0xa, []int{1500, 700}, 0, 0, 0)
	B := w.buildSource(1, 1, 3, 1, 100, 100, ct, 0, 0xb, []int{600}, 0, 0, 0)
	C := w.buildSource(2, 1, 2, 5, 100, 200, ct, 1, 0xc, []int{900}, 0, 0, 0)
	w.sources = []*source{A, B, C}
	w.root(1, 2)
	w.root(1, 3)
	nA := len(A.chunks)
	var list []pert
	list = append(list, pert{"none", 0, 0})
	for a := 0; a < nA; a++ {
		list = append(list, pert{"drop", a, 0}, pert{"did", a, 0}, pert{"binver", a, 0})
		if a+1 < nA {
			list = append(list, pert{"swap", a, 0})
		}
		if a > 0 {
			list = append(list, pert{"foreign", a, 0})
		}
		for b := 0; b <= a; b++ {
			list = append(list, pert{"dup", a, b})
		}
		for b := 0; b < nA; b++ {
			if b != a {
				list = append(list, pert{"jump", a, b})
			}
		}
		for j := range C.chunks {
			list = append(list, pert{"inject", a, j})
		}
	}
	for a := 0; a <= nA; a++ {
		list = append(list, pert{"restart", a, 0}, pert{"smalltick", a, 0}, pert{"bigtick", a, 0}, pert{"removed", a, 0},
			pert{"takeover", a, 0}, pert{"bigtick+restart", a, 0})
	}
	// the sender starts over with a first chunk whose header bytes are altered
	const hdrBits = 64 * 8
	for a := 1; a < nA; a++ {
		for b := 0; b < hdrBits; b++ {
			list = append(list, pert{"corrupt-restart", a, b})
		}
	}
	var p pert
	mainBits := len(A.mainData) * 8
	switch {
	case idx < len(list):
		p = list[idx]
	case idx < len(list)+mainBits:
		p = pert{"corrupt-main", idx - len(list), 0}
	default:
		// every 7th bit of the external file data (probe)
		j := (idx - len(list) - mainBits) * 7
		tot := 0
		for _, e := range A.ext {
			tot += len(e.data) * 8
		}
		if j >= tot {
			return "beyond"
		}
		p = pert{"corrupt-ext", j, 0}
	}
	if w.ctx.Param("nohdr", "0") == "1" && (p.kind == "corrupt-restart" || p.kind == "corrupt-main" && p.a < 1024*8) {
		return "beyond"
	}
	w.ctx.Ev("enum", uint64(idx), uint64(p.a), uint64(p.b), uint64(len(p.kind)))
	w.sig = append(w.sig, uint64(idx))
	if p.kind != "none" && p.kind != "smalltick" {
		w.ctx.Count("fault."+map[string]string{"did": "wrong_deployment_id", "binver": "wrong_bin_version", "foreign": "foreign_sender",
			"dup": "duplicate", "jump": "out_of_order", "inject": "foreign_sender", "restart": "restart", "bigtick": "long_silence",
			"removed": "replica_removed_enum", "takeover": "second_sender", "bigtick+restart": "long_silence", "drop": "drop", "swap": "swap",
			"corrupt-main": "corrupt_main", "corrupt-ext": "corrupt_ext", "corrupt-restart": "corrupt_main"}[p.kind], 1)
	}
	// locate the chunk holding a corrupted bit
	corruptChunk, corruptOff := -1, 0
	if p.kind == "corrupt-main" || p.kind == "corrupt-ext" {
		pos := p.a / 8
		for i, c := range A.chunks {
			if c.HasFileInfo != (p.kind == "corrupt-ext") {
				continue
			}
			if pos < len(c.Data) {
				corruptChunk, corruptOff = i, pos
				break
			}
			pos -= len(c.Data)
		}
	}
	aStopped := false
	skip := -1
	for pos := 0; pos <= nA; pos++ {
		if p.a == pos && !aStopped {
			switch p.kind {
			case "restart":
				for i := 0; i < nA; i++ {
					w.sendChunk(A, i, nil)
				}
				aStopped = true
			case "smalltick":
				w.tick(8, false)
			case "bigtick":
				w.tick(bigTicks, true)
			case "bigtick+restart":
				w.tick(bigTicks, true)
				for i := 0; i < nA; i++ {
					w.sendChunk(A, i, nil)
				}
				aStopped = true
			case "removed":
				w.markRemoved(A.shard, A.replica)
			case "corrupt-restart":
				w.sendChunk(A, 0, w.mutCorrupt(A, p.b/8, uint(p.b%8), cs))
			case "takeover":
				for j := range C.chunks {
					w.sendChunk(C, j, nil)
				}
			case "jump":
				if pos < nA {
					w.sendChunk(A, p.b, nil)
				}
			case "inject":
				if pos < nA {
					w.sendChunk(C, p.b, nil)
				}
			case "did":
				w.sendChunk(A, pos, mutDid)
			case "binver":
				w.sendChunk(A, pos, mutBinVer)
			case "foreign":
				w.sendChunk(A, pos, mutFrom)
			}
		}
		if pos == nA {
			break
		}
		if !aStopped && pos != skip {
			switch {
			case p.kind == "drop" && p.a == pos:
			case p.kind == "swap" && p.a == pos:
				w.sendChunk(A, pos+1, nil)
				w.sendChunk(A, pos, nil)
				skip = pos + 1
			case corruptChunk == pos:
				w.sendChunk(A, pos, w.mutCorrupt(A, corruptOff, uint(p.a%8), cs))
			default:
				w.sendChunk(A, pos, nil)
			}
			if p.kind == "dup" && p.a == pos {
				w.sendChunk(A, p.b, nil)
			}
		}
		if pos < len(B.chunks) {
			w.sendChunk(B, pos, nil)
		}
	}
	for pos := nA; pos < len(B.chunks); pos++ {
		w.sendChunk(B, pos, nil)
	}
	return fmt.Sprintf("enum %s a=%d b=%d", p.kind, p.a, p.b)
}

package chunks

import (
	"bytes"
	"fmt"
	"path"
	"strings"

	"github.com/lni/dragonboat/v4/internal/server"
	"github.com/lni/dragonboat/v4/raftio"
	pb "github.com/lni/dragonboat/v4/raftpb"
	"github.com/lni/dragonboat/v4/verifsim/l0/snapio"
)

// add calls the receiver, turning a panic into a value.
func (w *world) add(c pb.Chunk) (ok bool, panicked string) {
	defer func() {
		if r := recover(); r != nil {
			panicked = fmt.Sprintf("%v", r)
			if i := strings.Index(panicked, "\n"); i > 0 {
				panicked = panicked[:i] // errors carrying a stack trace: first line only
			}
			if len(panicked) > 300 {
				panicked = panicked[:300]
			}
		}
	}()
	return w.ch.Add(c), ""
}

func (w *world) touchOthers(k key) {
	for ok, st := range w.streams {
		if ok != k {
			st.otherSince = true
		}
	}
}

// deliver hands one chunk to the receiver through the real codec and checks
// the receiver's reaction against the reference model.
func (w *world) deliver(c pb.Chunk, tag deliverTag) {
	if w.stopped || w.ctx.Violated() {
		return
	}
	// the wire: real codec
	buf, err := c.Marshal()
	if err != nil {
		panic(err)
	}
	var rc pb.Chunk
	if err := rc.Unmarshal(buf); err != nil {
		w.ctx.Violate(Prop, "files-differ", "chunk %s does not survive the codec: %v", tag.desc, err)
		return
	}
	k := key{rc.ShardID, rc.ReplicaID, rc.Index}
	root := w.root(rc.ShardID, rc.ReplicaID)
	st := w.streams[k]
	isLast := rc.ChunkCount == rc.ChunkId+1
	w.delivered++

	// --- what the statement says must happen
	const (
		expIgnore  = iota // rejected, no effect at all
		expRemoved        // rejected, the replica is gone
		expAccept         // accepted
		expAny            // the statement leaves the reaction open
	)
	exp := expAccept
	why := ""
	switch {
	case rc.DeploymentId != did || rc.BinVer != raftio.TransportBinVersion:
		exp, why = expIgnore, "foreign deployment id / binary version"
	case w.removed[[2]uint64{rc.ShardID, rc.ReplicaID}]:
		exp, why = expRemoved, "replica removed"
	case st != nil && st.unknown && rc.ChunkId != 0:
		exp = expAny
	case rc.ChunkId == 0:
		if tag.mainCorrupt || tag.src.degenerate {
			exp = expAny
		}
	case st == nil:
		exp, why = expIgnore, "no stream in progress"
	case rc.ChunkId != st.next:
		exp, why = expIgnore, fmt.Sprintf("out of order (next expected %d)", st.next)
	case rc.From != st.from:
		exp, why = expIgnore, fmt.Sprintf("not from the sender that started the stream (%d)", st.from)
	case st.poisoned || tag.mainCorrupt || st.src.degenerate:
		exp = expAny
	}
	finalsBefore := len(w.finalized)
	before := w.snapshot()
	notesBefore, confBefore := len(w.notes), len(w.confirms)
	w.oplog = w.oplog[:0]
	w.logging = true
	ok, panicked := w.add(rc)
	w.logging = false
	after := w.snapshot()
	changes := diff(before, after)
	w.ctx.Ev("chunk", uint64(tag.src.id), uint64(tag.idx), rc.ChunkId, rc.From, uint64(exp), b2u(ok), b2u(panicked != ""), uint64(len(changes)))
	w.ctx.Tracef("deliver %s -> ok=%t exp=%d %s changes=[%s] %s", tag.desc, ok, exp, why, shorten(changes), panicked)
	if ok {
		w.accepted++
	} else {
		w.rejected++
	}

	// --- paths (whatever else happens)
	w.checkPaths("chunk "+tag.desc, []string{root}, rc.Index, false)
	if w.ctx.Violated() {
		return
	}
	if panicked != "" {
		if tag.src.degenerate {
			// a "file name" that is no file name: the statement only demands that it
			// cannot escape, which the path oracle has just checked
			w.ctx.Count("probe.degenerate_name_panic", 1)
			w.ctx.Tracef("PROBE receiver panicked on file name %q: %s", rc.Filepath, panicked)
			w.markUnknown(k)
			w.stopped = true
			return
		}
		expect := [...]string{"ignore it: " + why, "reject it: replica removed", "accept it", "any reaction but a crash"}[exp]
		if exp == expAny {
			switch {
			case st != nil && st.unknown && rc.ChunkId != 0:
				expect += ": " + st.unknownWhy
			case tag.mainCorrupt:
				expect += ": chunk with altered main file data"
			default:
				expect += ": stream carrying altered main file data"
			}
		}
		w.ctx.Violate(Prop, "panic", "receiver panicked on chunk %s [expected: %s]: %s", tag.desc, expect, panicked)
		return
	}

	if tag.src.degenerate && !ok {
		// a chunk whose announced file name is no file name is an invalid chunk:
		// ignored without effect (in particular it does not replace a stream in
		// progress)
		if len(changes) > 0 || len(w.notes) != notesBefore || len(w.confirms) != confBefore {
			w.ctx.Violate(Prop, "rejected-chunk-had-effect", "chunk %s with a file name that is no file name was refused but the disk changed: %s", tag.desc, shorten(changes))
			return
		}
		w.ctx.Count("ev.degenerate_name_ignored", 1)
		return
	}

	inKey := func(ch string) bool {
		p := ch[1:]
		return strings.HasPrefix(p, path.Join(root, server.GetSnapshotDirName(rc.Index)))
	}
	switch exp {
	case expIgnore:
		if ok {
			w.ctx.Violate(Prop, "rejected-chunk-had-effect", "chunk %s must be ignored (%s) but was accepted (Add returned true)", tag.desc, why)
			return
		}
		if len(changes) > 0 || len(w.notes) != notesBefore || len(w.confirms) != confBefore {
			w.ctx.Violate(Prop, "rejected-chunk-had-effect", "chunk %s ignored (%s) but the disk changed: %s (notifications +%d)", tag.desc, why, shorten(changes), len(w.notes)-notesBefore)
			return
		}
		if st != nil {
			st.rejSince = true
		}
		w.ctx.Count("ev.ignored_no_effect", 1)
		w.touchOthers(k)
		return
	case expRemoved:
		if ok {
			w.ctx.Violate(Prop, "rejected-chunk-had-effect", "chunk %s for a removed replica was accepted", tag.desc)
			return
		}
		for _, ch := range changes {
			p := ch[1:]
			d := strings.TrimSuffix(p, "/")
			inRecv := server.RecvSnapshotDirNameRe.MatchString(path.Base(d)) || server.RecvSnapshotDirNameRe.MatchString(path.Base(path.Dir(d)))
			if ch[0] != '-' || !strings.HasPrefix(p, root+"/") || !inRecv {
				w.ctx.Violate(Prop, "rejected-chunk-had-effect", "chunk %s for a removed replica changed the disk: %s", tag.desc, shorten(changes))
				return
			}
		}
		if len(w.notes) != notesBefore {
			w.ctx.Violate(Prop, "notification-count", "chunk %s for a removed replica produced a notification", tag.desc)
			return
		}
		delete(w.streams, k)
		w.ctx.Count("ev.rejected_removed", 1)
		w.touchOthers(k)
		return
	}
	// accepted or open: the disk may only change inside this snapshot's directories
	for _, ch := range changes {
		if !inKey(ch) {
			w.ctx.Violate(Prop, "stream-interference", "chunk %s changed something outside its own snapshot's directories: %s", tag.desc, shorten(changes))
			return
		}
	}
	if exp == expAccept && !ok {
		// the next expected chunk of the stream was refused
		finalExists := false
		if isLast {
			_, finalExists = w.finalized[k]
		}
		if !(isLast && finalExists) {
			oracle := "not-finalized-complete"
			switch {
			case st != nil && st.rejSince:
				oracle = "rejected-chunk-had-effect"
			case st != nil && st.otherSince:
				oracle = "stream-interference"
			}
			w.ctx.Violate(Prop, oracle, "chunk %s is the next expected chunk of its stream but was refused (ignored chunks before it on this stream: %t, other streams in between: %t)",
				tag.desc, st != nil && st.rejSince, st != nil && st.otherSince)
			return
		}
	}
	if exp == expAny && !ok && rc.ChunkId != 0 && st != nil && st.refused == "" {
		st.refused = fmt.Sprintf(" (the receiver refused chunk #%d of this stream and kept accepting the following ones)", rc.ChunkId)
	}
	// --- model transition
	if rc.ChunkId == 0 {
		st = &mstream{from: rc.From, next: 1, src: tag.src, pure: tag.unmodified() && tag.idx == 0, files: map[string][]byte{}}
		if tag.mainCorrupt {
			st.poisoned = true
			st.corrupt = tag.corrupt
			st.unknown = !ok // the old stream may or may not have survived
			st.unknownWhy = "stream in an unspecified state after a refused first chunk with altered data"
		}
		if tag.src.degenerate {
			st.unknown = true
			st.unknownWhy = "file name that is no file name"
		}
		w.streams[k] = st
	} else if st != nil {
		st.next = rc.ChunkId + 1
		st.pure = st.pure && tag.src == st.src && tag.idx == int(rc.ChunkId) && !tag.did && !tag.binver && !tag.foreign && !tag.mainCorrupt
		if tag.mainCorrupt {
			st.poisoned = true
			if st.corrupt == "" {
				st.corrupt = tag.corrupt
			}
		}
	}
	if st != nil {
		st.idle = 0 // an accepted chunk: the stream is not silent
		if tag.extCorrupt {
			st.extCorrupt = true
		}
		st.otherSince = false
		name := path.Base(rc.Filepath)
		if rc.FileChunkId == 0 {
			if _, seen := st.files[name]; !seen {
				st.order = append(st.order, name)
			}
			st.files[name] = nil
		}
		st.files[name] = append(st.files[name], rc.Data...)
	}
	w.touchOthers(k)
	finalDir := w.finalDirOf(k)
	_, existsNow := after[finalDir+"/"]
	_, existedBefore := before[finalDir+"/"]
	appeared := existsNow && !existedBefore
	if !isLast {
		if appeared {
			w.ctx.Violate(Prop, "finalized-incomplete", "chunk %s is not the last chunk but a finalized snapshot directory appeared", tag.desc)
			return
		}
		if len(w.notes) != notesBefore {
			w.ctx.Violate(Prop, "notification-count", "chunk %s is not the last chunk but a notification was produced", tag.desc)
		}
		return
	}
	// --- last chunk of the stream
	delete(w.streams, k)
	complete := st != nil && st.pure && !st.poisoned && !st.unknown && !st.src.degenerate
	switch {
	case st == nil || st.unknown || st.src.degenerate:
		// nothing is promised; only no foreign effects (checked above)
		if appeared {
			w.ctx.Count("probe.unknown_stream_finalized", 1)
			w.finalized[k] = &finalInfo{src: st.src, files: st.files, ext: true, skip: true, dirPath: finalDir, notes: len(w.notes) - notesBefore}
		}
		return
	case !complete:
		if appeared || ok {
			hdr := ""
			if st.poisoned {
				hdr = " [" + st.corrupt + "]" + st.refused
			}
			w.ctx.Violate(Prop, "finalized-incomplete", "stream of source %d finalized (Add=%t, directory appeared=%t) although its accepted chunks are not the complete unaltered sequence%s; last chunk %s",
				st.src.id, ok, appeared, hdr, tag.desc)
			return
		}
		if len(w.notes) != notesBefore {
			w.ctx.Violate(Prop, "notification-count", "a stream that did not finalize produced a notification (chunk %s)", tag.desc)
			return
		}
		w.ctx.Count("ev.corrupt_stream_refused", 1)
		return
	}
	if existedBefore {
		// a finalized snapshot of this index is already there: it has to stay as it is
		if len(changes) > 0 {
			for _, ch := range changes {
				if strings.HasPrefix(ch[1:], finalDir+"/") {
					w.ctx.Violate(Prop, "files-differ", "chunk %s: an already finalized snapshot directory was modified: %s", tag.desc, shorten(changes))
					return
				}
			}
		}
		if len(w.notes) != notesBefore {
			w.ctx.Violate(Prop, "notification-count", "chunk %s: a second notification for an already finalized snapshot", tag.desc)
			return
		}
		w.ctx.Count("probe.complete_stream_for_existing_snapshot", 1)
		return
	}
	if !ok || !appeared {
		oracle := "not-finalized-complete"
		if st.rejSince {
			oracle = "rejected-chunk-had-effect"
		}
		w.ctx.Violate(Prop, oracle, "all %d chunks of source %d were accepted in order from sender %d but no finalized snapshot directory appeared (Add=%t); last chunk %s",
			len(st.src.chunks), st.src.id, st.from, ok, tag.desc)
		return
	}
	_ = finalsBefore
	fi := &finalInfo{src: st.src, files: st.files, ext: st.extCorrupt, dirPath: finalDir}
	w.finalized[k] = fi
	if st.extCorrupt {
		if w.extStrict {
			w.ctx.Violate(Prop, "finalized-incomplete", "stream of source %d finalized although the data of an external file chunk was altered in transit (no checksum covers it)", st.src.id)
			return
		}
		w.ctx.Count("probe.extfile_corruption_finalized", 1)
	}
	w.checkFinalDir(after, fi, tag.desc)
	if w.ctx.Violated() {
		return
	}
	// exactly one notification, describing it
	if n := len(w.notes) - notesBefore; n != 1 {
		w.ctx.Violate(Prop, "notification-count", "finalizing source %d produced %d notifications", st.src.id, n)
		return
	}
	fi.notes = 1
	if msg := w.describes(w.notes[len(w.notes)-1], st.src, finalDir); msg != "" {
		w.ctx.Violate(Prop, "notification-count", "the notification does not describe the finalized snapshot of source %d: %s", st.src.id, msg)
		return
	}
	if n := len(w.confirms) - confBefore; n != 1 || w.confirms[len(w.confirms)-1] != [3]uint64{k.shard, k.replica, st.from} {
		w.ctx.Violate(Prop, "notification-count", "finalizing source %d produced %d confirmations %v", st.src.id, n, w.confirms[confBefore:])
		return
	}
	w.ctx.Count("ev.finalized", 1)
}

func (w *world) markUnknown(k key) {
	if st := w.streams[k]; st != nil {
		st.unknown = true
	} else {
		w.streams[k] = &mstream{unknown: true, files: map[string][]byte{}}
	}
}

// checkFinalDir compares a finalized directory with what the model says it holds.
func (w *world) checkFinalDir(img map[string]string, fi *finalInfo, what string) {
	if fi.skip {
		return
	}
	want := map[string][]byte{}
	if fi.ext {
		for n, d := range fi.files {
			want[n] = d
		}
	} else {
		want[fi.src.mainName] = fi.src.mainData
		for _, e := range fi.src.ext {
			want[(&pb.SnapshotFile{FileId: e.id}).Filename()] = e.data
		}
	}
	seen := 0
	for p, c := range img {
		if !strings.HasPrefix(p, fi.dirPath+"/") || p == fi.dirPath+"/" {
			continue
		}
		n := strings.TrimPrefix(p, fi.dirPath+"/")
		if n == "dragonboat.snapshot.message" {
			continue // flag file left for the consumer of the notification
		}
		d, ok := want[n]
		if !ok {
			w.ctx.Violate(Prop, "files-differ", "%s: finalized directory of source %d holds an unexpected entry %q", what, fi.src.id, n)
			return
		}
		seen++
		if w.bigDisk && len(d) > 1<<16 {
			if c != fmt.Sprintf("%d:%x:%x", len(d), d[:64], d[len(d)-64:]) {
				w.ctx.Violate(Prop, "files-differ", "%s: file %q of finalized source %d differs from the source (%d bytes)", what, n, fi.src.id, len(d))
				return
			}
			continue
		}
		if c != string(d) {
			at := -1
			cb := []byte(c)
			for i := 0; i < len(cb) && i < len(d); i++ {
				if cb[i] != d[i] {
					at = i
					break
				}
			}
			w.ctx.Violate(Prop, "files-differ", "%s: file %q of finalized source %d differs from the source: %d bytes vs %d, first difference at %d", what, n, fi.src.id, len(c), len(d), at)
			return
		}
	}
	if seen != len(want) {
		w.ctx.Violate(Prop, "files-differ", "%s: finalized directory of source %d holds %d of the %d source files", what, fi.src.id, seen, len(want))
	}
}

// tick advances the receiver's clock.
func (w *world) tick(n int, big bool) {
	if w.stopped || w.ctx.Violated() {
		return
	}
	w.oplog = w.oplog[:0]
	w.logging = true
	panicked := ""
	func() {
		defer func() {
			if r := recover(); r != nil {
				panicked = fmt.Sprintf("%v", r)
			}
		}()
		for i := 0; i < n; i++ {
			w.ch.Tick()
		}
	}()
	w.logging = false
	for _, st := range w.streams {
		st.idle += n
	}
	w.ctx.Ev("tick", uint64(n), b2u(big), b2u(panicked != ""))
	w.ctx.Count("ev.ticks", int64(n))
	if panicked != "" {
		w.ctx.Violate(Prop, "panic", "receiver panicked in Tick: %s", panicked)
		return
	}
	w.checkPaths("tick", w.allRoots(), 0, true)
	if !big {
		return
	}
	// longer than any timeout: every unfinished stream is collected
	img := w.snapshot()
	if t := w.tempDirs(img); len(t) > 0 {
		w.ctx.Violate(Prop, "temp-dir-leaked", "%d ticks without any chunk and %d temporary directories are still there: %s", n, len(t), shorten(t))
		return
	}
	if len(w.streams) > 0 {
		w.ctx.Count("fault.gc_collected_stream", int64(len(w.streams)))
	}
	w.streams = map[key]*mstream{}
}

// markRemoved records the replica as removed the way NodeHost does.
func (w *world) markRemoved(shard, replica uint64) {
	if w.removed[[2]uint64{shard, replica}] {
		return
	}
	w.root(shard, replica)
	if err := w.env.RemoveSnapshotDir(did, shard, replica); err != nil {
		panic(err)
	}
	w.removed[[2]uint64{shard, replica}] = true
	for k := range w.finalized {
		if k.shard == shard && k.replica == replica {
			delete(w.finalized, k) // RemoveSnapshotDir deletes the saved snapshots
		}
	}
	w.ctx.Ev("removed", shard, replica)
	w.ctx.Count("fault.replica_removed", 1)
}

// finish runs the end of run oracles.
func (w *world) finish() {
	if w.ctx.Violated() {
		return
	}
	if !w.stopped {
		w.tick(bigTicks, true)
	}
	if w.ctx.Violated() {
		return
	}
	img := w.snapshot()
	if !w.stopped {
		if t := w.tempDirs(img); len(t) > 0 {
			w.ctx.Violate(Prop, "temp-dir-leaked", "temporary directories left at the end: %s", shorten(t))
			return
		}
	}
	have := w.finalDirs(img)
	wantDirs := map[string]*finalInfo{}
	for _, fi := range w.finalized {
		wantDirs[fi.dirPath] = fi
	}
	for d := range have {
		if _, ok := wantDirs[d]; !ok {
			w.ctx.Violate(Prop, "finalized-incomplete", "finalized snapshot directory %s exists but no stream delivered the complete sequence for it", path.Base(d))
			return
		}
	}
	for d, fi := range wantDirs {
		if !have[d] {
			w.ctx.Violate(Prop, "not-finalized-complete", "source %d was delivered completely but its finalized directory is gone at the end", fi.src.id)
			return
		}
		w.checkFinalDir(img, fi, "end of run")
	}
	// one notification per finalized snapshot and none else
	want := 0
	for _, fi := range w.finalized {
		want += fi.notes
	}
	// notifications of snapshots whose replica was removed afterwards stay counted
	if len(w.notes) < want {
		w.ctx.Violate(Prop, "notification-count", "%d notifications for %d finalized snapshots", len(w.notes), want)
	}
	seen := map[string]int{}
	for _, mb := range w.notes {
		if len(mb.Requests) == 1 {
			m := mb.Requests[0]
			seen[fmt.Sprintf("%d/%d/%d", m.ShardID, m.To, m.Snapshot.Index)]++
		}
	}
	for k, n := range seen {
		if n > 1 {
			w.ctx.Violate(Prop, "notification-count", "%d notifications for snapshot %s", n, k)
		}
	}
}

func b2u(b bool) uint64 {
	if b {
		return 1
	}
	return 0
}

// corruptData flips one bit of a chunk's data. For chunks of the main file
// the position is described relative to the file.
func corruptData(c *pb.Chunk, s *source, off int, bit uint, chunkSize int) string {
	c.Data = append([]byte(nil), c.Data...)
	c.Data[off] ^= 1 << bit
	if c.HasFileInfo {
		return fmt.Sprintf("external file %d chunk %d byte %d bit %d", c.FileInfo.FileId, c.FileChunkId, off, bit)
	}
	fo := int(c.FileChunkId)*chunkSize + off
	region := snapio.Region(s.mainData, true, fo)
	where := "covered by the block checksums"
	if fo < 1024 {
		where = "in the unprotected header region"
	}
	return fmt.Sprintf("main file byte %d bit %d (%s, %s)", fo, bit, region, where)
}

var _ = bytes.Equal

// Package chunks is the L0 simulator deciding property C15 (snapshot chunk
// transfer reassembles exactly or rejects).
//
// Real code: the sender side splitting of a snapshot message into chunks and
// the loading of their data (transport.splitSnapshotMessage / loadChunkData
// through the verif exports), the pb.Chunk codec, the receiver
// transport.Chunk (Add / Tick) with its rsm.SnapshotValidator, server.SSEnv
// and server.Env for the snapshot directories and the "replica removed"
// mark, rsm.SnapshotWriter for the source files.
//
// The simulator owns: the two disks (simfs), the delivery order of the
// chunks and everything that perturbs it, the clock (Tick), and a reference
// model of what the property statement allows.
package chunks

import (
	"bytes"
	"fmt"
	"io"
	"os"
	"path"
	"sort"
	"strings"
	"syscall"

	"github.com/lni/dragonboat/v4/config"
	"github.com/lni/dragonboat/v4/internal/rsm"
	"github.com/lni/dragonboat/v4/internal/server"
	"github.com/lni/dragonboat/v4/internal/transport"
	"github.com/lni/dragonboat/v4/internal/vfs"
	"github.com/lni/dragonboat/v4/raftio"
	pb "github.com/lni/dragonboat/v4/raftpb"
	"github.com/lni/dragonboat/v4/verifsim/choice"
	"github.com/lni/dragonboat/v4/verifsim/l0/snapio"
	"github.com/lni/dragonboat/v4/verifsim/runner"
	"github.com/lni/dragonboat/v4/verifsim/simfs"
)

// Prop is the property decided here.
const Prop = "C15"

const did = uint64(77)

// bigTicks is how many ticks of silence certainly exceed the receiver's
// timeout. Chosen generously by us (and printed in the evidence); not read
// from the implementation's settings.
const bigTicks = 6000

// smallTickBudget is how many ticks in total a run spends in "short pauses":
// a stream that has been silent for no longer than this must survive.
const smallTickBudget = 64

type extFile struct {
	id   uint64
	path string
	data []byte
	meta []byte
}

// source is one snapshot on the sender's disk together with its chunks.
type source struct {
	id                         int
	shard, replica, from       uint64
	index, term, onDiskIndex   uint64
	membership                 pb.Membership
	mainPath                   string
	mainData                   []byte
	ext                        []extFile
	chunks                     []pb.Chunk
	nameVariant                int
	mainName                   string // name the main file is expected to be stored under
	degenerate                 bool   // the announced file name is not a file name at all (".", "..", "/")
	extDirVariant, infoVariant int
}

type key struct{ shard, replica, index uint64 }

func (s *source) key() key { return key{s.shard, s.replica, s.index} }

// mstream is the reference model's view of the stream being received for a key.
type mstream struct {
	from       uint64
	next       uint64
	src        *source
	pure       bool // every accepted chunk so far is the unmodified next chunk of src
	poisoned   bool // a chunk of the main file with altered data was accepted
	extCorrupt bool // a chunk of an external file with altered data was accepted (probe)
	unknown    bool // the statement does not say what state the receiver is in
	corrupt    string
	refused    string
	unknownWhy string
	otherSince bool // chunks of other keys were delivered since the last accepted chunk
	rejSince   bool // chunks of this key were rejected since the stream started
	files      map[string][]byte
	order      []string
	idle       int // ticks since the last accepted chunk of this stream
}

type finalInfo struct {
	src     *source
	files   map[string][]byte
	ext     bool // finalized with altered external file data (probe)
	skip    bool // nothing is known about the content (stream in an unspecified state)
	notes   int
	dirPath string
}

type opRec struct {
	op   simfs.Op
	path string
}

// deliverTag is what the simulator knows about a chunk it delivers.
type deliverTag struct {
	src         *source
	idx         int
	did, binver bool // altered deployment id / binary version
	foreign     bool // altered sender
	mainCorrupt bool
	extCorrupt  bool
	desc        string
	corrupt     string
}

func (t deliverTag) unmodified() bool {
	return !t.did && !t.binver && !t.foreign && !t.mainCorrupt && !t.extCorrupt
}

type world struct {
	ctx  *runner.Ctx
	src  *choice.Source
	send *simfs.Disk
	sfs  vfs.IFS
	recv *simfs.Disk
	rfs  *recvFS
	env  *server.Env
	ch   *transport.Chunk

	sources   []*source
	streams   map[key]*mstream
	finalized map[key]*finalInfo
	removed   map[[2]uint64]bool
	roots     map[[2]uint64]string
	notes     []pb.MessageBatch
	confirms  [][3]uint64
	oplog     []opRec
	logging   bool
	smallUsed int
	timeout   int
	gc        int
	slow      bool
	stopped   bool
	delivered int
	accepted  int
	rejected  int
	sig       []uint64
	extStrict bool
	bigDisk   bool
}

// recvFS is the receiver's file system: the simulated disk, with the one
// POSIX rule lni/vfs MemFS lacks and that matters here: creating a file over
// an existing directory fails (MemFS would silently replace the directory
// and everything below it by an empty file).
type recvFS struct {
	*simfs.View
	w *world
}

func (f *recvFS) Create(name string) (vfs.File, error) {
	if st, err := f.View.Disk().Mem().Stat(name); err == nil && st.IsDir() {
		f.w.logOp(simfs.OpCreate, name)
		f.w.ctx.Count("probe.create_over_directory_refused", 1)
		return nil, &os.PathError{Op: "open", Path: name, Err: syscall.EISDIR}
	}
	return f.View.Create(name)
}

func (w *world) logOp(op simfs.Op, p string) {
	if w.logging {
		w.oplog = append(w.oplog, opRec{op, p})
	}
}

func newWorld(ctx *runner.Ctx) *world {
	w := &world{ctx: ctx, src: ctx.Src, streams: map[key]*mstream{}, finalized: map[key]*finalInfo{},
		removed: map[[2]uint64]bool{}, roots: map[[2]uint64]string{}}
	w.extStrict = ctx.Param("ext_strict", "0") == "1"
	w.send = simfs.NewDisk("sender", nil)
	w.sfs = w.send.View()
	w.recv = simfs.NewDisk("receiver", nil)
	w.rfs = &recvFS{View: w.recv.View(), w: w}
	w.recv.Record = w.logOp
	env, err := server.NewEnv(config.NodeHostConfig{NodeHostDir: "/nh"}, w.rfs)
	if err != nil {
		panic(err)
	}
	w.env = env
	if _, _, err := env.CreateNodeHostDir(did); err != nil {
		panic(err)
	}
	w.ch = transport.NewChunk(
		func(mb pb.MessageBatch) { w.notes = append(w.notes, mb) },
		func(shard, replica, from uint64) { w.confirms = append(w.confirms, [3]uint64{shard, replica, from}) },
		func(shard, replica uint64) string { return env.GetSnapshotDir(did, shard, replica) },
		did, w.rfs)
	// the receiver's idle timeout and collection interval are set by the run
	// (the shipped defaults are 900 and 30 ticks): with small values a run can
	// last many timeouts while no stream is ever silent for one
	w.timeout = []int{900, 40, 24, 90}[w.src.Intn(4)]
	w.gc = []int{30, 5, 3, 10}[w.src.Intn(4)]
	w.ch.VerifSetTimeouts(uint64(w.timeout), uint64(w.gc))
	w.slow = w.timeout != 900 && w.src.Chance(1, 3)
	return w
}

func (w *world) root(shard, replica uint64) string {
	k := [2]uint64{shard, replica}
	if r, ok := w.roots[k]; ok {
		return r
	}
	if err := w.env.CreateSnapshotDir(did, shard, replica); err != nil {
		panic(err)
	}
	r := w.env.GetSnapshotDir(did, shard, replica)
	w.roots[k] = r
	return r
}

// ---------------------------------------------------------------------------
// sources

var mainNameVariants = []string{"", "../x", "/abs/x", "a/../../y", "sub/z/", "..", "x/..", ".", "/", "<empty>", "..//"}

func (w *world) buildSource(id int, shard, replica, from, index uint64, mainLen int, ct pb.CompressionType,
	kind int, seed uint64, extSizes []int, nameVariant, extDirVariant, infoVariant int) *source {
	s := &source{id: id, shard: shard, replica: replica, from: from, index: index, term: 3 + from, onDiskIndex: 0,
		nameVariant: nameVariant, extDirVariant: extDirVariant, infoVariant: infoVariant}
	s.membership = pb.Membership{ConfigChangeId: index - 1, Addresses: map[uint64]string{1: "a1", 2: "a2", 3: "a3"},
		Removed: map[uint64]bool{9: true}}
	dir := fmt.Sprintf("/send/%d-%d-%d/%s", shard, replica, from, server.GetSnapshotDirName(index))
	if err := w.sfs.MkdirAll(dir, 0o755); err != nil {
		panic(err)
	}
	s.mainPath = path.Join(dir, server.GetSnapshotFilename(index))
	payload := snapio.Payload(seed, mainLen, kind)
	saved, err := snapio.Save(w.sfs, s.mainPath, rsm.DefaultVersion, ct, func(wr io.Writer) error {
		_, err := wr.Write(payload)
		return err
	})
	if err != nil {
		panic(fmt.Sprintf("building the source snapshot failed: %v", err))
	}
	s.mainData = readAll(w.send, s.mainPath)
	if uint64(len(s.mainData)) != saved.FileSize {
		panic("source file size differs from the recorded size")
	}
	var files []*pb.SnapshotFile
	for i, sz := range extSizes {
		e := extFile{id: uint64(10 + i*7), meta: []byte(fmt.Sprintf("meta-%d-%d", id, i))}
		e.path = path.Join(dir, (&pb.SnapshotFile{FileId: e.id}).Filename())
		e.data = snapio.Payload(seed+uint64(i)+1, sz, 1)
		f, err := w.sfs.Create(e.path)
		if err != nil {
			panic(err)
		}
		if _, err := f.Write(e.data); err != nil {
			panic(err)
		}
		_ = f.Sync()
		_ = f.Close()
		s.ext = append(s.ext, e)
		files = append(files, &pb.SnapshotFile{Filepath: e.path, FileSize: uint64(sz), FileId: e.id, Metadata: e.meta})
	}
	m := pb.Message{Type: pb.InstallSnapshot, From: from, To: replica, ShardID: shard, Term: s.term,
		Snapshot: pb.Snapshot{Filepath: s.mainPath, FileSize: saved.FileSize, Index: index, Term: s.term,
			Membership: s.membership, Files: files, Checksum: saved.Checksum, ShardID: shard, OnDiskIndex: s.onDiskIndex}}
	chunks, err := transport.VerifSplitSnapshotMessage(m, w.sfs)
	if err != nil {
		panic(err)
	}
	for i := range chunks {
		// what job.sendChunks does before a chunk goes on the wire
		chunks[i].DeploymentId = did
		data, err := transport.VerifLoadChunkData(chunks[i], w.sfs)
		if err != nil {
			panic(err)
		}
		chunks[i].Data = append([]byte(nil), data...)
	}
	// a sender whose local paths look unusual: the receiver must only ever use
	// the last element
	s.mainName = path.Base(s.mainPath)
	if nameVariant > 0 {
		v := mainNameVariants[nameVariant]
		if v == "<empty>" {
			v = ""
		}
		for i := range chunks {
			if !chunks[i].HasFileInfo {
				chunks[i].Filepath = v
			}
		}
		switch path.Base(v) {
		case ".", "..", "/":
			s.degenerate = true
		default:
			s.mainName = path.Base(v)
		}
	}
	for i := range chunks {
		if !chunks[i].HasFileInfo {
			continue
		}
		base := path.Base(chunks[i].Filepath)
		switch extDirVariant {
		case 1:
			chunks[i].Filepath = "../../" + base
		case 2:
			chunks[i].Filepath = "/" + base
		case 3:
			chunks[i].Filepath = "../" + server.GetSnapshotDirName(index+1) + "/" + base
		}
		switch infoVariant {
		case 1:
			chunks[i].FileInfo.Filepath = "../../evil"
		case 2:
			chunks[i].FileInfo.Filepath = "/etc/passwd"
		case 3:
			chunks[i].FileInfo.Filepath = ""
		}
	}
	s.chunks = chunks
	return s
}

func readAll(d *simfs.Disk, p string) []byte {
	f, err := d.Mem().Open(p)
	if err != nil {
		panic(err)
	}
	defer f.Close()
	st, _ := f.Stat()
	buf := make([]byte, st.Size())
	if len(buf) > 0 {
		if _, err := f.ReadAt(buf, 0); err != nil {
			panic(err)
		}
	}
	return buf
}

// ---------------------------------------------------------------------------
// observing the receiver's disk

// dump returns path -> content for every file and path+"/" -> "" for every
// directory of the disk (full paths; harness access, not an operation of the
// code under test). Large files are represented by their size and both ends
// when sparse is set.
func dump(d *simfs.Disk, sparse bool) map[string]string {
	out := map[string]string{}
	mem := d.Mem()
	var walk func(dir string)
	walk = func(dir string) {
		names, err := mem.List(dir)
		if err != nil {
			return
		}
		for _, n := range names {
			p := path.Join(dir, n)
			st, err := mem.Stat(p)
			if err != nil {
				continue
			}
			if st.IsDir() {
				out[p+"/"] = ""
				walk(p)
				continue
			}
			c := readAll(d, p)
			if sparse && len(c) > 1<<16 {
				out[p] = fmt.Sprintf("%d:%x:%x", len(c), c[:64], c[len(c)-64:])
			} else {
				out[p] = string(c)
			}
		}
	}
	walk("/")
	return out
}

func (w *world) snapshot() map[string]string { return dump(w.recv, w.bigDisk) }

func diff(a, b map[string]string) []string {
	var out []string
	for p, c := range a {
		if d, ok := b[p]; !ok {
			out = append(out, "-"+p)
		} else if d != c {
			out = append(out, "~"+p)
		}
	}
	for p := range b {
		if _, ok := a[p]; !ok {
			out = append(out, "+"+p)
		}
	}
	sort.Strings(out)
	return out
}

func shorten(l []string) string {
	if len(l) > 4 {
		return strings.Join(l[:4], " ") + fmt.Sprintf(" ... (%d changes)", len(l))
	}
	return strings.Join(l, " ")
}

// finalDirs lists the finalized snapshot directories found on the disk image.
func (w *world) finalDirs(img map[string]string) map[string]bool {
	out := map[string]bool{}
	for p := range img {
		if !strings.HasSuffix(p, "/") {
			continue
		}
		d := strings.TrimSuffix(p, "/")
		if server.SnapshotDirNameRe.MatchString(path.Base(d)) && w.isRoot(path.Dir(d)) {
			out[d] = true
		}
	}
	return out
}

func (w *world) tempDirs(img map[string]string) []string {
	var out []string
	for p := range img {
		if !strings.HasSuffix(p, "/") {
			continue
		}
		d := strings.TrimSuffix(p, "/")
		if server.RecvSnapshotDirNameRe.MatchString(path.Base(d)) {
			out = append(out, d)
		}
	}
	sort.Strings(out)
	return out
}

func (w *world) isRoot(p string) bool {
	for _, r := range w.roots {
		if r == p {
			return true
		}
	}
	return false
}

func (w *world) finalDirOf(k key) string {
	return path.Join(w.root(k.shard, k.replica), server.GetSnapshotDirName(k.index))
}

// checkPaths applies the path oracle to the operations logged during one
// call into the receiver. roots are the snapshot roots the call may work in;
// index restricts snapshot directories to those of one snapshot (0 = any).
func (w *world) checkPaths(what string, roots []string, index uint64, anyIndex bool) {
	prefix := server.GetSnapshotDirName(index)
	for _, o := range w.oplog {
		p := path.Clean(o.path)
		var root string
		for _, r := range roots {
			if p == r || strings.HasPrefix(p, r+"/") {
				root = r
			}
		}
		if root == "" {
			w.ctx.Violate(Prop, "path-escape", "%s: %s of %q which is outside the snapshot root of the replica (%s)", what, o.op, o.path, strings.Join(roots, ","))
			return
		}
		rel := strings.TrimPrefix(strings.TrimPrefix(p, root), "/")
		parts := []string{}
		if rel != "" {
			parts = strings.Split(rel, "/")
		}
		isSnapDir := func(n string) bool {
			if !server.SnapshotDirNameRe.MatchString(n) && !server.RecvSnapshotDirNameRe.MatchString(n) {
				return false
			}
			return anyIndex || strings.HasPrefix(n, prefix)
		}
		switch o.op {
		case simfs.OpCreate, simfs.OpWrite, simfs.OpLink, simfs.OpReuse, simfs.OpRemove:
			// files are only ever made inside a snapshot directory of this snapshot
			if len(parts) == 1 && isSnapDir(parts[0]) && o.op == simfs.OpCreate {
				// the announced name resolves to the snapshot directory itself (".", "/",
				// ""): nothing leaves the directory; the attempt fails on a POSIX disk
				w.ctx.Count("probe.name_resolves_to_snapshot_dir", 1)
				continue
			}
			if len(parts) == 0 && o.op == simfs.OpCreate {
				w.ctx.Violate(Prop, "path-escape", "%s: %s of %q: the announced file name resolves to the snapshot root of the replica itself (last path element \"..\"), one level above the directory of the snapshot being received", what, o.op, o.path)
				return
			}
			if len(parts) != 2 || !isSnapDir(parts[0]) {
				w.ctx.Violate(Prop, "path-escape", "%s: %s of %q: a file is created or written outside the directory of the snapshot being received (root %s)", what, o.op, o.path, root)
				return
			}
		case simfs.OpMkdir, simfs.OpRemoveAll, simfs.OpRename:
			if len(parts) != 1 || !isSnapDir(parts[0]) {
				w.ctx.Violate(Prop, "path-escape", "%s: %s of %q: not a snapshot directory of the snapshot being received (root %s)", what, o.op, o.path, root)
				return
			}
		default:
			if len(parts) > 2 {
				w.ctx.Violate(Prop, "path-escape", "%s: %s of %q: deeper than a file of a snapshot directory (root %s)", what, o.op, o.path, root)
				return
			}
		}
	}
}

func (w *world) allRoots() []string {
	var out []string
	for _, r := range w.roots {
		out = append(out, r)
	}
	sort.Strings(out)
	return out
}

func sameMembership(a, b pb.Membership) bool {
	if a.ConfigChangeId != b.ConfigChangeId || len(a.Addresses) != len(b.Addresses) ||
		len(a.Removed) != len(b.Removed) || len(a.NonVotings) != len(b.NonVotings) || len(a.Witnesses) != len(b.Witnesses) {
		return false
	}
	for k, v := range a.Addresses {
		if b.Addresses[k] != v {
			return false
		}
	}
	for k, v := range a.Removed {
		if b.Removed[k] != v {
			return false
		}
	}
	return true
}

// describes reports why a notification does not describe the finalized
// snapshot of src ("" when it does).
func (w *world) describes(mb pb.MessageBatch, src *source, finalDir string) string {
	if mb.DeploymentId != did || mb.BinVer != raftio.TransportBinVersion {
		return fmt.Sprintf("batch carries deployment id %d bin version %d", mb.DeploymentId, mb.BinVer)
	}
	if len(mb.Requests) != 1 {
		return fmt.Sprintf("%d messages in the batch", len(mb.Requests))
	}
	m := mb.Requests[0]
	if m.Type != pb.InstallSnapshot {
		return "message type " + m.Type.String()
	}
	if m.From != src.from || m.To != src.replica || m.ShardID != src.shard {
		return fmt.Sprintf("from %d to %d shard %d, expected from %d to %d shard %d", m.From, m.To, m.ShardID, src.from, src.replica, src.shard)
	}
	ss := m.Snapshot
	if ss.Index != src.index || ss.Term != src.term || ss.OnDiskIndex != src.onDiskIndex {
		return fmt.Sprintf("index %d term %d ondisk %d, expected %d %d %d", ss.Index, ss.Term, ss.OnDiskIndex, src.index, src.term, src.onDiskIndex)
	}
	if !sameMembership(ss.Membership, src.membership) {
		return "membership differs from the source's"
	}
	if ss.Filepath != path.Join(finalDir, src.mainName) {
		return fmt.Sprintf("snapshot file path %q, expected %q", ss.Filepath, path.Join(finalDir, src.mainName))
	}
	if ss.FileSize != uint64(len(src.mainData)) {
		return fmt.Sprintf("file size %d, expected %d", ss.FileSize, len(src.mainData))
	}
	if len(ss.Files) != len(src.ext) {
		return fmt.Sprintf("%d external files, expected %d", len(ss.Files), len(src.ext))
	}
	for i, f := range ss.Files {
		e := src.ext[i]
		want := path.Join(finalDir, (&pb.SnapshotFile{FileId: e.id}).Filename())
		if f.FileId != e.id || f.FileSize != uint64(len(e.data)) || !bytes.Equal(f.Metadata, e.meta) || f.Filepath != want {
			return fmt.Sprintf("external file %d described as id %d size %d path %q, expected id %d size %d path %q", i, f.FileId, f.FileSize, f.Filepath, e.id, len(e.data), want)
		}
	}
	return ""
}

package chunks

import (
	"fmt"
	"os"
	"regexp"
	"sort"
	"strconv"
	"strings"
	"testing"

	"github.com/lni/dragonboat/v4/logger"
	"github.com/lni/dragonboat/v4/verifsim/choice"
	"github.com/lni/dragonboat/v4/verifsim/runner"
)

type quiet struct{}

func (quiet) SetLevel(logger.LogLevel)                    {}
func (quiet) Debugf(format string, args ...interface{})   {}
func (quiet) Infof(format string, args ...interface{})    {}
func (quiet) Warningf(format string, args ...interface{}) {}
func (quiet) Errorf(format string, args ...interface{})   {}
func (quiet) Panicf(format string, args ...interface{})   { panic(fmt.Sprintf(format, args...)) }

func init() {
	logger.SetLoggerFactory(func(string) logger.ILogger { return quiet{} })
}

var numRe = regexp.MustCompile(`[0-9]+`)

// TestSummary runs many runs in process and prints every distinct class of
// violation with a count and an example (the batch runner stops a worker at
// its first violation). VERIF_CHUNKS_RUNS=n [VERIF_CHUNKS_PARAMS=k=v,...].
func TestSummary(t *testing.T) {
	nstr := os.Getenv("VERIF_CHUNKS_RUNS")
	if nstr == "" {
		t.Skip("set VERIF_CHUNKS_RUNS")
	}
	n, _ := strconv.Atoi(nstr)
	extra := os.Getenv("VERIF_CHUNKS_PARAMS")
	classes := map[string]int{}
	example := map[string]string{}
	counters := map[string]int64{}
	non := 0
	for i := 0; i < n; i++ {
		params := map[string]string{"_i": strconv.Itoa(i)}
		for _, kv := range strings.Split(extra, ",") {
			if j := strings.Index(kv, "="); j > 0 {
				params[kv[:j]] = kv[j+1:]
			}
		}
		sc := &runner.Scenario{Name: "l0/chunks", Run: Run}
		res, infra := runner.ExecRun(sc, params, Prop, choice.FromSeed(choice.Mix(1, uint64(i))), false)
		if infra != nil {
			t.Fatalf("run %d: %v", i, infra)
		}
		if res.Nontrivial {
			non++
		}
		for k, v := range res.Counters {
			counters[k] += v
		}
		for _, v := range res.Violations[:min(1, len(res.Violations))] {
			d := v.Detail
			if j := strings.Index(d, "src"); j > 0 {
				// keep the text, drop chunk identity
				d = d[:j] + "<chunk>" + afterParen(d[j:])
			}
			key := v.Oracle + " | " + numRe.ReplaceAllString(d, "N")
			if len(key) > 260 {
				key = key[:260]
			}
			classes[key]++
			if _, ok := example[key]; !ok {
				example[key] = fmt.Sprintf("run %d: %s", i, v.Detail)
			}
		}
	}
	fmt.Printf("runs=%d nontrivial=%d params=%s\n", n, non, extra)
	var keys []string
	for k := range counters {
		keys = append(keys, k)
	}
	sort.Strings(keys)
	for _, k := range keys {
		fmt.Printf("  %s=%d\n", k, counters[k])
	}
	keys = keys[:0]
	for k := range classes {
		keys = append(keys, k)
	}
	sort.Strings(keys)
	for _, k := range keys {
		fmt.Printf("CLASS %5d  %s\n       e.g. %s\n", classes[k], k, example[k])
	}
}

func afterParen(s string) string {
	depth := 0
	for i, c := range s {
		switch c {
		case '(':
			depth++
		case ')':
			depth--
			if depth == 0 {
				return s[i+1:]
			}
		}
	}
	return ""
}

func min(a, b int) int {
	if a < b {
		return a
	}
	return b
}

// TestOne traces a single run of the summary numbering (VERIF_CHUNKS_ONE=i).
func TestOne(t *testing.T) {
	s := os.Getenv("VERIF_CHUNKS_ONE")
	if s == "" {
		t.Skip()
	}
	i, _ := strconv.Atoi(s)
	params := map[string]string{"_i": s}
	for _, kv := range strings.Split(os.Getenv("VERIF_CHUNKS_PARAMS"), ",") {
		if j := strings.Index(kv, "="); j > 0 {
			params[kv[:j]] = kv[j+1:]
		}
	}
	sc := &runner.Scenario{Name: "l0/chunks", Run: Run}
	res, _ := runner.ExecRun(sc, params, Prop, choice.FromSeed(choice.Mix(1, uint64(i))), true)
	for _, l := range res.Trace {
		if len(l) > 420 {
			l = l[:420]
		}
		fmt.Println(l)
	}
	for _, v := range res.Violations {
		fmt.Println("VIOLATION", v.Oracle, v.Detail)
	}
}

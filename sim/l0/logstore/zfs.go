package logstore

import (
	"errors"
	"io"
	"os"
	"sync"
	"time"

	"github.com/cockroachdb/errors/oserror"

	gvfs "github.com/lni/vfs"

	"github.com/lni/dragonboat/v4/verifsim/simfs"
)

// zfs is the vfs.FS handed to the store under test. It forwards everything to
// a simfs.View. Once the View is dead (the disk "lost power") the store
// instance is a zombie: nothing it does may reach the disk any more, and its
// remaining goroutines (Tan's per-save sync goroutines, Pebble's WAL, flush and
// compaction goroutines, which panic - killing the whole simulator process -
// when a write fails) must be allowed to run down quietly. So for a dead View
// every mutating operation silently "succeeds" without any effect and every
// reading operation fails with simfs.ErrDead.
type zfs struct {
	v    *simfs.View
	mu   sync.Mutex
	open map[string]int // files this incarnation holds open
}

func newZFS(v *simfs.View) *zfs { return &zfs{v: v, open: map[string]int{}} }

func (z *zfs) wrap(f gvfs.File, name string) gvfs.File {
	z.mu.Lock()
	z.open[name]++
	z.mu.Unlock()
	return &zfile{f: f, z: z, name: name}
}

func (z *zfs) release(name string) {
	z.mu.Lock()
	if z.open[name] > 0 {
		z.open[name]--
	}
	z.mu.Unlock()
}

var _ gvfs.FS = (*zfs)(nil)

func isDead(err error) bool {
	return err != nil && (err == simfs.ErrDead || errors.Is(err, simfs.ErrDead))
}

func (z *zfs) Create(name string) (gvfs.File, error) {
	f, err := z.v.Create(name)
	if isDead(err) {
		return &zfile{}, nil
	}
	if err != nil {
		return nil, err
	}
	return z.wrap(f, name), nil
}

func (z *zfs) Link(oldname, newname string) error {
	if err := z.v.Link(oldname, newname); !isDead(err) {
		return err
	}
	return nil
}

func (z *zfs) Open(name string, opts ...gvfs.OpenOption) (gvfs.File, error) {
	f, err := z.v.Open(name, opts...)
	if err != nil {
		return nil, err
	}
	return z.wrap(f, name), nil
}

func (z *zfs) OpenDir(name string) (gvfs.File, error) {
	f, err := z.v.OpenDir(name)
	if isDead(err) {
		return &zfile{}, nil
	}
	if err != nil {
		return nil, err
	}
	return z.wrap(f, name), nil
}

func (z *zfs) OpenForAppend(name string) (gvfs.File, error) {
	f, err := z.v.OpenForAppend(name)
	if isDead(err) {
		return &zfile{}, nil
	}
	if err != nil {
		return nil, err
	}
	return z.wrap(f, name), nil
}

func (z *zfs) Remove(name string) error {
	err := z.v.Remove(name)
	if isDead(err) {
		return nil
	}
	if err != nil && errors.Is(err, oserror.ErrInvalid) {
		// lni/vfs MemFS refuses to remove a file that is open. simfs never
		// closes the handles of a crashed incarnation, so a file the dead
		// process had open can not be removed by its successor. That is an
		// artefact of the simulated disk: unless this incarnation itself holds
		// the file open, remove it regardless.
		z.mu.Lock()
		mine := z.open[name]
		z.mu.Unlock()
		if mine == 0 {
			return z.v.RemoveAll(name)
		}
	}
	return err
}

func (z *zfs) RemoveAll(name string) error {
	if err := z.v.RemoveAll(name); !isDead(err) {
		return err
	}
	return nil
}

func (z *zfs) Rename(oldname, newname string) error {
	if err := z.v.Rename(oldname, newname); !isDead(err) {
		return err
	}
	return nil
}

func (z *zfs) ReuseForWrite(oldname, newname string) (gvfs.File, error) {
	f, err := z.v.ReuseForWrite(oldname, newname)
	if isDead(err) {
		return &zfile{}, nil
	}
	if err != nil {
		return nil, err
	}
	return z.wrap(f, newname), nil
}

func (z *zfs) MkdirAll(dir string, perm os.FileMode) error {
	if err := z.v.MkdirAll(dir, perm); !isDead(err) {
		return err
	}
	return nil
}

type nopCloser struct{}

func (nopCloser) Close() error { return nil }

func (z *zfs) Lock(name string) (io.Closer, error) {
	c, err := z.v.Lock(name)
	if isDead(err) {
		return nopCloser{}, nil
	}
	return c, err
}

func (z *zfs) List(dir string) ([]string, error)     { return z.v.List(dir) }
func (z *zfs) Stat(name string) (os.FileInfo, error) { return z.v.Stat(name) }
func (z *zfs) PathBase(path string) string           { return z.v.PathBase(path) }
func (z *zfs) PathJoin(elem ...string) string        { return z.v.PathJoin(elem...) }
func (z *zfs) PathDir(path string) string            { return z.v.PathDir(path) }
func (z *zfs) GetDiskUsage(path string) (gvfs.DiskUsage, error) {
	return z.v.GetDiskUsage(path)
}

// zfile wraps a file handle; f == nil is a pure black hole (created by a
// zombie).
type zfile struct {
	f      gvfs.File
	z      *zfs
	name   string
	closed bool
}

func (z *zfile) Seek(offset int64, whence int) (int64, error) {
	if z.f == nil {
		return 0, nil
	}
	return z.f.Seek(offset, whence)
}

func (z *zfile) Close() error {
	if z.f == nil {
		return nil
	}
	if !z.closed {
		z.closed = true
		z.z.release(z.name)
	}
	if err := z.f.Close(); !isDead(err) {
		return err
	}
	return nil
}

func (z *zfile) Read(p []byte) (int, error) {
	if z.f == nil {
		return 0, simfs.ErrDead
	}
	return z.f.Read(p)
}

func (z *zfile) ReadAt(p []byte, off int64) (int, error) {
	if z.f == nil {
		return 0, simfs.ErrDead
	}
	return z.f.ReadAt(p, off)
}

func (z *zfile) Write(p []byte) (int, error) {
	if z.f == nil {
		return len(p), nil
	}
	n, err := z.f.Write(p)
	if isDead(err) {
		return len(p), nil
	}
	return n, err
}

func (z *zfile) WriteAt(p []byte, off int64) (int, error) {
	if z.f == nil {
		return len(p), nil
	}
	n, err := z.f.WriteAt(p, off)
	if isDead(err) {
		return len(p), nil
	}
	return n, err
}

type zinfo struct{}

func (zinfo) Name() string       { return "zombie" }
func (zinfo) Size() int64        { return 0 }
func (zinfo) Mode() os.FileMode  { return 0o644 }
func (zinfo) ModTime() time.Time { return time.Time{} }
func (zinfo) IsDir() bool        { return false }
func (zinfo) Sys() interface{}   { return nil }

func (z *zfile) Stat() (os.FileInfo, error) {
	if z.f == nil {
		return zinfo{}, nil
	}
	return z.f.Stat()
}

func (z *zfile) Sync() error {
	if z.f == nil {
		return nil
	}
	if err := z.f.Sync(); !isDead(err) {
		return err
	}
	return nil
}

package logstore

import "github.com/lni/dragonboat/v4/verifsim/runner"

var stores = []string{"tan", "tan-multiplexed", "pebble-plain", "pebble-batched"}

// Register registers the scenario "l0/logstore" and the checks C09 and C10.
func Register() {
	runner.RegisterScenario(&runner.Scenario{
		Name:     "l0/logstore",
		RealTime: true,
		Real: []string{
			"internal/tan (regular and multiplexed LogDB, record format, index, manifest/version set, open/recovery)",
			"internal/logdb ShardedDB (plain and batched entry format, cache, key encoding)",
			"internal/logdb/kv/pebble and cockroachdb/pebble (including its own goroutines)",
			"raftpb encodings of Update/Entry/EntryBatch/State/Snapshot/Bootstrap",
		},
		Stub: []string{
			"disk (SimFS over lni/vfs StrictMem; a crashed incarnation's later writes are swallowed, its reads fail)",
			"raft core and engine (a generator that honours the preconditions under which they call ILogDB)",
			"Tan's obsolete-file worker (its job is run or dropped at points chosen by the tape)",
			"Go scheduler pinned to one P during a run (param pin=0 to lift)",
		},
		Rule: ruleText,
		Run:  Run,
	})

	var c09 []runner.Part
	for _, s := range stores {
		c09 = append(c09, runner.Part{Scenario: "l0/logstore", Params: map[string]string{"store": s, "mode": "model"}, Share: 4})
	}
	// ImportSnapshot / RemoveNodeData of one replica of a multiplexed Tan db
	// destroys the data of the replicas sharing it (oracle
	// other-replica-damaged). This extra part never wipes a replica whose db is
	// shared, so that everything else keeps being explored to full depth.
	c09 = append(c09, runner.Part{Scenario: "l0/logstore",
		Params: map[string]string{"store": "tan-multiplexed", "mode": "model", "nowipe": "1"}, Share: 3})
	runner.RegisterCheck(&runner.Check{Property: "C09", Level: "exploration", QuickBudgetS: 60, ThoroughS: 900,
		Parts: c09,
		Assumptions: []string{
			"the workload only issues call sequences the raft core can issue (see the generator's precondition list in l0/logstore/gen.go)",
			"ranges starting at or below the compaction floor / a restored snapshot index are unspecified: whatever comes back is only counted (probes below_floor_*)",
			"the batched format's batch size (48) cannot be lowered per process; entry runs are drawn to straddle multiples of 48 instead",
		}})

	var c10 []runner.Part
	add := func(store, mode, enum string, share int) {
		p := map[string]string{"store": store, "mode": mode, "enum": enum}
		if store == "tan-multiplexed" {
			// see above: the C09 finding would otherwise be re-reported here as lost data
			p["nowipe"] = "1"
		}
		c10 = append(c10, runner.Part{Scenario: "l0/logstore", Params: p, Share: share})
	}
	for _, s := range stores {
		add(s, "crash", "1", 3)
		add(s, "crash", "0", 3)
		add(s, "ioerr", "1", 2)
		add(s, "ioerr", "0", 2)
	}
	for _, s := range []string{"pebble-plain", "pebble-batched"} {
		add(s, "kverr", "1", 2)
		add(s, "kverr", "0", 1)
	}
	runner.RegisterCheck(&runner.Check{Property: "C10", Level: "fault_enumeration", QuickBudgetS: 60, ThoroughS: 900,
		Parts: c10,
		Assumptions: []string{
			"fsync is honoured: data and directory entries are durable exactly when synced (lni/vfs StrictMem semantics); unsynced appended data may survive as a torn, possibly garbled prefix",
			"the hard state's commit index may come back as an older written value after a crash (Tan deliberately does not fsync updates that only move commit); term and vote may not (param strict_commit=1 removes the relaxation)",
			"durability is demanded of saves (SaveRaftState, SaveSnapshots, SaveBootstrapInfo, ImportSnapshot), not of RemoveEntriesTo / RemoveNodeData; an interrupted ImportSnapshot or RemoveNodeData may leave any per-record mixture and is repeated",
			"I/O errors are only injected into operations issued on the calling goroutine and into Pebble's WAL writes/syncs: a failing operation on Tan's per-save sync goroutines or on Pebble's flush/compaction goroutines, and a failing kv CompactEntries, panic on a goroutine of the store and end the process (which satisfies the property trivially and cannot be observed in-process)",
			"Tan closes its dbs in Go map order: a fault inside such a close lands on a fixed operation of a fixed db, but how far the other dbs had got is up to the Go runtime (measured: about 1 of 1000 sampled Tan crash/ioerr runs hashes differently between executions; a violation found there may need several replays)",
			"crash points inside a Pebble CompactEntriesTo are at the API boundary only (a failing compaction panics on ShardedDB's worker goroutine); Pebble's background goroutines make its file-system operation order less than fully deterministic, see the determinism evidence",
		}})
}

const ruleText = "one run = one tape: a store kind (param), 2-3 (shard, replica) pairs sharing the store, a payload/log-file-size profile, " +
	"4-40 operations (SaveRaftState batches with appends / suffix overwrites by a newer term / state only / restoring snapshots, also several replicas per batch; " +
	"SaveSnapshots, RemoveEntriesTo, CompactEntriesTo, RemoveNodeData, ImportSnapshot, SaveBootstrapInfo, close+reopen, Tan obsolete-file job) " +
	"each followed by random IterateEntries(low, high, maxSize) / ReadRaftState / GetSnapshot / GetBootstrapInfo / ListNodeInfo queries compared with RefStore. " +
	"mode=crash: the disk loses power before the k-th mutating file-system operation (for Pebble only the operations of the calling goroutine and of its WAL writer are counted, " +
	"and a CompactEntriesTo is only interrupted at its API boundary; inside a Tan close with more than one db, whose order is a Go map order, only the operations on one db picked by the tape are fault points, no torn tails are drawn and enumeration skips the window; enum=1: workloads of 3-9 operations derived from the run index _i, " +
	"every k and both the clean and the torn-tail variant are enumerated; enum=0: window and offset drawn from the tape, API boundary if the window is shorter, up to two crashes), " +
	"the store is reopened and every replica must equal an admissible state (acknowledged state; for the replicas of the interrupted save: before or after). " +
	"mode=ioerr / kverr: the k-th file-system operation / kv.IKVStore call fails; the call must fail, or what it acknowledged must survive a power cut. " +
	"non-trivial = at least 3 acknowledged operations, at least one entry saved, at least 5 queries and (fault modes) a fault that fired and a verified recovery; " +
	"distinct = hash of (operation kind sequence, final model size, fault position)"

// Package logstore is the L0 simulator of the log stores (properties C09 and
// C10): the real Tan (regular and multiplexed) and the real sharded Pebble
// store (plain and batched entry format) are opened over a simfs.Disk, driven
// with tape generated workloads over several (shard, replica) pairs, and
// compared with RefStore, a reference model written from the documented
// raftio.ILogDB contract. The fault modes crash the disk between two file
// system operations, or fail one file system operation / one kv.IKVStore
// call, and verify what a reopened store reports.
package logstore

import (
	"fmt"
	"io"
	"log"
	"math"
	"os"
	"runtime"
	"runtime/debug"
	"sort"
	"strconv"
	"strings"
	"sync"
	"sync/atomic"
	"time"

	"github.com/lni/dragonboat/v4/internal/tan"
	"github.com/lni/dragonboat/v4/logger"
	"github.com/lni/dragonboat/v4/raftio"
	pb "github.com/lni/dragonboat/v4/raftpb"
	"github.com/lni/dragonboat/v4/verifsim/choice"
	"github.com/lni/dragonboat/v4/verifsim/runner"
	"github.com/lni/dragonboat/v4/verifsim/simfs"
)

// plan is the fault of a run: the K-th eligible event over the whole run
// (enumeration) or the off-th eligible event of window win (sampling; crash
// mode falls back to the API boundary after that window).
type plan struct {
	active bool
	enumK  int
	win    int
	off    int
	dir    int // which Tan db inside a window whose dbs are visited in Go map order
	torn   bool
	fired  bool
}

type obsJob struct {
	name string
	job  func() error
}

type harness struct {
	ctx         *runner.Ctx
	src         *choice.Source // the tape
	wsrc        *choice.Source // workload decisions (the tape unless enumerating)
	kind        storeKind
	mode        string
	enum        bool
	afterImport bool   // an ImportSnapshot was done and the store has not been reopened and checked since
	wiped       string // set once a replica of a multiplexed Tan store was wiped (RemoveNodeData / ImportSnapshot)
	disk        *simfs.Disk
	view        *simfs.View
	db          raftio.ILogDB
	model       *RefStore
	g           *gen
	chk         *checker
	pairs       []raftio.NodeInfo

	memtable     uint64
	strictCommit bool
	opHash       bool
	nOps         int

	mu        sync.Mutex
	mainG     uint64
	inAPI     bool
	intra     bool // faults may land inside the current window
	unordered bool // the FS operations of the window have no fixed order
	win       int
	elig      int
	totalElig int
	step      int
	plan      plan
	crashed   bool
	injected  bool
	firedStep int
	firedAt   string
	curKind   string
	stop      bool // an oracle fired
	jobs      []obsJob
	faults    int
	kvs       []*kvStore // every Pebble kv store opened and not yet seen closing
	// unknown: replicas whose content is unspecified (a wipe - RemoveNodeData or
	// ImportSnapshot - was undone or torn by a crash in a way that is no per
	// record mixture of before and after); nothing is checked for them until
	// the wipe is repeated
	unknown map[raftio.NodeInfo]bool

	// probes
	rollovers, indexBlocks, reopens, acked, entriesSaved int
	logBytes                                             map[string]int
	sig                                                  uint64
	kvCalls                                              int
}

func goid() uint64 {
	var buf [40]byte
	n := runtime.Stack(buf[:], false)
	id := uint64(0)
	for _, c := range buf[len("goroutine "):n] {
		if c < '0' || c > '9' {
			break
		}
		id = id*10 + uint64(c-'0')
	}
	return id
}

// ---- simfs.Env ----

func (h *harness) armed() bool {
	return h.plan.active && !h.plan.fired && h.inAPI && h.intra
}

func (h *harness) hit() bool {
	if h.plan.enumK > 0 {
		return h.totalElig == h.plan.enumK
	}
	return h.win == h.plan.win && h.elig == h.plan.off
}

// inTarget: inside a window in which Tan walks its dbs in map order (close)
// only the operations on one db - picked by the plan - are fault points, so
// that the fault lands on the same operation whatever the order. Enumeration
// skips such windows; sampling covers them.
func (h *harness) inTarget(path string) bool {
	if !h.unordered {
		return true
	}
	if h.plan.enumK > 0 {
		return false
	}
	var dirs []string
	seen := map[string]bool{}
	for _, p := range h.pairs {
		d := fmt.Sprintf("%s/tandb/node-%d-%d/", dataDir, p.ShardID, p.ReplicaID)
		if h.kind == kTanMux {
			d = fmt.Sprintf("%s/tandb/shard-%d/", dataDir, p.ShardID%16)
		}
		if !seen[d] {
			seen[d] = true
			dirs = append(dirs, d)
		}
	}
	sort.Strings(dirs)
	t := dirs[h.plan.dir%len(dirs)]
	return strings.HasPrefix(path+"/", t)
}

func (h *harness) isTanLog(path string) bool {
	return !h.kind.isPebble() && strings.HasSuffix(path, ".log")
}

// FSOp sees every file system operation of the store under test.
func (h *harness) FSOp(d *simfs.Disk, op simfs.Op, path string, size int, index int64) (error, int) {
	h.mu.Lock()
	defer h.mu.Unlock()
	if h.isTanLog(path) {
		switch op {
		case simfs.OpCreate:
			h.logBytes[path] = 0
			if h.inAPI && h.step >= 0 {
				h.rollovers++
			}
		case simfs.OpWrite:
			b := h.logBytes[path]
			if b < 128*1024 && b+size >= 128*1024 {
				h.indexBlocks++
			}
			h.logBytes[path] = b + size
		}
	}
	if !h.armed() {
		return nil, 0
	}
	switch h.mode {
	case "crash":
		if !op.Mutating() || !h.inTarget(path) {
			return nil, 0
		}
		if h.kind.isPebble() && goid() != h.mainG &&
			!(strings.HasSuffix(path, ".log") && (op == simfs.OpWrite || op == simfs.OpSync)) {
			// Pebble's cleanup goroutines run concurrently with the caller;
			// counting their operations would make the crash point depend on
			// the Go scheduler. Its WAL writer works in lock step with the
			// committing caller and is counted.
			return nil, 0
		}
		h.elig++
		h.totalElig++
		if h.hit() {
			h.fireCrash(fmt.Sprintf("before %s %s during %s (window %d event %d)", op, path, h.curKind, h.win, h.elig))
		}
	case "ioerr":
		if !h.inTarget(path) {
			return nil, 0
		}
		if goid() != h.mainG {
			// a failing operation on a goroutine of the store (Tan's per save
			// sync goroutines, Pebble's flush/compaction) makes that goroutine
			// panic and kills the process; only Pebble's WAL writer hands the
			// error back to the caller
			if !(h.kind.isPebble() && strings.HasSuffix(path, ".log") && (op == simfs.OpWrite || op == simfs.OpSync)) {
				return nil, 0
			}
		}
		h.elig++
		h.totalElig++
		if h.hit() {
			h.plan.fired = true
			h.injected = true
			h.firedStep = h.step
			h.faults++
			h.ctx.Count("fault.ioerr", 1)
			h.ctx.Count("fault.ioerr."+op.String(), 1)
			h.firedAt = fmt.Sprintf("I/O error at %s %s during %s (window %d event %d)", op, path, h.curKind, h.win, h.elig)
			h.ctx.Tracef("FAULT %s", h.firedAt)
			if (op == simfs.OpWrite || op == simfs.OpCreate) && h.src.Chance(1, 4) {
				return simfs.ErrNoSpace, 0
			}
			if op == simfs.OpWrite && size > 1 && h.src.Chance(1, 3) {
				h.ctx.Count("fault.short_write", 1)
				return simfs.ErrInjected, 1 + h.src.Intn(size-1)
			}
			return simfs.ErrInjected, 0
		}
	}
	return nil, 0
}

func (h *harness) tornChooser() simfs.TornChooser {
	if !h.plan.torn || h.unordered {
		return nil
	}
	return func(path string, unsynced int) (int, bool) {
		// 0: nothing survives; otherwise a prefix, quite often all of it
		// (a completely written but never synced tail, possibly garbled)
		keep := 0
		switch h.src.Intn(4) {
		case 0:
		case 1:
			keep = unsynced
		default:
			keep = h.src.Intn(unsynced + 1)
		}
		garble := false && h.src.Chance(1, 3) // garbage sectors are outside the fault model of the properties (unsynced data is lost, never invented)
		h.ctx.Tracef("torn tail %s: %d of %d unsynced bytes survive, garbled=%t", path, keep, unsynced, garble)
		if keep > 0 {
			h.ctx.Count("fault.torn_tail", 1)
		}
		return keep, garble
	}
}

// fireCrash cuts the power (h.mu held, or called at an API boundary).
func (h *harness) fireCrash(where string) {
	h.plan.fired = true
	h.crashed = true
	h.firedStep = h.step
	h.firedAt = "crash " + where
	h.faults++
	h.ctx.Count("fault.crash", 1)
	h.ctx.Tracef("FAULT %s", h.firedAt)
	h.disk.Crash(h.tornChooser())
}

// ---- kvGate ----

func (h *harness) kvCall(method string) (bool, bool) {
	h.mu.Lock()
	defer h.mu.Unlock()
	h.kvCalls++
	if h.mode != "kverr" || !h.armed() || goid() != h.mainG {
		return false, false
	}
	h.elig++
	h.totalElig++
	if !h.hit() {
		return false, false
	}
	h.plan.fired = true
	h.injected = true
	h.firedStep = h.step
	h.faults++
	h.ctx.Count("fault.kverr", 1)
	h.ctx.Count("fault.kverr."+method, 1)
	applyFirst := method == "CommitWriteBatch" && h.src.Chance(1, 3)
	h.firedAt = fmt.Sprintf("kv error at %s during %s (window %d call %d, applied first: %t)", method, h.curKind, h.win, h.elig, applyFirst)
	h.ctx.Tracef("FAULT %s", h.firedAt)
	return true, applyFirst
}

// ---- store life cycle ----

func (h *harness) obsoleteHook(name string, job func() error) {
	for _, j := range h.jobs {
		if j.name == name {
			return // the worker's channel has capacity 1
		}
	}
	h.jobs = append(h.jobs, obsJob{name: name, job: job})
}

// openStep opens the store and performs the reads a NodeHost does at start
// up for every replica (which is what makes Tan open and recover each db).
func (h *harness) openStep() error {
	h.view = h.disk.View()
	h.jobs = nil
	var g kvGate
	if h.mode == "kverr" {
		g = h
	}
	db, err := openStore(h.kind, newZFS(h.view), h.memtable, g, func(s *kvStore) { h.kvs = append(h.kvs, s) })
	if err != nil {
		return err
	}
	h.db = db
	h.reopens++
	for _, p := range h.pairs {
		ss, err := db.GetSnapshot(p.ShardID, p.ReplicaID)
		if err != nil {
			return err
		}
		if _, err := db.ReadRaftState(p.ShardID, p.ReplicaID, ss.Index); err != nil && !isNoSavedLog(err) {
			return err
		}
	}
	return nil
}

// retire gets rid of a store instance that was crashed or has seen a fault.
func (h *harness) retire() {
	if h.db != nil {
		db := h.db
		h.db = nil
		h.guardedClose(db.Close)
	}
	h.jobs = nil
	h.closeStrays()
}

// guardedClose closes an instance that may be broken beyond repair: Pebble
// raises its fatal errors (which dragonboat turns into panics) while holding
// its DB mutex, after which Close blocks forever. Such an instance is
// abandoned (its goroutines are parked on that mutex). The timeout is an
// infrastructure guard only; nothing the run decides or reports depends on it.
func (h *harness) guardedClose(closeFn func() error) {
	done := make(chan struct{})
	go func() {
		defer close(done)
		defer func() {
			if r := recover(); r != nil {
				h.ctx.Tracef("zombie close panicked: %v", r)
			}
		}()
		if err := closeFn(); err != nil {
			h.ctx.Tracef("zombie close: %v", err)
		}
	}()
	t := time.NewTimer(250 * time.Millisecond)
	defer t.Stop()
	select {
	case <-done:
	case <-t.C:
		abandoned.Add(1)
	}
}

// abandoned counts store instances that could not be closed (process wide).
var abandoned atomic.Int64

// closeStrays closes Pebble instances that ShardedDB left open on an error
// path (see kvFactory).
func (h *harness) closeStrays() {
	for _, s := range h.kvs {
		if !s.closed {
			h.ctx.Count("ev.stray_kv_closed", 1)
			h.guardedClose(s.Close)
		}
	}
	h.kvs = nil
}

// ---- windows ----

type step struct {
	logical bool
	f       func() error
}

type outcome struct {
	err      error
	panicked bool
	pval     interface{}
	logical  int // index of the logical step (-1: none)
}

func (o *outcome) failed() bool { return o.err != nil || o.panicked }

func (h *harness) steps(op *wop) []step {
	switch op.kind {
	case opSave:
		wid := workerID(op.updates[0].ShardID)
		return []step{{true, func() error { return h.db.SaveRaftState(op.updates, wid) }}}
	case opSaveSnapshots:
		return []step{{true, func() error { return h.db.SaveSnapshots(op.updates) }}}
	case opRemoveEntries:
		return []step{{true, func() error { return h.db.RemoveEntriesTo(op.id.ShardID, op.id.ReplicaID, op.index) }}}
	case opCompact:
		return []step{{false, func() error {
			ch, err := h.db.CompactEntriesTo(op.id.ShardID, op.id.ReplicaID, op.index)
			if err != nil {
				return err
			}
			<-ch
			return nil
		}}}
	case opBootstrap:
		return []step{{true, func() error { return h.db.SaveBootstrapInfo(op.id.ShardID, op.id.ReplicaID, op.boot) }}}
	case opRemoveNode:
		return []step{{true, func() error { return h.db.RemoveNodeData(op.id.ShardID, op.id.ReplicaID) }}}
	case opImport:
		return []step{
			{true, func() error { return h.db.ImportSnapshot(op.snap, op.id.ReplicaID) }},
			{false, h.closeStep},
			{false, h.openStep},
		}
	case opReopen:
		if h.db == nil {
			return []step{{false, h.openStep}}
		}
		return []step{{false, h.closeStep}, {false, h.openStep}}
	case opObsolete:
		jobs := h.jobs
		h.jobs = nil
		return []step{{false, func() error {
			if !op.run {
				return nil
			}
			for _, j := range jobs {
				if err := j.job(); err != nil {
					return err
				}
			}
			return nil
		}}}
	}
	panic("unknown op")
}

func (h *harness) closeStep() error {
	db := h.db
	h.db = nil
	h.jobs = nil
	return db.Close()
}

// call runs one step of the store under test. While a fault is active a panic
// is a legitimate way for the store to fail; otherwise it is forwarded to the
// runner with its original stack (so that it is reported as a violation of
// the code under test).
func (h *harness) call(f func() error) (err error, panicked bool, pval interface{}) {
	h.mu.Lock()
	h.inAPI = true
	h.mu.Unlock()
	defer func() {
		r := recover()
		h.mu.Lock()
		h.inAPI = false
		active := h.crashed || h.injected
		h.mu.Unlock()
		if r != nil {
			if !active {
				panic(runner.ForwardedPanic{Val: r, Stack: string(debug.Stack())})
			}
			panicked, pval = true, r
		}
	}()
	err = f()
	return
}

// window executes one workload operation as a fault window.
func (h *harness) window(op *wop) outcome {
	h.mu.Lock()
	h.win++
	h.elig = 0
	h.curKind = op.kind.String()
	h.intra = true
	h.unordered = false
	if h.kind.isPebble() && op.kind == opCompact {
		// a failing compaction panics on ShardedDB's worker goroutine
		h.intra = false
	}
	h.mu.Unlock()
	out := outcome{logical: -1}
	st := h.steps(op)
	for i, s := range st {
		if s.logical {
			out.logical = i
		}
	}
	for i, s := range st {
		h.mu.Lock()
		h.step = i
		// Tan closes its dbs in map order
		h.unordered = !h.kind.isPebble() && (op.kind == opReopen || op.kind == opImport) && !s.logical &&
			h.db != nil && h.tanDBs() > 1
		h.mu.Unlock()
		out.err, out.panicked, out.pval = h.call(s.f)
		if out.failed() || h.crashed {
			break
		}
	}
	h.mu.Lock()
	h.intra = false
	if h.mode != "crash" && h.plan.active && !h.plan.fired && h.plan.enumK == 0 && h.plan.win == h.win {
		// the window had fewer events than drawn: first event of the next one
		h.plan.win++
		h.plan.off = 1
	}
	h.mu.Unlock()
	return out
}

func (h *harness) tanDBs() int {
	keys := map[uint64]struct{}{}
	for _, p := range h.pairs {
		if h.kind == kTanMux {
			keys[p.ShardID%16] = struct{}{}
		} else {
			keys[p.ShardID<<20|p.ReplicaID] = struct{}{}
		}
	}
	return len(keys)
}

// ---- running operations ----

func (h *harness) c09(oracle, detail string) {
	if h.wiped != "" {
		// what follows the wipe of one replica (RemoveNodeData / ImportSnapshot)
		// of a store that multiplexes several replicas over one Tan db is tagged:
		// the recorded finding is about that history only
		detail += " [cause=after-" + h.wiped + "-on-shared-tan-db]"
	}
	h.violate("C09", oracle, "%s", detail)
}

func (h *harness) c09c20(oracle, detail string) {
	h.ctx.Violate("C20", oracle, "log store after ImportSnapshot: %s", detail)
	h.c09(oracle, detail)
}

// violate reports an oracle firing and ends the run: once the store and the
// model have diverged nothing that follows means anything, whichever property
// the run is counted for.
func (h *harness) violate(property, oracle, format string, args ...interface{}) {
	h.stop = true
	if property == "C10" && h.mode == "crash" && h.ctx.Property == "C04" &&
		oracle != "bootstrap-mismatch" && oracle != "nodeinfo-mismatch" {
		// C04 (for the default Pebble log store and for Tan): what a replica saved
		// before it spoke - term, vote, entries, the snapshot record of an
		// InstallSnapshot - is there after a crash at any instant
		h.ctx.Violate("C04", oracle, "log store after a crash: "+format, args...)
	}
	h.ctx.Violate(property, oracle, format, args...)
}

func idArgs(ids []raftio.NodeInfo) []uint64 {
	var a []uint64
	for _, id := range ids {
		a = append(a, id.ShardID<<8|id.ReplicaID)
	}
	return a
}

func (h *harness) noteStale(op *wop) {
	mark := func(id raftio.NodeInfo, from uint64) {
		r := h.model.Get(id)
		for _, e := range r.Ents {
			if e.Index >= from {
				h.chk.stale[staleKey{id, e.Key}] = struct{}{}
			}
		}
		for _, e := range r.Opt {
			h.chk.stale[staleKey{id, e.Key}] = struct{}{}
		}
		if from == 0 {
			for _, e := range r.Ghost {
				h.chk.stale[staleKey{id, e.Key}] = struct{}{}
			}
		}
	}
	switch op.kind {
	case opSave:
		for _, u := range op.updates {
			if len(u.EntriesToSave) > 0 {
				mark(raftio.NodeInfo{ShardID: u.ShardID, ReplicaID: u.ReplicaID}, u.EntriesToSave[0].Index)
			}
		}
	case opImport:
		mark(op.id, op.snap.Index+1)
	case opRemoveNode:
		mark(op.id, 0)
	}
}

func (h *harness) describe(op *wop) string {
	switch op.kind {
	case opSave, opSaveSnapshots:
		s := op.kind.String()
		for _, u := range op.updates {
			s += fmt.Sprintf(" [%d/%d", u.ShardID, u.ReplicaID)
			if len(u.EntriesToSave) > 0 {
				s += fmt.Sprintf(" ents %d..%d t%d", u.EntriesToSave[0].Index, u.EntriesToSave[len(u.EntriesToSave)-1].Index, u.EntriesToSave[0].Term)
			}
			if !pb.IsEmptyState(u.State) {
				s += " st" + stateStr(u.State)
			}
			if !pb.IsEmptySnapshot(u.Snapshot) {
				s += fmt.Sprintf(" ss%d", u.Snapshot.Index)
			}
			s += "]"
		}
		return s
	case opRemoveEntries, opCompact:
		return fmt.Sprintf("%s %d/%d to %d", op.kind, op.id.ShardID, op.id.ReplicaID, op.index)
	case opImport:
		return fmt.Sprintf("import %d/%d ss%d", op.id.ShardID, op.id.ReplicaID, op.snap.Index)
	case opBootstrap, opRemoveNode:
		return fmt.Sprintf("%s %d/%d", op.kind, op.id.ShardID, op.id.ReplicaID)
	case opObsolete:
		return fmt.Sprintf("obsolete run=%t", op.run)
	}
	return op.kind.String()
}

func (h *harness) doOp(op *wop) {
	ids := op.touched()
	args := append([]uint64{uint64(op.kind), op.index}, idArgs(ids)...)
	for _, u := range op.updates {
		args = append(args, uint64(len(u.EntriesToSave)), u.Snapshot.Index, u.State.Commit, u.State.Term)
		if len(u.EntriesToSave) > 0 {
			args = append(args, u.EntriesToSave[0].Index)
		}
	}
	h.ctx.Ev(op.kind.String(), args...)
	h.ctx.Count("ev."+op.kind.String(), 1)
	h.ctx.Tracef("%s", h.describe(op))
	h.sig = (h.sig ^ uint64(op.kind+1)) * 1099511628211

	before := map[raftio.NodeInfo]*RefReplica{}
	after := map[raftio.NodeInfo]*RefReplica{}
	scratch := NewRefStore()
	for _, id := range ids {
		before[id] = h.model.Get(id).Clone()
		scratch.Nodes[id] = h.model.Get(id).Clone()
	}
	h.noteStale(op)
	op.apply(scratch)
	for _, id := range ids {
		after[id] = scratch.Nodes[id]
	}

	out := h.window(op)

	switch {
	case h.crashed:
		h.afterFault(op, out, before, after)
	case h.injected:
		h.afterFault(op, out, before, after)
	default:
		if out.failed() {
			h.c09("unexpected-error", fmt.Sprintf("%s failed without any fault: %v", h.describe(op), out.err))
			return
		}
		h.commit(op, after)
		if h.mode == "crash" && h.plan.active && !h.plan.fired && h.plan.enumK == 0 && h.plan.win == h.win {
			// the window had fewer events than drawn: crash at the API boundary
			h.ctx.Count("probe.boundary_crash", 1)
			h.fireCrash(fmt.Sprintf("after %s returned (window %d)", op.kind, h.win))
			h.afterFault(&wop{kind: opReopen}, outcome{logical: -1}, nil, nil)
			return
		}
		if op.kind == opImport || op.kind == opRemoveNode {
			if h.db != nil && h.kind.String() == "tan-multiplexed" {
				h.wiped = "wipe"
			}
			h.checkOthers(op)
		}
		if op.kind == opImport {
			h.afterImport = true
		}
		if op.kind == opReopen || op.kind == opImport {
			if h.afterImport {
				// what the store holds right after an ImportSnapshot and after the
				// restart that follows it is also what C20 is about
				h.fullCheck(h.c09c20)
			} else {
				h.fullCheck(h.c09)
			}
		}
		if op.kind == opReopen {
			h.afterImport = false
		}
		h.queries()
	}
}

func (h *harness) commit(op *wop, after map[raftio.NodeInfo]*RefReplica) {
	for id, r := range after {
		h.model.Nodes[id] = r
	}
	h.acked++
	if op.kind == opSave {
		for _, u := range op.updates {
			h.entriesSaved += len(u.EntriesToSave)
		}
	}
}

// checkOthers runs after an operation that wipes one replica (ImportSnapshot,
// RemoveNodeData): the obsolete-file job is run at once, as Tan's worker would,
// and every other replica of the store must still be exactly what it was.
func (h *harness) checkOthers(op *wop) {
	if h.db == nil {
		return
	}
	jobs := h.jobs
	h.jobs = nil
	for _, j := range jobs {
		if err := j.job(); err != nil {
			h.c09("unexpected-error", fmt.Sprintf("obsolete file deletion failed: %v", err))
			return
		}
	}
	h.chk.db = h.db
	for _, p := range h.known() {
		if p == op.id {
			continue
		}
		p := p
		h.chk.full(h.model.Get(p), func(o, d string) {
			h.violate("C09", "other-replica-damaged", "%s of %d/%d damaged replica %d/%d of the same store: %s: %s",
				op.kind, op.id.ShardID, op.id.ReplicaID, p.ShardID, p.ReplicaID, o, d)
		})
	}
}

// mixes enumerates the per record combinations of two replica models (used
// only for the multi step operations whose atomicity the properties do not
// state: ImportSnapshot and RemoveNodeData).
func mixes(before, after *RefReplica) []*RefReplica {
	out := []*RefReplica{after, before}
	for mask := 1; mask < 15; mask++ {
		m := before.Clone()
		m.Removed = false
		m.Touched = before.Touched || after.Touched
		if mask&1 != 0 {
			m.HasState, m.State = after.HasState, after.State
		}
		m.Written = append(append([]pb.State(nil), before.Written...), after.Written...)
		if mask&2 != 0 {
			m.Snap = after.Snap
		}
		m.WrittenSnap = append(append([]uint64(nil), before.WrittenSnap...), after.WrittenSnap...)
		if mask&4 != 0 {
			m.HasBoot, m.Boot = after.HasBoot, after.Boot
		}
		if mask&8 != 0 {
			a := after.Clone()
			m.Ents, m.Floor, m.Last, m.Ghost, m.Opt = a.Ents, a.Floor, a.Last, a.Ghost, a.Opt
			m.ProbeAll = after.Removed
		}
		m.MaxEver = max64(before.MaxEver, after.MaxEver)
		out = append(out, m)
	}
	return out
}

// afterFault handles a window in which the disk crashed or an error was
// injected: it works out which states each replica may legitimately be in,
// restarts the store on what the disk holds and verifies.
func (h *harness) afterFault(op *wop, out outcome, before, after map[raftio.NodeInfo]*RefReplica) {
	cands := map[raftio.NodeInfo][]*RefReplica{}
	touchedOracle := "partial-save"
	redo := false
	swallowed := false
	switch {
	case out.logical < 0:
		// no logical change in this window
	case h.crashed && h.firedStep > out.logical, h.injected && !out.failed():
		// the logical step was acknowledged
		if h.injected && h.firedStep == out.logical {
			// ... although an error was injected into it
			h.ctx.Count("probe.error_not_surfaced", 1)
			switch op.kind {
			case opSave, opSaveSnapshots, opBootstrap, opImport:
				// a save that reports success must be durable
				swallowed = true
				touchedOracle = "error-swallowed"
				for id := range after {
					cands[id] = []*RefReplica{after[id]}
				}
			}
		}
		h.commit(op, after)
	case h.firedStep < out.logical:
		// never reached the logical step
	default:
		// interrupted (or failed) inside the logical step
		for id := range after {
			switch op.kind {
			case opRemoveEntries:
				cands[id] = []*RefReplica{after[id]}
			case opImport, opRemoveNode:
				cands[id] = mixes(before[id], after[id])
				redo = true
			default:
				cands[id] = []*RefReplica{after[id], before[id]}
			}
		}
	}
	how := "power loss"
	if h.injected {
		// the instance that saw the error is abandoned: either the machine
		// goes down (unsynced data lost) or only the process does (everything
		// written so far reaches the disk)
		if swallowed || h.src.Chance(1, 2) {
			h.disk.Crash(nil)
		} else {
			how = "process death"
			h.ctx.Count("probe.process_death", 1)
			h.disk.SyncAll()
			h.disk.Crash(nil)
		}
	}
	h.ctx.Ev("fault", uint64(h.win), uint64(h.firedStep), b2u(out.failed()), b2u(swallowed))
	h.retire()
	if h.ctx.Tracing {
		h.dumpDir("/", how)
	}
	h.mu.Lock()
	h.crashed, h.injected = false, false
	h.mu.Unlock()
	wiped := map[raftio.NodeInfo]bool{}
	if redo {
		wiped[op.id] = true
	}
	h.recoverAndVerify(cands, touchedOracle, how, wiped)
	if h.stop {
		return
	}
	if redo {
		// the operator runs the tool again
		h.ctx.Count("probe.redo", 1)
		rid := op.id
		r := &wop{kind: op.kind, id: rid, snap: op.snap}
		sc := NewRefStore()
		sc.Nodes[rid] = h.model.Get(rid).Clone()
		r.apply(sc)
		o := h.window(r)
		if o.failed() {
			h.violate("C10", "unexpected-error", "%s failed when repeated after recovery: %v", h.describe(r), o.err)
			return
		}
		h.commit(r, map[raftio.NodeInfo]*RefReplica{rid: sc.Nodes[rid]})
		delete(h.unknown, rid)
	}
	h.queries()
}

func (h *harness) dumpDir(dir string, how string) {
	m := h.disk.Mem()
	l, err := m.List(dir)
	if err != nil {
		return
	}
	sort.Strings(l)
	for _, n := range l {
		p := m.PathJoin(dir, n)
		st, err := m.Stat(p)
		if err != nil {
			continue
		}
		if st.IsDir() {
			h.dumpDir(p, how)
		} else {
			h.ctx.Tracef("disk after %s: %s (%d bytes)", how, p, st.Size())
		}
	}
}

func b2u(b bool) uint64 {
	if b {
		return 1
	}
	return 0
}

func specific(o string) bool {
	switch o {
	case "gap", "state-never-written", "snapshot-never-written", "stale-entry", "entry-past-end", "iterate-wrong-entry":
		return true
	}
	return false
}

// recoverAndVerify restarts the store (no faults) and checks every replica
// against its candidate states.
func (h *harness) recoverAndVerify(cands map[raftio.NodeInfo][]*RefReplica, touchedOracle string, how string,
	wiped map[raftio.NodeInfo]bool) {
	_, panicked, pval := error(nil), false, interface{}(nil)
	var err error
	func() {
		defer func() {
			if r := recover(); r != nil {
				panicked, pval = true, r
			}
		}()
		err = h.openStep()
	}()
	if err != nil || panicked {
		h.violate("C10", "reopen-failed", "store does not reopen after %s (%s): err=%v panic=%v", h.firedAt, how, err, pval)
		h.retire()
		return
	}
	h.chk.db = h.db
	h.chk.lenientCommit = !h.strictCommit
	defer func() { h.chk.lenientCommit = false }()
	for _, p := range h.pairs {
		list := cands[p]
		undone := wiped[p]
		if len(list) == 0 {
			cur := h.model.Get(p)
			list = []*RefReplica{cur}
			if cur.Removed && cur.PreRemoval != nil {
				list = mixes(cur.PreRemoval, cur)
				undone = true
			}
		}
		var matched *RefReplica
		var fails []string
		firstOracle := ""
		for i, cand := range list {
			col := &collector{}
			st, ok := h.chk.full(cand, col.rep)
			if len(col.f) == 0 {
				matched = cand
				if ok && cand.HasState {
					cand.State = st
				}
				if i > 0 {
					h.ctx.Count("probe.recovered_not_after", 1)
				} else if len(list) > 1 {
					h.ctx.Count("probe.recovered_after", 1)
				}
				if i > 1 {
					h.ctx.Count("probe.recovered_mixed", 1)
				}
				if undone && i > 0 {
					h.ctx.Count("probe.removal_undone_by_crash", 1)
				}
				break
			}
			if i < 2 {
				fails = append(fails, col.String())
				if i == 0 {
					firstOracle = col.f[0].oracle
				}
			}
		}
		if matched == nil && undone {
			// the properties demand nothing of an undone / torn wipe
			h.ctx.Count("probe.wipe_left_unspecified_state", 1)
			h.unknown[p] = true
			continue
		}
		if matched == nil && h.ctx.Tracing {
			for i := list[0].Floor + 1; i <= list[0].Last; i++ {
				e, _, err := h.db.IterateEntries(nil, 0, p.ShardID, p.ReplicaID, i, i+1, math.MaxUint64)
				e2, _, err2 := h.db.IterateEntries(nil, 0, p.ShardID, p.ReplicaID, i, list[0].Last+3, math.MaxUint64)
				h.ctx.Tracef("diag %d/%d IterateEntries(%d,%d) -> %d entries err=%v; (%d,%d) -> %d entries err=%v", p.ShardID, p.ReplicaID, i, i+1, len(e), err, i, list[0].Last+3, len(e2), err2)
			}
		}
		if matched == nil {
			oracle := touchedOracle
			if cands[p] == nil || (len(list) == 1 && touchedOracle != "error-swallowed") {
				oracle = "acked-save-lost"
				if specific(firstOracle) {
					oracle = firstOracle
				}
			}
			h.violate("C10", oracle, "after %s (%s) replica %d/%d matches none of %d admissible states: vs newest {%s}%s",
				h.firedAt, how, p.ShardID, p.ReplicaID, len(list), fails[0], func() string {
					if len(fails) > 1 {
						return " vs previous {" + fails[1] + "}"
					}
					return ""
				}())
			return
		}
		h.model.Nodes[p] = matched
	}
	col := &collector{}
	h.chk.list(h.model, h.known(), h.unknown, col.rep)
	if len(col.f) > 0 {
		h.violate("C10", "acked-save-lost", "after %s (%s): %s", h.firedAt, how, col.String())
	}
	h.ctx.Count("probe.recovery_verified", 1)
}

// fullCheck verifies every replica completely (fault free).
func (h *harness) fullCheck(rep reporter) {
	h.chk.db = h.db
	for _, p := range h.known() {
		h.chk.full(h.model.Get(p), rep)
	}
	h.chk.list(h.model, h.known(), h.unknown, rep)
}

// known lists the replicas whose content is specified.
func (h *harness) known() []raftio.NodeInfo {
	if len(h.unknown) == 0 {
		return h.pairs
	}
	var out []raftio.NodeInfo
	for _, p := range h.pairs {
		if !h.unknown[p] {
			out = append(out, p)
		}
	}
	return out
}

// queries performs the random queries that follow every operation.
func (h *harness) queries() {
	if h.db == nil || h.stop {
		return
	}
	h.chk.db = h.db
	s := h.wsrc
	for _, p := range h.pairs {
		if h.unknown[p] {
			continue
		}
		ref := h.model.Get(p)
		if !h.chk.snapshot(ref, h.c09) {
			return
		}
		h.chk.readState(ref, h.c09)
		n := 1 + s.Intn(3)
		for i := 0; i < n; i++ {
			lo := uint64(1)
			if ref.Floor > 3 {
				lo = ref.Floor - 2
			}
			if s.Chance(3, 4) && ref.Last > ref.Floor {
				lo = ref.Floor + 1
			}
			low := lo + uint64(s.Intn(int(ref.Last+3-lo)+1))
			span := uint64(1)
			switch s.Intn(4) {
			case 0:
			case 1:
				span = 1 + uint64(s.Intn(4))
			default:
				span = 1 + uint64(s.Intn(int(ref.Last+uint64(len(ref.Opt))+4-min64(low, ref.Last+3))+1))
			}
			high := low + span
			var maxSize uint64
			switch s.Intn(5) {
			case 0:
				maxSize = math.MaxUint64
			case 1:
				maxSize = uint64(s.Intn(300))
			case 2:
				// exactly at / around an entry boundary
				k := uint64(s.Intn(int(span) + 1))
				sum := uint64(0)
				for j := uint64(0); j < k; j++ {
					if e, ok := ref.Entry(low + j); ok {
						sum += uint64(e.SizeUpperLimit())
					}
				}
				maxSize = sum + uint64(s.Intn(3))
				if maxSize > 0 {
					maxSize--
				}
			case 3:
				maxSize = uint64(s.Intn(5000))
			default:
				maxSize = uint64(s.Intn(200000))
			}
			n := h.chk.iterate(ref, low, high, maxSize, h.c09)
			h.ctx.Ev("q", p.ShardID<<8|p.ReplicaID, low, high, maxSize, uint64(n))
		}
		if s.Chance(1, 3) {
			h.chk.bootstrap(ref, h.c09)
		}
	}
	if s.Chance(1, 4) {
		h.chk.list(h.model, h.known(), h.unknown, h.c09)
	}
	if h.opHash {
		h.ctx.Ev("fsops", uint64(h.disk.Ops()))
	}
}

// ---- the run ----

var (
	enumMu   sync.Mutex
	enumSeen = map[string]int{} // workload -> number of eligible events (learned)
)

func atoi(s string, def int) int {
	if v, err := strconv.Atoi(s); err == nil {
		return v
	}
	return def
}

var quietOnce sync.Once

// quiet silences the info level chatter of the stores (Tan logs every open and
// close, Pebble every background error of a crashed instance through the std
// logger). Panicf still panics.
func quiet() {
	quietOnce.Do(func() {
		for _, pkg := range []string{"tan", "logdb", "pebblekv", "config", "settings"} {
			logger.GetLogger(pkg).SetLevel(logger.ERROR)
		}
		if os.Getenv("LOGSTORE_STDLOG") == "" {
			log.SetOutput(io.Discard)
		}
	})
}

// Run executes one simulated run.
func Run(ctx *runner.Ctx) *runner.Result {
	quiet()
	kind, ok := parseKind(ctx.Param("store", "tan"))
	if !ok {
		panic("logstore: unknown store " + ctx.Param("store", ""))
	}
	h := &harness{ctx: ctx, src: ctx.Src, wsrc: ctx.Src, kind: kind, mode: ctx.Param("mode", "model"),
		model: NewRefStore(), logBytes: map[string]int{}, sig: 14695981039346656037,
		unknown: map[raftio.NodeInfo]bool{}}
	switch h.mode {
	case "model", "crash", "ioerr":
	case "kverr":
		if !kind.isPebble() {
			panic("logstore: kverr needs a pebble store")
		}
	default:
		panic("logstore: unknown mode " + h.mode)
	}
	h.strictCommit = ctx.Param("strict_commit", "0") == "1"
	h.opHash = ctx.Param("ophash", "0") == "1"
	h.memtable = uint64(atoi(ctx.Param("memtable", ""), 256*1024))
	h.chk = &checker{stale: map[staleKey]struct{}{}}
	h.mainG = goid()
	if old := runtime.GOMAXPROCS(0); old != 1 && ctx.Param("pin", "1") == "1" {
		runtime.GOMAXPROCS(1)
		defer runtime.GOMAXPROCS(old)
	}

	// enumeration: the workload comes from the run index, the fault from its slot
	enumKey := ""
	slot := -1
	kmax := atoi(ctx.Param("kmax", ""), 0)
	if kmax <= 0 {
		kmax = map[string]int{"crash": 224, "ioerr": 448, "kverr": 96, "model": 1}[h.mode]
	}
	if is, ok := ctx.Params["_i"]; ok && ctx.Param("enum", "0") == "1" && h.mode != "model" {
		i, _ := strconv.ParseUint(is, 10, 64)
		slots := uint64(kmax)
		if h.mode == "crash" {
			slots *= 2
		}
		wid := i / slots
		slot = int(i % slots)
		h.enum = true
		h.wsrc = choice.FromSeed(choice.Mix(0x10c10, uint64(kind), uint64(len(h.mode)), wid))
		enumKey = fmt.Sprintf("%s/%s/%d", kind, h.mode, wid)
	}

	w := h.wsrc
	// configuration of the run
	all := []raftio.NodeInfo{{ShardID: 17, ReplicaID: 1}, {ShardID: 1, ReplicaID: 2}, {ShardID: 2, ReplicaID: 1}}
	h.pairs = []raftio.NodeInfo{{ShardID: 1, ReplicaID: 1}}
	first := w.Intn(3)
	h.pairs = append(h.pairs, all[first])
	if w.Chance(2, 3) {
		h.pairs = append(h.pairs, all[(first+1+w.Intn(2))%3])
	}
	big := w.Weighted([]int{10, 4, 1})
	batchy := kind == kPebbleBatched || w.Chance(1, 4)
	var logSize int64
	switch big {
	case 0:
		logSize = int64([]int{600, 1500, 4000}[w.Intn(3)])
	case 1:
		logSize = int64([]int{4000, 20000}[w.Intn(2)])
	default:
		logSize = 300000
	}
	manifest := int64(0)
	if w.Chance(1, 4) {
		manifest = 200
	}
	if h.enum {
		h.nOps = w.Range(3, 9)
	} else if h.mode == "model" {
		h.nOps = w.Range(6, 40)
	} else {
		h.nOps = w.Range(4, 30)
	}
	h.g = newGen(w, h.model, h.pairs, big, batchy)
	h.g.noWipeShared = ctx.Param("nowipe", "0") == "1"
	h.g.importBias = ctx.Param("importbias", "0") == "1"
	ctx.Ev("cfg", uint64(kind), uint64(len(h.pairs)), uint64(big), uint64(logSize), uint64(manifest), uint64(h.nOps))
	ctx.Tracef("cfg store=%s mode=%s pairs=%v big=%d logsize=%d manifest=%d ops=%d", kind, h.mode, h.pairs, big, logSize, manifest, h.nOps)

	if !kind.isPebble() {
		tan.VerifMaxLogFileSize = logSize
		tan.VerifMaxManifestFileSize = manifest
		tan.VerifObsoleteHook = h.obsoleteHook
		defer func() {
			tan.VerifMaxLogFileSize, tan.VerifMaxManifestFileSize, tan.VerifObsoleteHook = 0, 0, nil
		}()
	}

	// the fault plan
	if h.mode != "model" {
		h.plan.active = true
		if h.enum {
			if h.mode == "crash" {
				h.plan.enumK = slot/2 + 1
				h.plan.torn = slot%2 == 1
			} else {
				h.plan.enumK = slot + 1
			}
			enumMu.Lock()
			n, known := enumSeen[enumKey]
			enumMu.Unlock()
			if known && h.plan.enumK > n {
				ctx.Count("ev.enum_slot_beyond_workload", 1)
				return ctx.Finish(false, 0, 0, "enumeration slot beyond the last event of the workload")
			}
		} else {
			h.drawPlan(0)
		}
	}

	h.disk = simfs.NewDisk("logstore", h)
	defer h.retire()

	// window 0: the first open (on an empty disk)
	h.win = -1
	h.doOp(&wop{kind: opReopen})
	for i := 0; i < h.nOps && !h.stop && h.db != nil; i++ {
		op := h.g.next(len(h.jobs) > 0, true)
		h.doOp(&op)
		if h.mode == "crash" && !h.enum && h.plan.fired && h.faults < 2 && h.src.Chance(1, 2) {
			h.drawPlan(h.win + 1)
		}
	}

	// final: everything the model holds must be there, also after a clean
	// close and reopen
	if !h.stop && h.db != nil {
		h.mu.Lock()
		h.plan.active = false
		h.mu.Unlock()
		h.fullCheck(h.c09)
		if !h.stop {
			h.ctx.Ev("final-reopen")
			op := wop{kind: opReopen}
			out := h.window(&op)
			if out.failed() {
				h.c09("unexpected-error", fmt.Sprintf("final close/reopen failed: %v", out.err))
			} else {
				h.fullCheck(h.c09)
			}
		}
	}
	if h.enum && !h.plan.fired {
		enumMu.Lock()
		if len(enumSeen) < 1<<16 {
			enumSeen[enumKey] = h.totalElig
		}
		enumMu.Unlock()
		if h.totalElig >= kmax {
			ctx.Count("probe.enum_truncated", 1)
		}
	}

	// probes
	c := h.chk
	ctx.Count("probe.rollover", int64(h.rollovers))
	ctx.Count("probe.index_block", int64(h.indexBlocks))
	ctx.Count("probe.overwrite", int64(h.g.overwrites))
	ctx.Count("probe.batch_straddle", int64(h.g.straddles))
	ctx.Count("probe.restore", int64(h.g.restores))
	ctx.Count("probe.restore_inside_log", int64(h.g.restoresBelow))
	ctx.Count("probe.restore_suffix_retained", int64(c.optRetained))
	ctx.Count("probe.multi_replica_batch", int64(h.g.multi))
	ctx.Count("probe.reopen", int64(h.reopens))
	ctx.Count("probe.below_floor_zero_entry", int64(c.belowFloorBogus))
	ctx.Count("probe.below_floor_other_entry", int64(c.belowFloorOther))
	ctx.Count("probe.below_floor_panic", int64(c.belowFloorPanic))
	ctx.Count("probe.size_report_outside_bounds", int64(c.sizeOdd))
	ctx.Count("probe.commit_regressed", int64(c.commitRegressed))
	ctx.Count("probe.compaction", ctx.Res().Counters["ev.compact"]+ctx.Res().Counters["ev.removeentries"])
	ctx.Count("ev.query", int64(c.queries))
	ctx.Count("ev.fsop", h.disk.Ops())
	ctx.Count("ev.kvcall", int64(h.kvCalls))

	nontrivial := h.acked >= 3 && h.entriesSaved > 0 && c.queries >= 5
	if h.mode != "model" {
		nontrivial = nontrivial && h.faults > 0
	}
	sig := (h.sig ^ h.model.Size()) * 1099511628211
	sig = (sig ^ uint64(h.faults)<<32 ^ uint64(h.plan.win)<<16 ^ uint64(h.plan.off) ^ uint64(h.plan.enumK)<<8) * 1099511628211
	return ctx.Finish(nontrivial, sig, 0, fmt.Sprintf("%s/%s: %d ops acked, %d entries saved, %d queries, %d reopens, %d faults (%s)",
		kind, h.mode, h.acked, h.entriesSaved, c.queries, h.reopens, h.faults, h.firedAt))
}

// drawPlan draws a sampled fault: which window, which event inside it.
func (h *harness) drawPlan(from int) {
	h.mu.Lock()
	defer h.mu.Unlock()
	h.plan = plan{active: true}
	span := h.nOps + 1 - from
	if span < 1 {
		span = 1
	}
	h.plan.win = from + h.src.Intn(span)
	switch h.src.Intn(3) {
	case 0:
		h.plan.off = 1 + h.src.Intn(4)
	case 1:
		h.plan.off = 1 + h.src.Intn(16)
	default:
		h.plan.off = 1 + h.src.Intn(80)
	}
	h.plan.torn = h.src.Chance(1, 2)
	h.plan.dir = h.src.Intn(4)
	h.ctx.Ev("plan", uint64(h.plan.win), uint64(h.plan.off), b2u(h.plan.torn), uint64(h.plan.dir))
}

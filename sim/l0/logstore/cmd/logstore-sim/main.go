// logstore-sim is simcheck restricted to the l0/logstore scenario (checks C09
// and C10). It exists so that this simulator can be built and run on its own;
// the registered commands use cmd/simcheck.
package main

import (
	"os"

	"github.com/lni/dragonboat/v4/verifsim/l0/logstore"
	"github.com/lni/dragonboat/v4/verifsim/runner"
)

func main() {
	if d := os.Getenv("LOGSTORE_VERIF_DIR"); d != "" {
		// development: evidence, replays and known_findings.json somewhere else
		runner.VerifDir = d
	}
	logstore.Register()
	os.Exit(runner.Main(os.Args[1:]))
}

package logstore

import (
	"fmt"

	"github.com/lni/dragonboat/v4/raftio"
	pb "github.com/lni/dragonboat/v4/raftpb"
)

// RefStore is the reference model of a log store. It is written ONLY from the
// doc comments of raftio/logdb.go and the statements of properties C09/C10:
//
//   - SaveRaftState "atomically saves the Raft states, log entries and
//     snapshots metadata found in the pb.Update list";
//   - entries saved at an index that already exists overwrite the suffix of the
//     log starting there and logically truncate everything after them (C09);
//   - IterateEntries "returns the continuous Raft log entries ... between the
//     index value range of [low, high) up to a max size limit";
//   - ReadRaftState returns the persisted state plus "the index of the first
//     entry to iterate" and "the number of entries to iterate";
//   - RemoveEntriesTo "removes entries with indexes between (0, index]";
//   - GetSnapshot returns "the most recent snapshot";
//   - GetBootstrapInfo returns ErrNoBootstrapInfo when nothing was saved;
//   - RemoveNodeData "removes all data associated with the specified node";
//   - ImportSnapshot creates the metadata that makes the imported snapshot the
//     state of the replica (tools.ImportSnapshot: "the state captured in the
//     snapshot became the state of the shard").
//
// Where the documentation is silent the model is deliberately loose:
//
//   - Floor: everything at or below it was removed, or is covered by a
//     snapshot record that arrived through SaveRaftState (a follower restoring
//     from a snapshot) or ImportSnapshot. A store may or may not still return
//     such entries; if it does they must be the entries last written there.
//   - Opt: when a restoring snapshot lands inside the existing log, the
//     contract does not say whether the entries after it survive; until the
//     next entry save they are optional.
type RefStore struct {
	Nodes map[raftio.NodeInfo]*RefReplica
}

// RefReplica is the model of one (shard, replica) pair.
type RefReplica struct {
	ID       raftio.NodeInfo
	Touched  bool // something was saved for this replica
	Removed  bool // RemoveNodeData was acknowledged
	HasState bool
	State    pb.State
	Snap     pb.Snapshot // Index == 0: none
	HasBoot  bool
	Boot     pb.Bootstrap
	// Ents is the logical log (Floor, Last]; Ents[i].Index == Floor+1+i.
	Ents  []pb.Entry
	Floor uint64
	Last  uint64
	// Ghost holds, for indexes <= Floor, the entry most recently written there.
	Ghost map[uint64]pb.Entry
	// Opt are the optional entries (Last, Last+len(Opt)].
	Opt []pb.Entry
	// Written lists every hard state / snapshot index ever handed to the store
	// for this replica since it was (re)created (C10: recovered values must be
	// ones that were actually written).
	Written     []pb.State
	WrittenSnap []uint64
	// PreRemoval is what the replica held when RemoveNodeData was acknowledged.
	// The properties demand durability of saves, not of removals, so after a
	// crash a removed replica may be back (wholly or record by record).
	PreRemoval *RefReplica
	// MaxEver is the highest entry index ever saved (kept across removal).
	MaxEver uint64
	// ProbeAll: the log is the (empty) log of a removed replica; every index
	// up to MaxEver is probed (set on mixtures only).
	ProbeAll bool
}

// NewRefStore creates an empty model.
func NewRefStore() *RefStore {
	return &RefStore{Nodes: map[raftio.NodeInfo]*RefReplica{}}
}

// Get returns (creating it if required) the model of a replica.
func (s *RefStore) Get(id raftio.NodeInfo) *RefReplica {
	r, ok := s.Nodes[id]
	if !ok {
		r = &RefReplica{ID: id, Ghost: map[uint64]pb.Entry{}}
		s.Nodes[id] = r
	}
	return r
}

// Clone deep-copies a replica model.
func (r *RefReplica) Clone() *RefReplica {
	c := *r
	c.Ents = append([]pb.Entry(nil), r.Ents...)
	c.Opt = append([]pb.Entry(nil), r.Opt...)
	c.Ghost = make(map[uint64]pb.Entry, len(r.Ghost))
	for k, v := range r.Ghost {
		c.Ghost[k] = v
	}
	c.Written = append([]pb.State(nil), r.Written...)
	c.WrittenSnap = append([]uint64(nil), r.WrittenSnap...)
	return &c
}

// Entry returns the logical entry at index (Floor < index <= Last).
func (r *RefReplica) Entry(index uint64) (pb.Entry, bool) {
	if index <= r.Floor || index > r.Last {
		return pb.Entry{}, false
	}
	return r.Ents[index-r.Floor-1], true
}

// TermAt returns the term of the entry at index if the model still knows it.
func (r *RefReplica) TermAt(index uint64) (uint64, bool) {
	if e, ok := r.Entry(index); ok {
		return e.Term, true
	}
	if e, ok := r.Ghost[index]; ok {
		return e.Term, true
	}
	if r.Snap.Index == index && index != 0 {
		return r.Snap.Term, true
	}
	return 0, false
}

func (r *RefReplica) check() {
	if uint64(len(r.Ents)) != r.Last-r.Floor {
		panic(fmt.Sprintf("model broken: floor %d last %d len %d", r.Floor, r.Last, len(r.Ents)))
	}
	for i, e := range r.Ents {
		if e.Index != r.Floor+1+uint64(i) {
			panic("model broken: index")
		}
	}
}

// dropTo moves the entries at or below index into Ghost and raises the floor.
func (r *RefReplica) dropTo(index uint64) {
	if index <= r.Floor {
		return
	}
	for _, e := range r.Ents {
		if e.Index <= index {
			r.Ghost[e.Index] = e
		}
	}
	if index >= r.Last {
		r.Ents = nil
		r.Floor = index
		r.Last = index
	} else {
		r.Ents = append([]pb.Entry(nil), r.Ents[index-r.Floor:]...)
		r.Floor = index
	}
}

// ApplyUpdate applies one pb.Update of a SaveRaftState call.
func (r *RefReplica) ApplyUpdate(ud pb.Update) {
	r.Touched = true
	if !pb.IsEmptyState(ud.State) {
		r.State = ud.State
		r.HasState = true
		r.Written = append(r.Written, ud.State)
	}
	if !pb.IsEmptySnapshot(ud.Snapshot) {
		r.WrittenSnap = append(r.WrittenSnap, ud.Snapshot.Index)
		if ud.Snapshot.Index >= r.Snap.Index {
			r.Snap = ud.Snapshot
		}
		// a snapshot that arrives through SaveRaftState is one the replica
		// restores from: what the log looks like at or below its index is
		// not specified any more, and what survives after it is optional.
		s := ud.Snapshot.Index
		switch {
		case s >= r.Last:
			// optional entries above the new snapshot stay optional
			if k := s - r.Last; k < uint64(len(r.Opt)) {
				r.Opt = append([]pb.Entry(nil), r.Opt[k:]...)
			} else {
				r.Opt = nil
			}
			r.dropTo(s)
		case s > r.Floor:
			opt := append([]pb.Entry(nil), r.Ents[s-r.Floor:]...)
			r.Ents = r.Ents[:s-r.Floor]
			r.Last = s
			r.dropTo(s)
			r.Opt = opt
		}
	}
	if len(ud.EntriesToSave) > 0 {
		f := ud.EntriesToSave[0].Index
		if f <= r.Floor || f > r.Last+1 {
			panic(fmt.Sprintf("generator broke the save precondition: first %d floor %d last %d", f, r.Floor, r.Last))
		}
		r.Opt = nil
		r.Ents = append(append([]pb.Entry(nil), r.Ents[:f-r.Floor-1]...), ud.EntriesToSave...)
		r.Last = ud.EntriesToSave[len(ud.EntriesToSave)-1].Index
		if r.Last > r.MaxEver {
			r.MaxEver = r.Last
		}
	}
	r.check()
}

// ApplySnapshotRecord applies SaveSnapshots (a locally generated snapshot: a
// metadata record only, the log is untouched).
func (r *RefReplica) ApplySnapshotRecord(ss pb.Snapshot) {
	if pb.IsEmptySnapshot(ss) {
		return
	}
	r.Touched = true
	r.WrittenSnap = append(r.WrittenSnap, ss.Index)
	if ss.Index >= r.Snap.Index {
		r.Snap = ss
	}
}

// ApplyRemoveEntriesTo applies RemoveEntriesTo.
func (r *RefReplica) ApplyRemoveEntriesTo(index uint64) {
	r.dropTo(index)
	r.check()
}

// ApplyRemoveNodeData applies RemoveNodeData.
func (r *RefReplica) ApplyRemoveNodeData() {
	id := r.ID
	pre := r.PreRemoval
	if !r.Removed {
		pre = r.Clone()
	}
	*r = RefReplica{ID: id, Removed: true, Ghost: map[uint64]pb.Entry{}, PreRemoval: pre, MaxEver: r.MaxEver}
}

// ApplyImport applies ImportSnapshot.
func (r *RefReplica) ApplyImport(ss pb.Snapshot) {
	id := r.ID
	ghost := r.Ghost
	for _, e := range r.Ents {
		ghost[e.Index] = e
	}
	// entries above the imported index are gone for good
	for k := range ghost {
		if k > ss.Index {
			delete(ghost, k)
		}
	}
	*r = RefReplica{ID: id, Touched: true, Ghost: ghost, MaxEver: r.MaxEver}
	r.Snap = ss
	r.WrittenSnap = []uint64{ss.Index}
	r.Floor = ss.Index
	r.Last = ss.Index
	r.HasBoot = true
	r.Boot = pb.Bootstrap{Join: true, Type: ss.Type}
	r.HasState = true
	r.State = pb.State{Term: ss.Term, Commit: ss.Index}
	r.Written = []pb.State{r.State}
}

// ApplyBootstrap applies SaveBootstrapInfo.
func (r *RefReplica) ApplyBootstrap(bs pb.Bootstrap) {
	r.Touched = true
	r.HasBoot = true
	r.Boot = bs
}

// Size is a small measure of how much the model holds (run signature).
func (s *RefStore) Size() uint64 {
	n := uint64(0)
	for _, r := range s.Nodes {
		n += uint64(len(r.Ents)) + r.Floor*3 + r.Snap.Index*7 + r.State.Commit*11 + r.State.Term*13
	}
	return n
}

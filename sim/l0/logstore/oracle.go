package logstore

import (
	"bytes"
	"fmt"
	"math"

	"github.com/cockroachdb/errors"

	"github.com/lni/dragonboat/v4/raftio"
	pb "github.com/lni/dragonboat/v4/raftpb"
)

// reporter receives oracle firings: either straight into the run's violation
// list (fault free checking) or into a buffer (candidate matching after a
// crash).
type reporter func(oracle string, detail string)

type finding struct{ oracle, detail string }

type collector struct{ f []finding }

func (c *collector) rep(oracle, detail string) {
	if len(c.f) < 4 {
		c.f = append(c.f, finding{oracle, detail})
	}
}

func (c *collector) String() string {
	s := ""
	for i, f := range c.f {
		if i > 0 {
			s += "; "
		}
		s += f.oracle + ": " + f.detail
	}
	return s
}

func entryEqual(a, b pb.Entry) bool {
	return a.Term == b.Term && a.Index == b.Index && a.Type == b.Type && a.Key == b.Key &&
		a.ClientID == b.ClientID && a.SeriesID == b.SeriesID && a.RespondedTo == b.RespondedTo &&
		bytes.Equal(a.Cmd, b.Cmd)
}

func entryStr(e pb.Entry) string {
	return fmt.Sprintf("{i%d t%d k%d len%d}", e.Index, e.Term, e.Key, len(e.Cmd))
}

func strMapEqual(a, b map[uint64]string) bool {
	if len(a) != len(b) {
		return false
	}
	for k, v := range a {
		if w, ok := b[k]; !ok || w != v {
			return false
		}
	}
	return true
}

func boolMapEqual(a, b map[uint64]bool) bool {
	if len(a) != len(b) {
		return false
	}
	for k, v := range a {
		if w, ok := b[k]; !ok || w != v {
			return false
		}
	}
	return true
}

func snapEqual(a, b pb.Snapshot) bool {
	return a.Filepath == b.Filepath && a.FileSize == b.FileSize && a.Index == b.Index && a.Term == b.Term &&
		a.ShardID == b.ShardID && a.Type == b.Type && a.Imported == b.Imported && a.OnDiskIndex == b.OnDiskIndex &&
		a.Witness == b.Witness && a.Dummy == b.Dummy && bytes.Equal(a.Checksum, b.Checksum) &&
		a.Membership.ConfigChangeId == b.Membership.ConfigChangeId &&
		strMapEqual(a.Membership.Addresses, b.Membership.Addresses) &&
		strMapEqual(a.Membership.NonVotings, b.Membership.NonVotings) &&
		strMapEqual(a.Membership.Witnesses, b.Membership.Witnesses) &&
		boolMapEqual(a.Membership.Removed, b.Membership.Removed) && len(a.Files) == len(b.Files)
}

func bootEqual(a, b pb.Bootstrap) bool {
	return a.Join == b.Join && a.Type == b.Type && strMapEqual(a.Addresses, b.Addresses)
}

func stateStr(s pb.State) string { return fmt.Sprintf("{t%d v%d c%d}", s.Term, s.Vote, s.Commit) }

// checker compares one store instance with the model.
type checker struct {
	db raftio.ILogDB
	// lenientCommit: after a crash the recovered commit index may be an older
	// written value (see Rule text); Term and Vote must be the acknowledged ones.
	lenientCommit bool
	// tolerateErr: an I/O error was injected into this window; an operation
	// may fail, it may never return wrong data.
	tolerateErr bool
	// counters
	belowFloorBogus, belowFloorPanic, belowFloorOther, optRetained, sizeOdd, commitRegressed, queries, errsTolerated int
	stale                                                                                                            map[staleKey]struct{}
}

// staleKey identifies an entry version that was overwritten or truncated (by
// the unique Key the generator gives every entry).
type staleKey struct {
	id  raftio.NodeInfo
	key uint64
}

func (c *checker) fail(rep reporter, what string, err error) {
	if c.tolerateErr {
		c.errsTolerated++
		return
	}
	rep("unexpected-error", fmt.Sprintf("%s: %v", what, err))
}

// classify names the oracle for an entry that is not the expected one.
func (c *checker) classify(id raftio.NodeInfo, e pb.Entry) string {
	if _, ok := c.stale[staleKey{id, e.Key}]; ok && e.Key != 0 {
		return "stale-entry"
	}
	return "iterate-wrong-entry"
}

// iterate performs one IterateEntries query and checks the answer.
func (c *checker) iterate(ref *RefReplica, low, high, maxSize uint64, rep reporter) int {
	id := ref.ID
	c.queries++
	q := fmt.Sprintf("%d/%d IterateEntries(%d,%d,max %d)", id.ShardID, id.ReplicaID, low, high, maxSize)
	var ents []pb.Entry
	var size uint64
	var err error
	if low <= ref.Floor {
		// the contract is silent about ranges that start at or below the
		// floor (the raft core never asks for them: LogReader answers
		// ErrCompacted itself); even a panic is only counted
		panicked := false
		func() {
			defer func() {
				if r := recover(); r != nil {
					panicked = true
				}
			}()
			ents, size, err = c.db.IterateEntries(nil, 0, id.ShardID, id.ReplicaID, low, high, maxSize)
		}()
		if panicked {
			c.belowFloorPanic++
			return 0
		}
	} else {
		ents, size, err = c.db.IterateEntries(nil, 0, id.ShardID, id.ReplicaID, low, high, maxSize)
	}
	if err != nil {
		c.fail(rep, q, err)
		return 0
	}
	sumUL, sumSz := uint64(0), uint64(0)
	for i, e := range ents {
		want := low + uint64(i)
		if e.Index != want {
			if low <= ref.Floor && entryEqual(e, pb.Entry{}) {
				// contract silent: a removed index answered with a zero entry
				c.belowFloorBogus++
				return len(ents)
			}
			rep("gap", fmt.Sprintf("%s: entry #%d has index %d, expected %d", q, i, e.Index, want))
			return len(ents)
		}
		if e.Index >= high {
			rep("iterate-out-of-range", fmt.Sprintf("%s: returned index %d", q, e.Index))
			return len(ents)
		}
		sumUL += uint64(e.SizeUpperLimit())
		sumSz += uint64(e.Size())
		switch {
		case e.Index <= ref.Floor:
			// at or below the floor nothing is specified; only counted
			if g, ok := ref.Ghost[e.Index]; !ok || !entryEqual(g, e) {
				c.belowFloorOther++
			}
		case e.Index <= ref.Last:
			m, _ := ref.Entry(e.Index)
			if !entryEqual(m, e) {
				rep(c.classify(id, e), fmt.Sprintf("%s: returned %s, logical log holds %s", q, entryStr(e), entryStr(m)))
				return len(ents)
			}
		default:
			k := e.Index - ref.Last - 1
			if k < uint64(len(ref.Opt)) && entryEqual(ref.Opt[k], e) {
				c.optRetained++
			} else {
				o := c.classify(id, e)
				if o == "iterate-wrong-entry" {
					o = "entry-past-end"
				}
				rep(o, fmt.Sprintf("%s: returned %s past the logical end %d", q, entryStr(e), ref.Last))
				return len(ents)
			}
		}
	}
	if size < sumSz || size > sumUL {
		c.sizeOdd++ // documented only as "their total size in bytes"; not an oracle
	}
	if low > ref.Floor && low <= ref.Last {
		end := min64(high, ref.Last+1)
		want := end - low
		if uint64(len(ents)) < want {
			next, _ := ref.Entry(low + uint64(len(ents)))
			if sumUL+uint64(next.SizeUpperLimit()) <= maxSize {
				rep("short-read", fmt.Sprintf("%s: %d of %d entries returned (logical log (%d,%d]) although %d+%d bytes fit",
					q, len(ents), want, ref.Floor, ref.Last, sumUL, next.SizeUpperLimit()))
			}
		}
	}
	return len(ents)
}

// readState checks ReadRaftState(snapshot index) the way node.replayLog uses it.
func (c *checker) readState(ref *RefReplica, rep reporter) (pb.State, bool) {
	id := ref.ID
	c.queries++
	l := ref.Snap.Index
	rs, err := c.db.ReadRaftState(id.ShardID, id.ReplicaID, l)
	q := fmt.Sprintf("%d/%d ReadRaftState(%d)", id.ShardID, id.ReplicaID, l)
	if errors.Is(err, raftio.ErrNoSavedLog) {
		if ref.HasState {
			rep("state-mismatch", fmt.Sprintf("%s: ErrNoSavedLog although state %s was saved", q, stateStr(ref.State)))
		} else if ref.Last > max64(l, ref.Floor) {
			rep("log-end-mismatch", fmt.Sprintf("%s: ErrNoSavedLog although the log ends at %d", q, ref.Last))
		}
		return pb.State{}, false
	}
	if err != nil {
		c.fail(rep, q, err)
		return pb.State{}, false
	}
	switch {
	case !ref.HasState:
		if !pb.IsEmptyState(rs.State) {
			rep("state-mismatch", fmt.Sprintf("%s: state %s reported, none saved", q, stateStr(rs.State)))
		}
	case pb.IsStateEqual(rs.State, ref.State):
	case c.lenientCommit && rs.State.Term == ref.State.Term && rs.State.Vote == ref.State.Vote &&
		rs.State.Commit < ref.State.Commit && stateWritten(ref, rs.State):
		c.commitRegressed++
	default:
		o := "state-mismatch"
		if !stateWritten(ref, rs.State) {
			o = "state-never-written"
		}
		rep(o, fmt.Sprintf("%s: state %s, last saved %s", q, stateStr(rs.State), stateStr(ref.State)))
	}
	base := max64(l, ref.Floor)
	if rs.EntryCount == 0 {
		if ref.Last > base {
			rep("log-end-mismatch", fmt.Sprintf("%s: no entries reported, logical log is (%d,%d]", q, ref.Floor, ref.Last))
		}
		return rs.State, true
	}
	end := rs.FirstIndex + rs.EntryCount - 1
	optEnd := ref.Last + uint64(len(ref.Opt))
	if end != ref.Last && !(len(ref.Opt) > 0 && end == optEnd) {
		rep("log-end-mismatch", fmt.Sprintf("%s: first %d count %d ends at %d, logical log is (%d,%d]",
			q, rs.FirstIndex, rs.EntryCount, end, ref.Floor, ref.Last))
		return rs.State, true
	}
	if rs.FirstIndex == 0 || (ref.Last > base && rs.FirstIndex > base+1) {
		rep("log-start-mismatch", fmt.Sprintf("%s: first %d count %d, logical log is (%d,%d]",
			q, rs.FirstIndex, rs.EntryCount, ref.Floor, ref.Last))
		return rs.State, true
	}
	// "the number of entries to iterate": iterating must deliver them
	from := max64(rs.FirstIndex, ref.Floor+1)
	if from <= end {
		ents, _, err := c.db.IterateEntries(nil, 0, id.ShardID, id.ReplicaID, from, end+1, math.MaxUint64)
		if err != nil {
			c.fail(rep, q+" follow-up IterateEntries", err)
		} else if uint64(len(ents)) != end-from+1 {
			rep("gap", fmt.Sprintf("%s: promises entries [%d,%d] but IterateEntries(%d,%d) returns %d entries",
				q, rs.FirstIndex, end, from, end+1, len(ents)))
		}
	}
	return rs.State, true
}

func stateWritten(ref *RefReplica, s pb.State) bool {
	for _, w := range ref.Written {
		if pb.IsStateEqual(w, s) {
			return true
		}
	}
	return false
}

func (c *checker) snapshot(ref *RefReplica, rep reporter) bool {
	id := ref.ID
	c.queries++
	ss, err := c.db.GetSnapshot(id.ShardID, id.ReplicaID)
	q := fmt.Sprintf("%d/%d GetSnapshot", id.ShardID, id.ReplicaID)
	if err != nil {
		c.fail(rep, q, err)
		return false
	}
	if !snapEqual(ss, ref.Snap) {
		o := "snapshot-mismatch"
		written := ss.Index == 0
		for _, w := range ref.WrittenSnap {
			if w == ss.Index {
				written = true
			}
		}
		if !written {
			o = "snapshot-never-written"
		}
		rep(o, fmt.Sprintf("%s: index %d term %d file %q, newest saved is index %d term %d file %q",
			q, ss.Index, ss.Term, ss.Filepath, ref.Snap.Index, ref.Snap.Term, ref.Snap.Filepath))
		return false
	}
	return true
}

func (c *checker) bootstrap(ref *RefReplica, rep reporter) {
	id := ref.ID
	c.queries++
	bs, err := c.db.GetBootstrapInfo(id.ShardID, id.ReplicaID)
	q := fmt.Sprintf("%d/%d GetBootstrapInfo", id.ShardID, id.ReplicaID)
	if errors.Is(err, raftio.ErrNoBootstrapInfo) {
		if ref.HasBoot {
			rep("bootstrap-mismatch", q+": ErrNoBootstrapInfo although a record was saved")
		}
		return
	}
	if err != nil {
		c.fail(rep, q, err)
		return
	}
	if !ref.HasBoot {
		rep("bootstrap-mismatch", fmt.Sprintf("%s: record %+v reported, none saved", q, bs))
		return
	}
	if !bootEqual(bs, ref.Boot) {
		rep("bootstrap-mismatch", fmt.Sprintf("%s: %+v, saved %+v", q, bs, ref.Boot))
	}
}

// list checks ListNodeInfo: every replica with a bootstrap record is listed;
// nothing is listed that holds no data.
func (c *checker) list(m *RefStore, pairs []raftio.NodeInfo, ignore map[raftio.NodeInfo]bool, rep reporter) {
	c.queries++
	l, err := c.db.ListNodeInfo()
	if err != nil {
		c.fail(rep, "ListNodeInfo", err)
		return
	}
	got := map[raftio.NodeInfo]bool{}
	for _, n := range l {
		got[n] = true
	}
	for _, p := range pairs {
		r := m.Get(p)
		if r.HasBoot && !got[p] {
			rep("nodeinfo-mismatch", fmt.Sprintf("ListNodeInfo: %d/%d has a bootstrap record but is not listed (%v)", p.ShardID, p.ReplicaID, l))
		}
		if got[p] && (r.Removed || !r.Touched) {
			rep("nodeinfo-mismatch", fmt.Sprintf("ListNodeInfo: %d/%d listed but holds no data (%v)", p.ShardID, p.ReplicaID, l))
		}
		delete(got, p)
	}
	for n := range got {
		if ignore[n] {
			continue
		}
		rep("nodeinfo-mismatch", fmt.Sprintf("ListNodeInfo: unknown node %d/%d listed", n.ShardID, n.ReplicaID))
		break
	}
}

// full verifies everything the model knows about one replica.
func (c *checker) full(ref *RefReplica, rep reporter) (pb.State, bool) {
	// the order of node.replayLog: the snapshot record first, then
	// ReadRaftState with the index of that record (asking with any other
	// index is outside the contract)
	if !c.snapshot(ref, rep) {
		return pb.State{}, false
	}
	st, ok := c.readState(ref, rep)
	c.bootstrap(ref, rep)
	hi := ref.Last + uint64(len(ref.Opt)) + 3
	c.iterate(ref, ref.Floor+1, hi, math.MaxUint64, rep)
	if ref.Removed || ref.ProbeAll {
		// nothing may be left anywhere
		for low := uint64(2); low <= ref.MaxEver; low++ {
			c.iterate(ref, low, low+1, math.MaxUint64, rep)
		}
	}
	if ref.Floor > 0 {
		lo := uint64(1)
		if ref.Floor > 6 {
			lo = ref.Floor - 5
		}
		c.iterate(ref, lo, hi, math.MaxUint64, rep)
	}
	return st, ok
}

func isNoSavedLog(err error) bool { return errors.Is(err, raftio.ErrNoSavedLog) }

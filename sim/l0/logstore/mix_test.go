package logstore

import (
	"fmt"
	"os"
	"strconv"
	"testing"

	"github.com/lni/dragonboat/v4/verifsim/choice"
)

// TestPrintMix prints the run seed `simcheck dethash` uses for seed numbers
// given in MIXSEEDS (space for `simcheck one`).
func TestPrintMix(t *testing.T) {
	for _, f := range splitFields(os.Getenv("MIXSEEDS")) {
		s, _ := strconv.ParseUint(f, 10, 64)
		fmt.Printf("%d -> %d\n", s, choice.Mix(s, 7))
	}
}

func splitFields(s string) []string {
	var out []string
	cur := ""
	for _, c := range s {
		if c == ' ' || c == ',' {
			if cur != "" {
				out = append(out, cur)
			}
			cur = ""
		} else {
			cur += string(c)
		}
	}
	if cur != "" {
		out = append(out, cur)
	}
	return out
}

package logstore

import (
	"encoding/binary"
	"fmt"

	"github.com/lni/dragonboat/v4/raftio"
	pb "github.com/lni/dragonboat/v4/raftpb"
	"github.com/lni/dragonboat/v4/verifsim/choice"
)

type opKind int

const (
	opSave opKind = iota
	opSaveSnapshots
	opRemoveEntries
	opCompact
	opBootstrap
	opReopen
	opObsolete
	opImport
	opRemoveNode
	numOpKinds
)

var opNames = [...]string{"save", "savesnapshots", "removeentries", "compact", "bootstrap", "reopen",
	"obsolete", "import", "removenode"}

func (k opKind) String() string { return opNames[k] }

// wop is one workload operation.
type wop struct {
	kind    opKind
	updates []pb.Update     // save, savesnapshots
	id      raftio.NodeInfo // single replica operations
	index   uint64          // removeentries, compact
	snap    pb.Snapshot     // import
	boot    pb.Bootstrap    // bootstrap
	run     bool            // obsolete: run the job (else drop it)
}

// touched lists the replicas whose logical content the operation changes.
func (o *wop) touched() []raftio.NodeInfo {
	switch o.kind {
	case opSave, opSaveSnapshots:
		out := make([]raftio.NodeInfo, 0, len(o.updates))
		for _, u := range o.updates {
			out = append(out, raftio.NodeInfo{ShardID: u.ShardID, ReplicaID: u.ReplicaID})
		}
		return out
	case opRemoveEntries, opBootstrap, opImport, opRemoveNode:
		return []raftio.NodeInfo{o.id}
	}
	return nil
}

// apply applies the operation to the model.
func (o *wop) apply(m *RefStore) {
	switch o.kind {
	case opSave:
		for _, u := range o.updates {
			m.Get(raftio.NodeInfo{ShardID: u.ShardID, ReplicaID: u.ReplicaID}).ApplyUpdate(u)
		}
	case opSaveSnapshots:
		for _, u := range o.updates {
			m.Get(raftio.NodeInfo{ShardID: u.ShardID, ReplicaID: u.ReplicaID}).ApplySnapshotRecord(u.Snapshot)
		}
	case opRemoveEntries:
		m.Get(o.id).ApplyRemoveEntriesTo(o.index)
	case opBootstrap:
		m.Get(o.id).ApplyBootstrap(o.boot)
	case opImport:
		m.Get(o.id).ApplyImport(o.snap)
	case opRemoveNode:
		m.Get(o.id).ApplyRemoveNodeData()
	}
}

// genState is what the generator remembers per replica on top of the model:
// the replica's current term and vote (the values a raft node would put into
// its next hard state).
type genState struct {
	term uint64
	vote uint64
}

// gen generates workload operations that respect the preconditions under
// which the raft core calls the log store:
//
//   - entries of one update are consecutive, start at most one past the end of
//     the log, above the commit index / compaction floor / snapshot index, and
//     carry non decreasing terms; an overwrite carries a newer term;
//   - the hard state's term covers the entry terms, commit never decreases and
//     never exceeds the end of the log; the first save of a replica carries a
//     hard state; an update leaves State empty only when nothing changed;
//   - a snapshot inside SaveRaftState is one the replica restores from: its
//     index is above the commit index and the previous snapshot;
//   - SaveSnapshots records a snapshot of applied (<= commit) state;
//   - RemoveEntriesTo never goes past the latest snapshot index;
//   - one SaveRaftState call only carries shards of one step worker;
//   - ImportSnapshot runs in a tool while the NodeHost is stopped, so it is
//     followed by a close/reopen; a replica whose data was removed is never
//     used again (replica ids are not reused).
type gen struct {
	src    *choice.Source
	model  *RefStore
	pairs  []raftio.NodeInfo
	gs     map[raftio.NodeInfo]*genState
	seq    uint64
	big    int // payload profile: 0 small, 1 medium, 2 large
	batchy bool
	// counters filled while generating (probes)
	overwrites, straddles, restores, restoresBelow, multi int
	removedOne                                            bool
	dead                                                  map[raftio.NodeInfo]bool
	noWipeShared                                          bool // never wipe a replica whose Tan db is shared
	importBias                                            bool // ImportSnapshot is frequent (C20 part)
	imports                                               int
}

func newGen(src *choice.Source, model *RefStore, pairs []raftio.NodeInfo, big int, batchy bool) *gen {
	g := &gen{src: src, model: model, pairs: pairs, gs: map[raftio.NodeInfo]*genState{}, big: big, batchy: batchy,
		dead: map[raftio.NodeInfo]bool{}}
	for _, p := range pairs {
		g.gs[p] = &genState{term: 1}
	}
	return g
}

func (g *gen) cmd() []byte {
	var n int
	switch g.src.Weighted([]int{10, 6, 3, 1}) {
	case 0:
		n = g.src.Range(0, 16)
	case 1:
		n = g.src.Range(17, 200)
	case 2:
		if g.big >= 1 {
			n = g.src.Range(200, 3000)
		} else {
			n = g.src.Range(17, 400)
		}
	default:
		if g.big >= 2 {
			n = g.src.Range(3000, 50000)
		} else {
			n = g.src.Range(0, 64)
		}
	}
	if n == 0 {
		return nil
	}
	b := make([]byte, n)
	var s [8]byte
	binary.LittleEndian.PutUint64(s[:], g.seq*0x9e3779b97f4a7c15+1)
	for i := range b {
		b[i] = s[i&7] ^ byte(i>>3)
	}
	return b
}

func (g *gen) entries(first uint64, n int, term uint64) []pb.Entry {
	out := make([]pb.Entry, 0, n)
	for i := 0; i < n; i++ {
		g.seq++
		e := pb.Entry{Term: term, Index: first + uint64(i), Key: g.seq, Cmd: g.cmd()}
		switch g.src.Weighted([]int{12, 1, 2, 1}) {
		case 1:
			e.Type = pb.ConfigChangeEntry
		case 2:
			e.Type = pb.EncodedEntry
			e.ClientID = g.seq ^ 0x5555
			e.SeriesID = g.seq & 0xff
			e.RespondedTo = g.seq & 0xf
		case 3:
			e.Type = pb.MetadataEntry
		}
		out = append(out, e)
	}
	return out
}

func (g *gen) count() int {
	switch g.src.Weighted([]int{6, 3, 1}) {
	case 0:
		return g.src.Range(1, 4)
	case 1:
		return g.src.Range(5, 14)
	}
	if g.batchy {
		return g.src.Range(15, 70)
	}
	return g.src.Range(15, 30)
}

func (g *gen) snapshot(id raftio.NodeInfo, index uint64, term uint64) pb.Snapshot {
	g.seq++
	ss := pb.Snapshot{
		Index:    index,
		Term:     term,
		ShardID:  id.ShardID,
		Filepath: fmt.Sprintf("/snap/%d-%d/snapshot-%016X", id.ShardID, id.ReplicaID, index),
		FileSize: 1000 + g.seq,
		Type:     pb.StateMachineType(1 + g.src.Intn(3)),
		Membership: pb.Membership{ConfigChangeId: g.seq,
			Addresses: map[uint64]string{1: "a1", 2: fmt.Sprintf("a%d", g.seq)}},
	}
	if g.src.Chance(1, 3) {
		ss.Checksum = []byte{byte(g.seq), 2, 3, 4, 5, 6, 7, byte(index)}
	}
	if g.src.Chance(1, 4) {
		ss.OnDiskIndex = index
	}
	if g.src.Chance(1, 6) {
		ss.Membership.Removed = map[uint64]bool{9: true}
		ss.Membership.NonVotings = map[uint64]string{7: "n7"}
	}
	return ss
}

func max64(a ...uint64) uint64 {
	m := a[0]
	for _, x := range a[1:] {
		if x > m {
			m = x
		}
	}
	return m
}

func min64(a, b uint64) uint64 {
	if a < b {
		return a
	}
	return b
}

func (g *gen) rangeU(lo, hi uint64) uint64 {
	if hi <= lo {
		return lo
	}
	return lo + uint64(g.src.Intn(int(hi-lo+1)))
}

// straddle reports whether [first,last] crosses a multiple of 48 (the batch
// size of the batched entry format; used only as a probe, never as an oracle).
func straddle(first, last uint64) bool { return first/48 != last/48 }

// update generates one pb.Update for a live replica.
func (g *gen) update(id raftio.NodeInfo) pb.Update {
	m := g.model.Get(id)
	gs := g.gs[id]
	if gs.term < m.State.Term {
		gs.term = m.State.Term
	}
	ud := pb.Update{ShardID: id.ShardID, ReplicaID: id.ReplicaID}
	lo := max64(m.State.Commit, m.Floor, m.Snap.Index)
	w := []int{10, 0, 3, 2, 0, 2}
	if m.Last > lo {
		w[1] = 4 // overwrite
	}
	if m.Last > lo+1 {
		w[4] = 1 // restore inside the log
	}
	if !m.HasState {
		w[2], w[5] = 0, 0
	}
	kind := g.src.Weighted(w)
	newLast := m.Last
	commitHi := m.Last
	forceState := !m.HasState
	switch kind {
	case 0, 5: // append (5: without a hard state when nothing else changed)
		if g.src.Chance(1, 5) {
			gs.term++
		}
		n := g.count()
		ud.EntriesToSave = g.entries(m.Last+1, n, gs.term)
		newLast = m.Last + uint64(n)
		commitHi = newLast
		if straddle(m.Last+1, newLast) {
			g.straddles++
		}
	case 1: // overwrite a suffix with entries of a newer term
		f := g.rangeU(lo+1, m.Last)
		gs.term++
		n := g.count()
		if g.src.Chance(1, 2) {
			// prefer ending before the old end (the shorter-suffix case)
			if d := int(m.Last - f); d >= 1 {
				n = g.src.Range(1, d)
			}
		}
		ud.EntriesToSave = g.entries(f, n, gs.term)
		newLast = f + uint64(n) - 1
		commitHi = newLast
		g.overwrites++
		if straddle(f, newLast) {
			g.straddles++
		}
	case 2: // state only
		switch g.src.Intn(3) {
		case 0:
		case 1:
			gs.term++
			gs.vote = 0
		default:
			gs.vote = uint64(1 + g.src.Intn(3))
		}
		forceState = true
	case 3, 4: // restore from a snapshot
		var s uint64
		if kind == 3 {
			s = max64(m.Last, lo+1) + uint64(g.src.Intn(7))
			g.restores++
		} else {
			s = g.rangeU(lo+1, m.Last-1)
			g.restoresBelow++
		}
		if g.src.Chance(1, 3) {
			gs.term++
		}
		ud.Snapshot = g.snapshot(id, s, gs.term)
		newLast = s
		if g.src.Chance(1, 3) {
			n := g.count()
			ud.EntriesToSave = g.entries(s+1, n, gs.term)
			newLast = s + uint64(n)
			if straddle(s+1, newLast) {
				g.straddles++
			}
		}
		commitHi = newLast
		// the restoring replica's commit index is at least the snapshot index
		st := pb.State{Term: gs.term, Vote: gs.vote, Commit: g.rangeU(s, commitHi)}
		ud.State = st
		return ud
	}
	if forceState || gs.term != m.State.Term || gs.vote != m.State.Vote || (kind != 5 && g.src.Chance(3, 4)) {
		c := m.State.Commit
		if commitHi > c && g.src.Chance(2, 3) {
			c = g.rangeU(c, commitHi)
		}
		if c > newLast {
			c = newLast
		}
		if c < m.State.Commit {
			c = m.State.Commit
		}
		ud.State = pb.State{Term: gs.term, Vote: gs.vote, Commit: c}
	}
	return ud
}

// live reports whether the replica may be written to.
func (g *gen) live(id raftio.NodeInfo) bool { return !g.dead[id] && !g.model.Get(id).Removed }

func (g *gen) pick(filter func(raftio.NodeInfo) bool) (raftio.NodeInfo, bool) {
	var c []raftio.NodeInfo
	for _, p := range g.pairs {
		if filter(p) {
			c = append(c, p)
		}
	}
	if len(c) == 0 {
		return raftio.NodeInfo{}, false
	}
	return c[g.src.Intn(len(c))], true
}

// next generates the next workload operation. havePending tells whether a Tan
// obsolete-file job is waiting.
func (g *gen) next(havePending bool, allowReopen bool) wop {
	w := make([]int, numOpKinds)
	w[opSave] = 20
	canSnap := func(p raftio.NodeInfo) bool {
		m := g.model.Get(p)
		return g.live(p) && m.HasState && m.State.Commit > max64(m.Snap.Index, m.Floor)
	}
	canRemove := func(p raftio.NodeInfo) bool {
		m := g.model.Get(p)
		return g.live(p) && m.Snap.Index > m.Floor
	}
	canCompact := func(p raftio.NodeInfo) bool {
		m := g.model.Get(p)
		return g.live(p) && m.Floor > 0
	}
	noBoot := func(p raftio.NodeInfo) bool { return g.live(p) && !g.model.Get(p).HasBoot }
	canWipe := func(p raftio.NodeInfo) bool {
		if !g.live(p) {
			return false
		}
		if g.noWipeShared {
			for _, q := range g.pairs {
				if q != p && q.ShardID%16 == p.ShardID%16 {
					return false
				}
			}
		}
		return true
	}
	if _, ok := g.pick(canWipe); !ok {
		g.removedOne, g.imports = true, 99
	}
	if _, ok := g.pick(canSnap); ok {
		w[opSaveSnapshots] = 5
	}
	if _, ok := g.pick(canRemove); ok {
		w[opRemoveEntries] = 5
	}
	if _, ok := g.pick(canCompact); ok {
		w[opCompact] = 2
	}
	if _, ok := g.pick(noBoot); ok {
		w[opBootstrap] = 3
	}
	if allowReopen {
		w[opReopen] = 3
		if g.imports < 2 {
			w[opImport] = 1
		}
		if g.importBias && g.imports < 4 {
			w[opImport] = 6
		}
	}
	if havePending {
		w[opObsolete] = 6
	}
	if !g.removedOne {
		w[opRemoveNode] = 1
	}
	anyLive := false
	for _, p := range g.pairs {
		if g.live(p) {
			anyLive = true
		}
	}
	if !anyLive {
		w[opSave], w[opImport] = 0, 0
		w[opReopen] = 1
	}
	k := opKind(g.src.Weighted(w))
	op := wop{kind: k}
	switch k {
	case opSave:
		first, _ := g.pick(g.live)
		ids := []raftio.NodeInfo{first}
		if g.src.Chance(1, 3) {
			for _, p := range g.pairs {
				if p != first && g.live(p) && partitionOf(p.ShardID) == partitionOf(first.ShardID) &&
					p.ShardID%16 == first.ShardID%16 && g.src.Chance(2, 3) {
					ids = append(ids, p)
				}
			}
		}
		if len(ids) > 1 {
			g.multi++
		}
		for _, id := range ids {
			op.updates = append(op.updates, g.update(id))
		}
	case opSaveSnapshots:
		id, _ := g.pick(canSnap)
		m := g.model.Get(id)
		s := g.rangeU(max64(m.Snap.Index, m.Floor)+1, m.State.Commit)
		t, ok := m.TermAt(s)
		if !ok {
			t = g.gs[id].term
		}
		op.updates = []pb.Update{{ShardID: id.ShardID, ReplicaID: id.ReplicaID, Snapshot: g.snapshot(id, s, t)}}
	case opRemoveEntries:
		id, _ := g.pick(canRemove)
		m := g.model.Get(id)
		op.id = id
		op.index = g.rangeU(m.Floor+1, m.Snap.Index)
	case opCompact:
		id, _ := g.pick(canCompact)
		op.id = id
		op.index = g.model.Get(id).Floor
	case opBootstrap:
		id, _ := g.pick(noBoot)
		op.id = id
		g.seq++
		op.boot = pb.Bootstrap{Join: g.src.Chance(1, 3), Type: pb.StateMachineType(1 + g.src.Intn(3))}
		if !op.boot.Join {
			op.boot.Addresses = map[uint64]string{1: "a1", 2: fmt.Sprintf("b%d", g.seq)}
		}
	case opImport:
		id, _ := g.pick(canWipe)
		m := g.model.Get(id)
		op.id = id
		var s uint64
		switch g.src.Intn(3) {
		case 0:
			s = m.Last + 1 + uint64(g.src.Intn(60))
		case 1:
			s = g.rangeU(1, max64(m.Last, 1))
		default:
			s = max64(m.Last, 1)
		}
		gs := g.gs[id]
		op.snap = g.snapshot(id, s, gs.term)
		op.snap.Imported = true
		g.imports++
	case opRemoveNode:
		id, _ := g.pick(canWipe)
		op.id = id
		g.removedOne = true
		g.dead[id] = true
	case opObsolete:
		op.run = !g.src.Chance(1, 4)
	}
	return op
}

package logstore

import (
	"errors"
	"fmt"

	gvfs "github.com/lni/vfs"

	"github.com/lni/dragonboat/v4/config"
	"github.com/lni/dragonboat/v4/internal/logdb"
	"github.com/lni/dragonboat/v4/internal/logdb/kv"
	"github.com/lni/dragonboat/v4/internal/logdb/kv/pebble"
	"github.com/lni/dragonboat/v4/internal/tan"
	"github.com/lni/dragonboat/v4/internal/vfs"
	"github.com/lni/dragonboat/v4/raftio"
)

type storeKind int

const (
	kTan storeKind = iota
	kTanMux
	kPebblePlain
	kPebbleBatched
)

func parseKind(s string) (storeKind, bool) {
	switch s {
	case "tan":
		return kTan, true
	case "tan-multiplexed":
		return kTanMux, true
	case "pebble-plain":
		return kPebblePlain, true
	case "pebble-batched":
		return kPebbleBatched, true
	}
	return 0, false
}

func (k storeKind) String() string {
	return [...]string{"tan", "tan-multiplexed", "pebble-plain", "pebble-batched"}[k]
}

func (k storeKind) isPebble() bool { return k == kPebblePlain || k == kPebbleBatched }

const (
	dataDir      = "/data"
	execShards   = 4
	pebbleShards = 2
)

// workerID is the 1-based id of the step worker that owns a shard (the value
// the engine passes as the second argument of SaveRaftState).
func workerID(shardID uint64) uint64 { return shardID%execShards + 1 }

// partitionOf tells which updates may travel in one SaveRaftState call: the
// engine only batches shards owned by the same step worker, which is also what
// both stores require (sharded Pebble: one partition per call; multiplexed
// Tan: one db per call).
func partitionOf(shardID uint64) uint64 { return shardID % 2 }

func nhConfig(fs gvfs.FS, memtable uint64) config.NodeHostConfig {
	lc := config.GetTinyMemLogDBConfig()
	lc.Shards = pebbleShards
	lc.KVWriteBufferSize = memtable
	lc.KVMaxWriteBufferNumber = 4
	lc.KVLevel0FileNumCompactionTrigger = 64
	lc.KVLevel0StopWritesTrigger = 128
	lc.SaveBufferSize = 1024
	return config.NodeHostConfig{
		Expert: config.ExpertConfig{
			FS:     fs,
			LogDB:  lc,
			Engine: config.EngineConfig{ExecShards: execShards, CommitShards: 1, ApplyShards: 1, SnapshotShards: 1, CloseShards: 1},
		},
	}
}

// errKVInjected is the error returned by an injected kv.IKVStore failure.
var errKVInjected = errors.New("logstore: injected kv store error")

// kvGate decides about every kv.IKVStore call (implemented by the harness).
type kvGate interface {
	// kvCall is invoked before a call; inject asks to fail it, applyFirst
	// (CommitWriteBatch only) to perform it and fail afterwards.
	kvCall(method string) (inject bool, applyFirst bool)
}

type kvStore struct {
	kv.IKVStore
	g      kvGate
	closed bool
}

// Close remembers that the store was closed (see harness.retire).
func (s *kvStore) Close() error {
	s.closed = true
	return s.IKVStore.Close()
}

// nopGate never injects.
type nopGate struct{}

func (nopGate) kvCall(string) (bool, bool) { return false, false }

func (s *kvStore) IterateValue(fk []byte, lk []byte, inc bool,
	op func(key []byte, data []byte) (bool, error)) error {
	if inj, _ := s.g.kvCall("IterateValue"); inj {
		return errKVInjected
	}
	return s.IKVStore.IterateValue(fk, lk, inc, op)
}

func (s *kvStore) GetValue(key []byte, op func([]byte) error) error {
	if inj, _ := s.g.kvCall("GetValue"); inj {
		return errKVInjected
	}
	return s.IKVStore.GetValue(key, op)
}

func (s *kvStore) SaveValue(key []byte, value []byte) error {
	if inj, _ := s.g.kvCall("SaveValue"); inj {
		return errKVInjected
	}
	return s.IKVStore.SaveValue(key, value)
}

func (s *kvStore) DeleteValue(key []byte) error {
	if inj, _ := s.g.kvCall("DeleteValue"); inj {
		return errKVInjected
	}
	return s.IKVStore.DeleteValue(key)
}

func (s *kvStore) CommitWriteBatch(wb kv.IWriteBatch) error {
	inj, applyFirst := s.g.kvCall("CommitWriteBatch")
	if inj && !applyFirst {
		return errKVInjected
	}
	err := s.IKVStore.CommitWriteBatch(wb)
	if inj && err == nil {
		return errKVInjected
	}
	return err
}

func (s *kvStore) BulkRemoveEntries(fk []byte, lk []byte) error {
	if inj, _ := s.g.kvCall("BulkRemoveEntries"); inj {
		return errKVInjected
	}
	return s.IKVStore.BulkRemoveEntries(fk, lk)
}

// CompactEntries and FullCompaction are called from the compaction worker
// goroutine of ShardedDB, which panics (killing the process) on error; they
// are never failed.

// kvFactory opens the real Pebble kv store and wraps it. Every store opened
// is handed to track: ShardedDB has error paths that panic without closing
// the shards it already opened, and an unclosed Pebble instance on a dead disk
// keeps retrying its table statistics forever.
func kvFactory(g kvGate, track func(*kvStore)) kv.Factory {
	return func(cfg config.LogDBConfig, cb kv.LogDBCallback, dir string, wal string, fs vfs.IFS) (kv.IKVStore, error) {
		s, err := pebble.NewKVStore(cfg, cb, dir, wal, fs)
		if err != nil {
			return nil, err
		}
		if g == nil {
			g = nopGate{}
		}
		w := &kvStore{IKVStore: s, g: g}
		track(w)
		return w, nil
	}
}

// openStore opens the real store of the given kind over fs.
func openStore(kind storeKind, fs gvfs.FS, memtable uint64, g kvGate, track func(*kvStore)) (raftio.ILogDB, error) {
	cfg := nhConfig(fs, memtable)
	switch kind {
	case kTan:
		return tan.CreateTan(cfg, nil, []string{dataDir}, nil)
	case kTanMux:
		return tan.CreateLogMultiplexedTan(cfg, nil, []string{dataDir}, nil)
	case kPebblePlain, kPebbleBatched:
		dirs := make([]string, pebbleShards)
		for i := range dirs {
			dirs[i] = dataDir
		}
		batched := kind == kPebbleBatched
		db, err := logdb.OpenShardedDB(cfg, nil, dirs, nil, batched, !batched, kvFactory(g, track))
		if err != nil {
			return nil, err
		}
		return db, nil
	}
	return nil, fmt.Errorf("unknown store kind %d", kind)
}

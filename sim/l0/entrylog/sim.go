package entrylog

import (
	"errors"
	"fmt"
	"math"

	"github.com/lni/dragonboat/v4/internal/logdb"
	"github.com/lni/dragonboat/v4/internal/raft"
	pb "github.com/lni/dragonboat/v4/raftpb"
	"github.com/lni/dragonboat/v4/verifsim/choice"
	"github.com/lni/dragonboat/v4/verifsim/runner"
)

// Prop is the property all oracles of this package belong to.
const Prop = "C19"

const noLimit = math.MaxUint64

// update is the harness' copy of what Peer.getUpdate/GetUpdate put into a
// pb.Update as far as the entry log is concerned.
type update struct {
	save      []pb.Entry
	apply     []pb.Entry
	snapshot  pb.Snapshot
	hasSS     bool
	fastApply bool
	uc        pb.UpdateCommit
	phase     int // 1 = taken, 2 = persisted
	// for probes
	saveLastIdx, saveLastTerm uint64
}

type sim struct {
	ctx *runner.Ctx
	src *choice.Source
	db  *memDB
	lr  *logdb.LogReader
	el  *raft.VerifEntryLog
	m   *refLog

	curTerm  uint64
	nextTerm uint64
	isLeader bool
	lead     *branch
	uid      uint64

	// apply side
	pushQ      []uint64 // indexes handed to the state machine, in order
	qpos       int      // pushQ[:qpos] have been applied
	rsmApplied uint64
	lastPushed uint64

	// snapshot/compaction side
	lrSnap         uint64
	pendingCompact uint64

	out     *update
	lagMode bool
	fullLag bool

	// statistics
	ops, cycles, appended, conflicts, restores, compactions int
	sig                                                     uint64
	probeCalls                                              int64
}

func (s *sim) vio(oracle, format string, args ...interface{}) {
	s.ctx.Violate(Prop, oracle, format, args...)
}

func (s *sim) mix(vals ...uint64) {
	h := s.sig
	for _, v := range vals {
		h = (h ^ v) * 1099511628211
		h ^= h >> 31
	}
	s.sig = h
}

func isLogErr(err error) bool {
	return errors.Is(err, raft.ErrCompacted) || errors.Is(err, raft.ErrUnavailable)
}

// Run executes one tape.
func Run(ctx *runner.Ctx) *runner.Result {
	s := &sim{ctx: ctx, src: ctx.Src, m: &refLog{}, sig: 1469598103934665603}
	src := ctx.Src

	// soft settings of the entry log for this run (restored afterwards)
	saved := raft.VerifGetEntryLogSettings()
	defer raft.VerifSetEntryLogSettings(saved)
	set := saved
	switch src.Weighted([]int{3, 4, 2, 1}) {
	case 1:
		set.EntrySliceSize, set.MinEntrySliceFreeSize = 8, 2
	case 2:
		set.EntrySliceSize, set.MinEntrySliceFreeSize = 16, 5
	case 3:
		set.EntrySliceSize, set.MinEntrySliceFreeSize = 3, 1
	}
	switch src.Weighted([]int{3, 2, 2, 1}) {
	case 1:
		set.MaxEntriesToApplySize = 200
	case 2:
		set.MaxEntriesToApplySize = 1000
	case 3:
		set.MaxEntriesToApplySize = 1
	}
	raft.VerifSetEntryLogSettings(set)
	ctx.Ev("settings", set.EntrySliceSize, set.MinEntrySliceFreeSize, set.MaxEntriesToApplySize)

	switch ctx.Param("lag", "mix") {
	case "0":
		s.lagMode = false
	case "1":
		s.lagMode = true
	case "2":
		// NOT part of the registered check: every operation may happen between
		// GetUpdate and Commit (the etcd style protocol the (index, term)
		// acknowledgement was designed for). dragonboat's step worker never
		// does that; see the package comment.
		s.lagMode = true
		s.fullLag = true
	default:
		s.lagMode = src.Chance(1, 3)
	}
	rl := uint64(0)
	if src.Chance(1, 4) {
		rl = uint64(512 + src.Intn(4096))
	}
	s.start(rl)
	s.checkAll("start")

	steps := 10 + src.Intn(150)
	for i := 0; i < steps && !ctx.Violated(); i++ {
		s.step()
		s.ops++
	}
	// drain: finish the outstanding cycle, let the state machine catch up, do
	// one more full cycle so that everything appended is persisted
	if !ctx.Violated() {
		for k := 0; k < 4 && !ctx.Violated(); k++ {
			s.rsmProgress(len(s.pushQ))
			s.cycleStep(true)
			for s.out != nil && !ctx.Violated() {
				s.cycleStep(true)
			}
		}
		if !ctx.Violated() {
			if s.m.savedTo != s.m.last() {
				s.vio("save-mismatch", "after draining, model savedTo %d != last %d", s.m.savedTo, s.m.last())
			}
			if got := s.el.EntriesToSave(); len(got) != 0 {
				s.vio("save-mismatch", "after draining EntriesToSave still returns %d entries (first %d)", len(got), got[0].Index)
			}
		}
	}
	ctx.Count("ev.ops", int64(s.ops))
	ctx.Count("ev.cycles", int64(s.cycles))
	ctx.Count("ev.entries-appended", int64(s.appended))
	ctx.Count("ev.readonly-probes", s.probeCalls)
	ctx.Count("ev.logdb-iterate-calls", s.db.iterCalls)
	nontrivial := s.cycles >= 2 && s.appended >= 5
	s.mix(uint64(s.cycles), uint64(s.appended), uint64(s.conflicts), uint64(s.restores), uint64(s.compactions), s.m.last(), s.m.committed)
	return ctx.Finish(nontrivial, s.sig, int64(s.ops),
		fmt.Sprintf("ops=%d cycles=%d appended=%d conflicts=%d restores=%d compactions=%d last=%d committed=%d lag=%t",
			s.ops, s.cycles, s.appended, s.conflicts, s.restores, s.compactions, s.m.last(), s.m.committed, s.lagMode))
}

// start builds the initial state: a new replica or a restarted one whose
// store already holds a snapshot record and entries (what node.replayLog
// feeds into the LogReader before raft is launched).
func (s *sim) start(rl uint64) {
	src := s.src
	s.db = newMemDB()
	s.lr = logdb.NewLogReader(1, 1, s.db)
	s.lr.SetCompactor(nopCompactor{})
	s.nextTerm = 1
	kind := src.Weighted([]int{2, 2})
	var base, baseTerm, n, commit uint64
	if kind == 1 {
		switch src.Weighted([]int{3, 3, 1}) {
		case 0:
			base = 0
		case 1:
			base = uint64(1 + src.Intn(40))
		case 2:
			base = 1<<40 + uint64(src.Intn(1000))
		}
		term := uint64(0)
		if base > 0 {
			term = uint64(1 + src.Intn(3))
			baseTerm = term
		}
		n = uint64(src.Intn(24))
		ents := make([]pb.Entry, 0, n)
		if term == 0 {
			term = 1
		}
		for i := uint64(0); i < n; i++ {
			if src.Chance(1, 5) {
				term += uint64(1 + src.Intn(2))
			}
			ents = append(ents, s.newEntry(base+1+i, term))
		}
		s.nextTerm = term + 1
		if base > 0 {
			ss := pb.Snapshot{Index: base, Term: baseTerm}
			if err := s.lr.ApplySnapshot(ss); err != nil {
				panic(fmt.Sprintf("harness: initial ApplySnapshot: %v", err))
			}
			s.lrSnap = base
		}
		s.db.save(ents)
		s.lr.SetRange(base+1, n)
		s.m.off, s.m.offTerm, s.m.floor, s.m.floorTerm = base, baseTerm, base, baseTerm
		s.m.appendNew(ents)
		s.m.committed, s.m.processed, s.m.savedTo = base, base, base+n
		commit = base + uint64(src.Intn(int(n)+1))
		s.curTerm = term
	}
	s.el = raft.VerifNewEntryLog(s.lr, rl)
	if commit > s.m.committed {
		// raft.loadState: the persisted commit index
		s.el.CommitTo(commit)
		s.m.committed = commit
	}
	s.rsmApplied = base
	s.lastPushed = base
	s.ctx.Ev("start", uint64(kind), base, n, commit, rl)
	s.mix(uint64(kind), base, n, commit)
}

func (s *sim) newEntry(index, term uint64) pb.Entry {
	s.uid++
	e := pb.Entry{Index: index, Term: term, Key: s.uid}
	switch s.src.Weighted([]int{8, 1, 1, 1}) {
	case 1:
		e.Type = pb.ConfigChangeEntry
	case 2:
		e.Type = pb.EncodedEntry
	case 3:
		e.Type = pb.MetadataEntry
	}
	var n int
	switch s.src.Weighted([]int{3, 5, 2, 1}) {
	case 1:
		n = 1 + s.src.Intn(16)
	case 2:
		n = 17 + s.src.Intn(48)
	case 3:
		n = 200 + s.src.Intn(300)
	}
	if n > 0 {
		e.Cmd = make([]byte, n)
		for i := range e.Cmd {
			e.Cmd[i] = byte(s.uid + uint64(i))
		}
	}
	if s.src.Chance(1, 4) {
		e.ClientID = s.uid * 7
		e.SeriesID = s.uid % 5
	}
	return e
}

// ---------------------------------------------------------------------------
// operations

func (s *sim) step() {
	src := s.src
	op := src.Weighted([]int{10, 5, 7, 4, 2, 3, 3, 2, 2, 2})
	if s.out != nil && !s.fullLag {
		// between GetUpdate and Commit of a node only things that do not run
		// on its step worker can happen: the state machine applies, the
		// snapshot worker saves a snapshot, the apply worker applies a config
		// change (which lets a leader re-evaluate its commit index), remote
		// replicas move on. Messages, proposals and ticks wait for the worker.
		if op == 0 || op == 4 || op == 6 || op == 8 || (op == 1 && !s.isLeader) {
			op = 2
		}
	}
	switch op {
	case 0:
		s.opAppend()
	case 1:
		s.opCommit()
	case 2:
		s.cycleStep(false)
	case 3:
		s.rsmProgress(1 + src.Intn(6))
	case 4:
		s.opRoleChange()
	case 5:
		s.opLeaderBranch()
	case 6:
		s.opInstallSnapshot()
	case 7:
		s.opCreateSnapshot()
	case 8:
		s.opResize()
	case 9:
		s.opLeaderReads()
	}
	s.checkAll("op")
}

func (s *sim) ensureRole() {
	if !s.isLeader && s.lead == nil {
		s.opRoleChange()
	}
}

// opRoleChange: the replica becomes leader of a new term, or a new leader
// appears elsewhere whose log forks from the old leader's or the replica's
// log anywhere at or above the replica's commit index.
func (s *sim) opRoleChange() {
	src := s.src
	if src.Chance(1, 3) {
		// become leader: new term + the no-op entry of becomeLeader
		s.curTerm = s.nextTerm
		s.nextTerm++
		s.isLeader = true
		s.lead = nil
		e := pb.Entry{Index: s.m.last() + 1, Term: s.curTerm, Type: pb.ApplicationEntry}
		s.uid++
		e.Key = s.uid
		s.ctx.Ev("become-leader", s.curTerm, e.Index)
		s.mix(1, s.curTerm)
		s.el.Append([]pb.Entry{e})
		s.m.appendNew([]pb.Entry{e})
		s.appended++
		return
	}
	nb := &branch{}
	fromLead := s.lead != nil && src.Chance(1, 2)
	var k uint64
	if fromLead {
		b := s.lead
		lo := s.m.committed
		if b.base > lo {
			lo = b.base
		}
		// committed <= b.last always holds for the live leader branch
		k = lo + uint64(src.Intn(int(b.last()-lo)+1))
		nb.base, nb.baseTerm = b.base, b.baseTerm
		nb.ents = append([]pb.Entry(nil), b.slice(b.base+1, k+1)...)
	} else {
		lo := s.m.committed
		k = lo + uint64(src.Intn(int(s.m.last()-lo)+1))
		// the new leader may itself have compacted its log
		nb.base, nb.baseTerm = s.m.off, s.m.offTerm
		nb.ents = append([]pb.Entry(nil), s.m.slice(s.m.off+1, k+1)...)
	}
	// entries the replica never saw, written by leaders of terms in between
	segs := src.Weighted([]int{4, 2, 1})
	for g := 0; g < segs; g++ {
		t := s.nextTerm
		s.nextTerm++
		n := 1 + src.Intn(3)
		for i := 0; i < n; i++ {
			nb.ents = append(nb.ents, s.newEntry(nb.last()+1, t))
		}
	}
	nb.term = s.nextTerm
	s.nextTerm++
	nb.ents = append(nb.ents, s.newEntry(nb.last()+1, nb.term))
	nb.commit = s.m.committed + uint64(src.Intn(int(k-s.m.committed)+1))
	s.curTerm = nb.term
	s.isLeader = false
	s.lead = nb
	var fl uint64
	if fromLead {
		fl = 1
	}
	s.ctx.Ev("new-leader", nb.term, fl, k, nb.last())
	s.mix(2, nb.term, fl, k)
}

// opLeaderBranch: the remote leader's own log moves on.
func (s *sim) opLeaderBranch() {
	b := s.lead
	if b == nil {
		return
	}
	src := s.src
	switch src.Weighted([]int{4, 3, 1}) {
	case 0:
		n := 1 + src.Intn(4)
		for i := 0; i < n; i++ {
			b.ents = append(b.ents, s.newEntry(b.last()+1, b.term))
		}
		s.ctx.Ev("lead-append", uint64(n), b.last())
	case 1:
		if b.last() > b.commit {
			b.commit += uint64(1 + src.Intn(int(b.last()-b.commit)))
		}
		s.ctx.Ev("lead-commit", b.commit)
	case 2:
		if b.commit > b.base {
			to := b.base + uint64(1+src.Intn(int(b.commit-b.base)))
			b.compactTo(to)
			s.ctx.Count("probe.leader-compacted", 1)
		}
		s.ctx.Ev("lead-compact", b.base)
	}
}

func (s *sim) opAppend() {
	s.ensureRole()
	if s.isLeader {
		s.leaderAppend()
	} else {
		s.followerAppend()
	}
}

func (s *sim) leaderAppend() {
	n := 1 + s.src.Intn(4)
	ents := make([]pb.Entry, 0, n)
	for i := 0; i < n; i++ {
		ents = append(ents, s.newEntry(s.m.last()+1+uint64(i), s.curTerm))
	}
	s.ctx.Ev("leader-append", uint64(n), ents[0].Index, s.curTerm)
	s.mix(3, uint64(n))
	s.el.Append(ents)
	s.m.appendNew(ents)
	s.appended += n
}

// followerAppend delivers a Replicate message of the current leader: any
// prefix position of the leader's log (messages are delayed, duplicated and
// reordered), any batch length, the leader's commit index.
func (s *sim) followerAppend() {
	src := s.src
	b := s.lead
	// prev index: mostly near the end of the replica's log, sometimes anywhere
	lo, hi := b.base, b.last()
	var p uint64
	switch src.Weighted([]int{5, 3, 2}) {
	case 0:
		// the position a well informed leader would use: the end of the common part
		p = s.commonPrefix(b)
		if p < lo {
			p = lo
		}
	case 1:
		p = lo + uint64(src.Intn(int(hi-lo)+1))
	case 2:
		// around the replica's last index / commit index
		c := s.m.last()
		if src.Chance(1, 2) {
			c = s.m.committed
		}
		d := uint64(src.Intn(4))
		if src.Chance(1, 2) && c >= d {
			p = c - d
		} else {
			p = c + d
		}
		if p < lo {
			p = lo
		}
		if p > hi {
			p = hi
		}
	}
	n := uint64(src.Intn(6))
	if p+n > hi {
		n = hi - p
	}
	commit := b.commit
	if src.Chance(1, 4) && commit > 0 {
		commit -= uint64(src.Intn(int(min64(commit, 4)) + 1))
	}
	pt, _ := b.termAt(p)
	ents := append([]pb.Entry(nil), b.slice(p+1, p+1+n)...)
	s.ctx.Ev("replicate", p, pt, n, commit)
	s.mix(4, p, n)
	if p < s.m.committed {
		// handleReplicateMessage answers with the commit index and does not
		// touch the log
		s.ctx.Count("probe.replicate-below-commit", 1)
		return
	}
	beforeLast, beforeSaved := s.m.last(), s.m.savedTo
	imMarker, _, _ := s.el.InMemState()
	wantMatch, changed := s.m.followerAppend(p, pt, ents)
	if wantMatch {
		c := min64(p+n, commit)
		if c > s.m.committed {
			s.m.committed = c
		}
	}
	lastIdx, ok, err := s.el.TryAppend(p, pt, commit, ents)
	if err != nil {
		s.vio("spurious-error", "TryAppend(prev %d term %d, %d entries) failed: %v; model: first %d last %d", p, pt, n, err, s.m.first(), beforeLast)
		return
	}
	if ok != wantMatch {
		s.vio("match-mismatch", "TryAppend(prev %d term %d): log matched=%t, model says %t (model first %d last %d)", p, pt, ok, wantMatch, s.m.first(), beforeLast)
		return
	}
	if !ok {
		s.ctx.Count("probe.replicate-rejected", 1)
		return
	}
	if lastIdx != p+n {
		s.vio("match-mismatch", "TryAppend returned last index %d, want %d", lastIdx, p+n)
	}
	if changed != 0 {
		s.appended += int(p + n - changed + 1)
		if changed <= beforeLast {
			s.conflicts++
			s.ctx.Count("probe.conflict-truncate", 1)
			if changed <= beforeSaved {
				s.ctx.Count("probe.conflict-below-saved", 1)
			}
			if changed <= imMarker {
				s.ctx.Count("probe.conflict-at-or-below-inmem-marker", 1)
			}
			if p+n < beforeLast {
				s.ctx.Count("probe.conflict-shortens-log", 1)
			}
			if s.out != nil {
				s.ctx.Count("probe.conflict-while-update-outstanding", 1)
			}
		}
	} else if n > 0 {
		s.ctx.Count("probe.replicate-all-present", 1)
	}
}

// commonPrefix is the highest index at which the replica's log and b agree
// (Log Matching: everything below agrees as well); at least the commit index.
func (s *sim) commonPrefix(b *branch) uint64 {
	top := min64(s.m.last(), b.last())
	for i := top; i > s.m.committed && i > b.base; i-- {
		mt, ok1 := s.m.term(i)
		bt, ok2 := b.termAt(i)
		if ok1 && ok2 && mt == bt {
			return i
		}
	}
	return s.m.committed
}

func (s *sim) opCommit() {
	src := s.src
	if s.isLeader {
		// quorum match index: anything the leader has
		lo := s.m.floor
		q := lo + uint64(src.Intn(int(s.m.last()-lo)+1))
		want := false
		if q > s.m.committed {
			if t, ok := s.m.term(q); ok && t == s.curTerm {
				want = true
			}
		}
		s.ctx.Ev("try-commit", q, s.curTerm)
		s.mix(5, q)
		got, err := s.el.TryCommit(q, s.curTerm)
		if err != nil {
			s.vio("spurious-error", "TryCommit(%d,%d): %v", q, s.curTerm, err)
			return
		}
		if got != want {
			s.vio("commit-mismatch", "TryCommit(%d, term %d) = %t, model says %t (committed %d)", q, s.curTerm, got, want, s.m.committed)
			return
		}
		if want {
			s.m.committed = q
		}
		return
	}
	if s.lead == nil {
		return
	}
	// heartbeat: the leader sends min(match, commit)
	c := min64(s.lead.commit, s.commonPrefix(s.lead))
	if src.Chance(1, 3) && c > 0 {
		c -= uint64(src.Intn(int(min64(c, 3)) + 1))
	}
	s.ctx.Ev("heartbeat-commit", c)
	s.mix(6, c)
	s.el.CommitTo(c)
	if c > s.m.committed {
		s.m.committed = c
	}
}

// opInstallSnapshot delivers a snapshot of the current leader (raft.restore).
func (s *sim) opInstallSnapshot() {
	b := s.lead
	if b == nil || s.isLeader || b.commit == 0 || b.commit < b.base {
		return
	}
	if s.out != nil {
		// a step worker never handles messages between GetUpdate and Commit of
		// the same node; with an outstanding update only log appends/commits
		// are interleaved (see README of this scenario)
		return
	}
	src := s.src
	lo := b.base
	if lo == 0 {
		lo = 1
	}
	if lo > b.commit {
		return
	}
	idx := lo + uint64(src.Intn(int(b.commit-lo)+1))
	if src.Chance(1, 2) {
		idx = b.commit
	} else if c := s.m.committed; c >= lo && c < b.commit && src.Chance(1, 2) {
		idx = c + 1 + uint64(src.Intn(int(b.commit-c)))
	}
	term, _ := b.termAt(idx)
	s.ctx.Ev("install-snapshot", idx, term)
	s.mix(7, idx)
	if idx <= s.m.committed {
		s.ctx.Count("probe.snapshot-ignored", 1)
		return
	}
	if t, ok := s.m.term(idx); ok && idx <= s.m.last() && t == term {
		// the log already has that entry: only the commit index moves
		got, err := s.el.Term(idx)
		if err != nil || got != term {
			s.vio("term-mismatch", "term(%d) = %d, %v before snapshot fast-forward; model %d", idx, got, err, term)
			return
		}
		s.el.CommitTo(idx)
		s.m.committed = idx
		s.ctx.Count("probe.snapshot-commit-only", 1)
		return
	}
	got, err := s.el.Term(idx)
	if err != nil {
		s.vio("spurious-error", "term(%d) failed before restore: %v", idx, err)
		return
	}
	if got == term {
		s.vio("term-mismatch", "term(%d) = %d equals the snapshot term although the model has a different or no entry there", idx, got)
		return
	}
	ss := pb.Snapshot{Index: idx, Term: term, Type: pb.RegularStateMachine}
	if idx < s.m.last() {
		s.ctx.Count("probe.restore-below-last", 1)
	}
	s.el.Restore(ss)
	s.m.restore(idx, term)
	s.restores++
	s.ctx.Count("probe.restore", 1)
}

// opCreateSnapshot: the snapshot worker saved a snapshot of the state machine
// at its applied index and schedules log compaction.
func (s *sim) opCreateSnapshot() {
	if s.rsmApplied <= s.lrSnap || s.rsmApplied == 0 {
		return
	}
	src := s.src
	idx := s.rsmApplied
	if idx < s.m.floor {
		// a snapshot was restored and the state machine has not recovered from
		// it yet: node.doSave refuses to save (applied <= pushed snapshot index)
		return
	}
	t, ok := s.m.term(idx)
	if !ok {
		panic(fmt.Sprintf("harness: applied index %d not in model (floor %d last %d)", idx, s.m.floor, s.m.last()))
	}
	ss := pb.Snapshot{Index: idx, Term: t, Type: pb.RegularStateMachine}
	s.ctx.Ev("create-snapshot", idx, t)
	s.mix(8, idx)
	if err := s.lr.CreateSnapshot(ss); err != nil {
		s.vio("spurious-error", "LogReader.CreateSnapshot(%d) failed: %v (previous snapshot %d)", idx, err, s.lrSnap)
		return
	}
	s.lrSnap = idx
	// compaction overhead: how many entries to keep
	var keep uint64
	switch src.Weighted([]int{3, 3, 2}) {
	case 0:
		keep = uint64(src.Intn(4))
	case 1:
		keep = uint64(4 + src.Intn(12))
	case 2:
		keep = idx // nothing to compact
	}
	if idx > keep {
		if to := idx - keep; to > s.pendingCompact {
			s.pendingCompact = to
		}
	}
}

func (s *sim) opResize() {
	if s.src.Chance(1, 2) {
		s.ctx.Ev("inmem-resize")
		s.el.InMemResize()
	} else {
		s.ctx.Ev("inmem-tryresize")
		s.el.InMemTryResize()
	}
	s.ctx.Count("probe.resize", 1)
}

// opLeaderReads: what a leader does to feed a follower at an arbitrary
// position: term(next-1) and entries(next, maxSize).
func (s *sim) opLeaderReads() {
	src := s.src
	for k := 0; k < 3; k++ {
		s.probeEntries(src, true)
	}
}

// rsmProgress lets the state machine apply up to n queued items.
func (s *sim) rsmProgress(n int) {
	adv := 0
	for ; n > 0 && s.qpos < len(s.pushQ); n-- {
		s.rsmApplied = s.pushQ[s.qpos]
		s.qpos++
		adv++
	}
	if s.qpos > 64 && s.qpos*2 > len(s.pushQ) {
		s.pushQ = append([]uint64(nil), s.pushQ[s.qpos:]...)
		s.qpos = 0
	}
	s.ctx.Ev("rsm-apply", uint64(adv), s.rsmApplied)
}

// ---------------------------------------------------------------------------
// the Update / Commit cycle (Peer.GetUpdate, engine.processSteps, Peer.Commit)

// cycleStep advances the cycle: without lag a whole cycle, with lag one phase.
func (s *sim) cycleStep(drain bool) {
	if s.out == nil {
		more := true
		if !drain && s.src.Chance(1, 6) {
			more = false // node.moreEntriesToApply(): the apply queue is busy
		}
		s.getUpdate(more)
		if s.ctx.Violated() {
			return
		}
		if s.lagMode && !drain {
			return
		}
	}
	if s.out.phase == 1 {
		s.persist()
		if s.ctx.Violated() {
			return
		}
		if s.lagMode && !drain {
			return
		}
	}
	s.commit()
}

func (s *sim) getUpdate(moreToApply bool) {
	ud := &update{phase: 1}
	m := s.m
	ud.save = s.el.EntriesToSave()
	s.checkSave(ud.save, "GetUpdate")
	lastApplied := s.rsmApplied
	var lastSave uint64
	if n := len(ud.save); n > 0 {
		lastSave = ud.save[n-1].Index
		ud.saveLastIdx, ud.saveLastTerm = lastSave, ud.save[n-1].Term
	}
	if moreToApply {
		ents, err := s.el.EntriesToApply()
		if err != nil {
			s.vio("spurious-error", "EntriesToApply failed: %v (model processed %d committed %d first %d)", err, m.processed, m.committed, m.first())
			return
		}
		s.checkApply(ents, "GetUpdate")
		ud.apply = ents
		// handed out for apply only if committed and already handed out for
		// persistence (by an earlier update or by this one)
		for _, e := range ents {
			if e.Index > m.savedTo && e.Index > lastSave {
				s.vio("apply-before-save", "entry %d handed out for apply; persisted up to %d, this update persists up to %d", e.Index, m.savedTo, lastSave)
				break
			}
		}
	}
	if ss := s.el.InMemSnapshot(); ss != nil {
		ud.snapshot = pb.Snapshot{Index: ss.Index, Term: ss.Term, Type: ss.Type}
		ud.hasSS = !pb.IsEmptySnapshot(ud.snapshot)
		if ss.Index != m.off || ss.Term != m.offTerm {
			s.vio("snapshot-mismatch", "pending snapshot (%d,%d), model restore point (%d,%d)", ss.Index, ss.Term, m.off, m.offTerm)
		}
	}
	// setFastApply
	ud.fastApply = !ud.hasSS
	if ud.fastApply && len(ud.apply) > 0 && len(ud.save) > 0 {
		la := ud.apply[len(ud.apply)-1].Index
		if la >= ud.save[0].Index && la <= lastSave {
			ud.fastApply = false
		}
	}
	// getUpdateCommit
	ud.uc = pb.UpdateCommit{LastApplied: lastApplied}
	if n := len(ud.apply); n > 0 {
		ud.uc.Processed = ud.apply[n-1].Index
	}
	if n := len(ud.save); n > 0 {
		ud.uc.StableLogTo, ud.uc.StableLogTerm = ud.save[n-1].Index, ud.save[n-1].Term
	}
	if ud.hasSS {
		ud.uc.StableSnapshotTo = ud.snapshot.Index
		if ud.uc.Processed < ud.uc.StableSnapshotTo {
			ud.uc.Processed = ud.uc.StableSnapshotTo
		}
	}
	var f uint64
	if ud.fastApply {
		f = 1
	}
	s.ctx.Ev("get-update", uint64(len(ud.save)), uint64(len(ud.apply)), ud.snapshot.Index, lastApplied, f)
	s.mix(9, uint64(len(ud.save)), uint64(len(ud.apply)), ud.snapshot.Index)
	s.out = ud
	if ud.fastApply {
		s.ctx.Count("probe.fast-apply", 1)
		s.push(ud)
	}
}

// push hands the committed entries (and the snapshot) of ud to the state
// machine; whatever is pushed must already be in the persistent store.
func (s *sim) push(ud *update) {
	if ud.hasSS {
		s.pushQ = append(s.pushQ, ud.snapshot.Index)
		s.lastPushed = ud.snapshot.Index
	}
	for _, e := range ud.apply {
		if e.Index <= s.lastPushed {
			continue
		}
		d, ok := s.db.get(e.Index)
		if !ok || !sameEntry(d, e) {
			s.vio("apply-before-save", "entry (%d, term %d) is given to the state machine (fastApply=%t) but the store holds %s",
				e.Index, e.Term, ud.fastApply, descDisk(d, ok))
			return
		}
		s.pushQ = append(s.pushQ, e.Index)
		s.lastPushed = e.Index
	}
}

func descDisk(d pb.Entry, ok bool) string {
	if !ok {
		return "nothing at that index"
	}
	return fmt.Sprintf("(%d, term %d, key %d)", d.Index, d.Term, d.Key)
}

func (s *sim) persist() {
	ud := s.out
	s.ctx.Ev("persist", uint64(len(ud.save)))
	// SaveRaftState
	s.db.save(ud.save)
	if !ud.fastApply {
		// processSnapshot + applyRaftUpdates
		if ud.hasSS {
			ss := ud.snapshot
			if err := s.lr.ApplySnapshot(ss); err != nil && !errors.Is(err, raft.ErrSnapshotOutOfDate) {
				s.vio("spurious-error", "LogReader.ApplySnapshot(%d): %v", ss.Index, err)
				return
			} else if err == nil {
				if ss.Index > s.lrSnap {
					s.lrSnap = ss.Index
				}
			} else {
				s.ctx.Count("probe.apply-snapshot-out-of-date", 1)
			}
		}
		s.push(ud)
	}
	// processRaftUpdate: LogReader.Append, then removeLog
	if err := s.lr.Append(ud.save); err != nil {
		s.vio("spurious-error", "LogReader.Append: %v", err)
		return
	}
	if s.pendingCompact > 0 {
		to := s.pendingCompact
		s.pendingCompact = 0
		imMarker, _, _ := s.el.InMemState()
		s.ctx.Ev("compact", to)
		s.mix(10, to)
		err := s.lr.Compact(to)
		if err != nil && !errors.Is(err, raft.ErrCompacted) {
			s.vio("spurious-error", "LogReader.Compact(%d) failed: %v (model floor %d last %d, snapshot %d)", to, err, s.m.floor, s.m.last(), s.lrSnap)
			return
		}
		_ = s.db.RemoveEntriesTo(1, 1, to)
		if err == nil && to > s.m.floor {
			t, ok := s.m.term(to)
			if !ok {
				panic(fmt.Sprintf("harness: compaction index %d not in model (floor %d last %d)", to, s.m.floor, s.m.last()))
			}
			s.m.floor, s.m.floorTerm = to, t
			s.compactions++
			s.ctx.Count("probe.compact", 1)
			if to >= imMarker {
				s.ctx.Count("probe.compact-into-inmem-window", 1)
			}
		} else {
			s.ctx.Count("probe.compact-noop", 1)
		}
	}
	ud.phase = 2
}

func (s *sim) commit() {
	ud := s.out
	m := s.m
	s.ctx.Ev("commit-update", ud.uc.StableLogTo, ud.uc.StableLogTerm, ud.uc.Processed, ud.uc.LastApplied, ud.uc.StableSnapshotTo)
	s.el.CommitUpdate(ud.uc)
	if ud.uc.StableLogTo > 0 {
		if !m.ack(ud.uc.StableLogTo, ud.uc.StableLogTerm) {
			s.ctx.Count("probe.stale-persist-ack", 1)
		}
	}
	if ud.uc.Processed > 0 {
		m.processed = ud.uc.Processed
	}
	s.out = nil
	s.cycles++
}

// ---------------------------------------------------------------------------
// oracles

func (s *sim) checkSave(got []pb.Entry, where string) {
	m := s.m
	want := m.slice(m.savedTo+1, m.last()+1)
	if len(got) == len(want) {
		same := true
		for i := range got {
			if !sameEntry(got[i], want[i]) {
				same = false
				break
			}
		}
		if same {
			return
		}
	}
	// classify
	if len(got) > 0 {
		for i, e := range got {
			if e.Index != got[0].Index+uint64(i) {
				s.vio("save-mismatch", "%s: EntriesToSave is not continuous at position %d (index %d)", where, i, e.Index)
				return
			}
			if e.Index <= m.off || e.Index > m.last() || !sameEntry(m.at(e.Index), e) {
				s.vio("stale-entry", "%s: EntriesToSave hands out (%d, term %d, key %d) which is not the entry of the logical log at that index (last %d)", where, e.Index, e.Term, e.Key, m.last())
				return
			}
		}
	}
	firstGot := m.last() + 1
	if len(got) > 0 {
		firstGot = got[0].Index
		if got[len(got)-1].Index != m.last() {
			s.vio("save-mismatch", "%s: EntriesToSave ends at %d, last index is %d", where, got[len(got)-1].Index, m.last())
			return
		}
	}
	if firstGot > m.savedTo+1 {
		s.vio("save-skipped-reappended", "%s: entries (%d..%d] were never acknowledged as persisted in their current form (persisted up to %d) but EntriesToSave starts at %d",
			where, m.savedTo, firstGot-1, m.savedTo, firstGot)
		return
	}
	s.vio("save-mismatch", "%s: EntriesToSave starts at %d although everything up to %d was acknowledged as persisted", where, firstGot, m.savedTo)
}

func (s *sim) checkApply(got []pb.Entry, where string) {
	m := s.m
	if len(got) == 0 {
		if m.processed < m.committed {
			s.vio("apply-missing", "%s: nothing handed out for apply although processed %d < committed %d", where, m.processed, m.committed)
		}
		return
	}
	for i, e := range got {
		if e.Index > m.committed {
			s.vio("apply-before-commit", "%s: entry %d handed out for apply, committed %d", where, e.Index, m.committed)
			return
		}
		if e.Index != m.processed+1+uint64(i) {
			s.vio("apply-mismatch", "%s: entry %d at position %d of the apply batch, expected %d", where, e.Index, i, m.processed+1+uint64(i))
			return
		}
		if !m.has(e.Index) || !sameEntry(m.at(e.Index), e) {
			s.vio("stale-entry", "%s: apply batch has (%d, term %d, key %d), not the entry of the logical log", where, e.Index, e.Term, e.Key)
			return
		}
	}
	if lastGot := got[len(got)-1].Index; lastGot < m.committed {
		s.ctx.Count("probe.apply-limited", 1)
		set := raft.VerifGetEntryLogSettings()
		s.checkLimit(m.slice(m.processed+1, m.committed+1), len(got), set.MaxEntriesToApplySize, where+": apply batch")
	}
}

// checkLimit: a size limited answer must be a non-empty prefix that respects
// the limit (unless it is a single entry) and must not stop while the next
// entry would still fit.
func (s *sim) checkLimit(want []pb.Entry, n int, limit uint64, what string) {
	if n >= len(want) {
		return
	}
	var lo, hi uint64
	for i := 0; i < n; i++ {
		lo += uint64(want[i].Size())
		hi += uint64(want[i].SizeUpperLimit())
	}
	if n > 1 && lo > limit {
		s.vio("entries-mismatch", "%s: %d entries of at least %d bytes returned for limit %d", what, n, lo, limit)
		return
	}
	if hi+uint64(want[n].SizeUpperLimit()) <= limit {
		s.vio("entries-mismatch", "%s: only %d of %d entries returned (%d bytes at most) although the next one (%d bytes at most) fits limit %d",
			what, n, len(want), hi, want[n].SizeUpperLimit(), limit)
	}
}

// probeEntries asks for one tape-chosen range with a tape-chosen limit.
func (s *sim) probeEntries(src *choice.Source, ev bool) {
	m := s.m
	first, last := m.first(), m.last()
	// lo in [first-2, last+1], hi in [lo, last+1]
	lob := first
	if lob >= 2 {
		lob -= 2
	} else {
		lob = 0
	}
	if lob <= m.off {
		lob = m.off + 1 // below the restore point the model has nothing to compare with
	}
	if lob > last+1 {
		lob = last + 1
	}
	lo := lob + uint64(src.Intn(int(last+1-lob)+1))
	hi := lo + uint64(src.Intn(int(last+1-lo)+1))
	if src.Chance(1, 3) {
		hi = last + 1
	}
	limit := uint64(noLimit)
	switch src.Weighted([]int{4, 1, 1, 2, 1}) {
	case 1:
		limit = 0
	case 2:
		limit = 1
	case 3:
		limit = uint64(30 + src.Intn(400))
	case 4:
		limit = uint64(400 + src.Intn(3000))
	}
	if ev {
		s.ctx.Ev("read-entries", lo, hi, limit)
	}
	s.checkEntries(lo, hi, limit)
	if lo >= 1 {
		s.checkTerm(lo - 1)
	}
}

func (s *sim) checkEntries(lo, hi, limit uint64) {
	m := s.m
	s.probeCalls++
	got, err := s.el.Entries(lo, hi, limit)
	if lo == hi && lo >= m.first() && err != nil && isLogErr(err) {
		// an empty range holds no entry; the contract does not say whether
		// asking for it is an error
		s.ctx.Count("probe.empty-range-error", 1)
		return
	}
	if lo < m.first() {
		// outside the logical log: an error is fine; data must still be right
		if err != nil {
			if !isLogErr(err) {
				s.vio("spurious-error", "Entries(%d,%d) below first index %d: unexpected error %v", lo, hi, m.first(), err)
			} else {
				s.ctx.Count("probe.err-compacted", 1)
			}
			return
		}
		for i, e := range got {
			if e.Index != lo+uint64(i) || e.Index > m.last() || e.Index <= m.off || !sameEntry(m.at(e.Index), e) {
				s.vio("stale-entry", "Entries(%d,%d) below the first index %d returned wrong data at %d", lo, hi, m.first(), e.Index)
				return
			}
		}
		return
	}
	if err != nil {
		s.vio("spurious-error", "Entries(%d,%d,limit %d) failed with %v; the logical log has [%d,%d]", lo, hi, limit, err, m.first(), m.last())
		return
	}
	want := m.slice(lo, hi)
	if len(got) > len(want) {
		s.vio("entries-mismatch", "Entries(%d,%d) returned %d entries", lo, hi, len(got))
		return
	}
	if len(want) > 0 && len(got) == 0 {
		s.vio("entries-mismatch", "Entries(%d,%d,limit %d) returned nothing", lo, hi, limit)
		return
	}
	for i, e := range got {
		if !sameEntry(want[i], e) {
			oracle := "entries-mismatch"
			if e.Index == want[i].Index {
				oracle = "stale-entry"
			}
			s.vio(oracle, "Entries(%d,%d,limit %d)[%d] = (%d, term %d, key %d), logical log has (%d, term %d, key %d)",
				lo, hi, limit, i, e.Index, e.Term, e.Key, want[i].Index, want[i].Term, want[i].Key)
			return
		}
	}
	if len(got) < len(want) {
		if limit == noLimit {
			s.vio("entries-mismatch", "Entries(%d,%d) without limit returned %d of %d entries", lo, hi, len(got), len(want))
			return
		}
		s.ctx.Count("probe.entries-limited", 1)
		s.checkLimit(want, len(got), limit, fmt.Sprintf("Entries(%d,%d)", lo, hi))
	}
	imMarker, _, cnt := s.el.InMemState()
	if cnt > 0 && lo < imMarker && hi > imMarker && len(got) > int(imMarker-lo) {
		s.ctx.Count("probe.entries-stitched", 1)
	}
}

func (s *sim) checkTerm(i uint64) {
	m := s.m
	s.probeCalls++
	got, err := s.el.Term(i)
	want, ok := m.term(i)
	if ok {
		if err != nil {
			s.vio("spurious-error", "term(%d) failed with %v; the logical log has [%d,%d] and knows the term of %d", i, err, m.first(), m.last(), m.floor)
			return
		}
		if got != want {
			s.vio("term-mismatch", "term(%d) = %d, logical log says %d (first %d last %d)", i, got, want, m.first(), m.last())
		}
		return
	}
	// outside: "no such entry" (0) or one of the two range errors
	if err != nil {
		if !isLogErr(err) {
			s.vio("spurious-error", "term(%d) outside [%d,%d]: unexpected error %v", i, m.floor, m.last(), err)
		}
		return
	}
	if got != 0 {
		s.vio("stale-entry", "term(%d) = %d but the logical log is [%d,%d] (an entry that is not part of the log is visible)", i, got, m.first(), m.last())
	}
}

// checkAll compares every answer of the entry log with the model.
func (s *sim) checkAll(where string) {
	if s.ctx.Violated() {
		return
	}
	m := s.m
	el := s.el
	if got := el.FirstIndex(); got != m.first() {
		s.vio("range-mismatch", "%s: firstIndex %d, model %d", where, got, m.first())
		return
	}
	if got := el.LastIndex(); got != m.last() {
		s.vio("range-mismatch", "%s: lastIndex %d, model %d", where, got, m.last())
		return
	}
	if got := el.Committed(); got != m.committed {
		s.vio("commit-mismatch", "%s: committed %d, model %d", where, got, m.committed)
		return
	}
	if got := el.Processed(); got != m.processed {
		s.vio("apply-mismatch", "%s: processed %d, model %d", where, got, m.processed)
		return
	}
	if lt, err := el.LastTerm(); err != nil {
		s.vio("spurious-error", "%s: lastTerm failed: %v", where, err)
		return
	} else if want, _ := m.term(m.last()); lt != want {
		s.vio("term-mismatch", "%s: lastTerm %d, model %d", where, lt, want)
		return
	}
	// term(i) over the whole log and a little beyond on both sides
	lo := uint64(0)
	if m.floor > 3 {
		lo = m.floor - 3
	}
	hi := m.last() + 3
	if hi-lo <= 96 {
		for i := lo; i <= hi && !s.ctx.Violated(); i++ {
			s.checkTerm(i)
		}
	} else {
		// long log: both ends, the in-memory boundary and a stride through the middle
		imMarker, _, _ := el.InMemState()
		for i := lo; i <= lo+12; i++ {
			s.checkTerm(i)
		}
		for i := hi - 12; i <= hi; i++ {
			s.checkTerm(i)
		}
		for d := uint64(0); d < 6; d++ {
			if imMarker+d >= 3 {
				s.checkTerm(imMarker + d - 3)
			}
		}
		for i := lo + 13; i < hi-12; i += 5 {
			s.checkTerm(i)
		}
	}
	if s.ctx.Violated() {
		return
	}
	// which entries still have to be persisted
	save := el.EntriesToSave()
	s.checkSave(save, where)
	if s.ctx.Violated() {
		return
	}
	// everything the log regards as saved really is in the store, in its
	// current form
	for i := m.floor + 1; i <= m.savedTo; i++ {
		d, ok := s.db.get(i)
		if !ok || !sameEntry(d, m.at(i)) {
			e := m.at(i)
			s.vio("save-skipped-reappended", "%s: entry (%d, term %d, key %d) counts as saved but the store holds %s", where, e.Index, e.Term, e.Key, descDisk(d, ok))
			return
		}
	}
	// which entries are ready to apply
	if got := el.HasEntriesToApply(); s.out == nil && got != (m.processed < m.committed) {
		s.vio("apply-mismatch", "%s: hasEntriesToApply %t, model processed %d committed %d", where, got, m.processed, m.committed)
		return
	}
	if s.out == nil {
		// (between GetUpdate and Commit the core never asks again: what was
		// handed out is only accounted for by Commit)
		ents, err := el.EntriesToApply()
		if err != nil {
			s.vio("spurious-error", "%s: EntriesToApply failed: %v", where, err)
			return
		}
		s.checkApply(ents, where)
		if s.ctx.Violated() {
			return
		}
	}
	// entries(lo,hi,limit): the whole log plus tape-chosen ranges
	if m.last() >= m.first() {
		s.checkEntries(m.first(), m.last()+1, noLimit)
	} else {
		s.checkEntries(m.first(), m.first(), noLimit)
	}
	for k := 0; k < 2 && !s.ctx.Violated(); k++ {
		s.probeEntries(s.src, false)
	}
	// abstract state
	imMarker, imSaved, cnt := el.InMemState()
	st := uint64(1469598103934665603)
	for _, v := range []uint64{bucket(m.last() - m.committed), bucket(m.committed - m.processed), bucket(m.last() - m.savedTo),
		bucket(uint64(cnt)), bucket(m.floor - m.off), rel(imMarker, m.first()), rel(imMarker, m.committed+1), rel(imSaved, m.committed),
		b2u(el.InMemSnapshot() != nil), b2u(s.out != nil), b2u(s.isLeader), bucket(m.processed - min64(m.processed, s.rsmApplied))} {
		st = (st ^ v) * 1099511628211
	}
	s.ctx.State(st)
}

func bucket(v uint64) uint64 {
	switch {
	case v == 0:
		return 0
	case v == 1:
		return 1
	case v <= 4:
		return 2
	case v <= 16:
		return 3
	}
	return 4
}

func rel(a, b uint64) uint64 {
	switch {
	case a < b:
		return 0
	case a == b:
		return 1
	}
	return 2
}

func b2u(b bool) uint64 {
	if b {
		return 1
	}
	return 0
}

func min64(a, b uint64) uint64 {
	if a < b {
		return a
	}
	return b
}

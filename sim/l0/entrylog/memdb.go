// Package entrylog is the L0 simulator behind property C19: the real raft
// entryLog (+ inMemory) over a real logdb.LogReader over a tiny in-memory
// raftio.ILogDB, driven by tape-chosen operation sequences and compared after
// every operation with RefLog, a slice model written from the statement of
// C19.
//
// Update/Commit cycles follow Peer.GetUpdate / engine.processSteps /
// Peer.Commit. Param lag=0 runs the three phases (take the update, persist +
// LogReader.Append + scheduled compaction, Commit) back to back like the
// step worker does; lag=1 separates them and lets everything that does not
// run on the node's step worker happen in between (apply progress, local
// snapshots, a leader's commit re-evaluation, the remote leader moving on);
// lag=2 (exploratory, not registered) lets appends and conflict truncations
// happen in between as well. The entry log is NOT robust against lag=2: an
// acknowledgement whose (index, term) was truncated away is dropped as a
// whole although a prefix of that update was persisted and applied; once
// appliedLogTo trims the window past savedTo, entriesToSave() underflows
// (idx-markerIndex) and returns nothing for ever. The engine never steps a
// node between GetUpdate and Commit, so this is outside the property.
package entrylog

import (
	"errors"

	"github.com/lni/dragonboat/v4/raftio"
	pb "github.com/lni/dragonboat/v4/raftpb"
)

// memDB is the persistent store of the simulation: a map index -> entry with
// overwrite-truncates-suffix semantics on save. Only what LogReader calls
// (IterateEntries) is meaningful; the harness writes to it directly the way
// the engine's SaveRaftState/RemoveEntriesTo would.
type memDB struct {
	ents map[uint64]pb.Entry
	max  uint64 // highest index present (0 = none)
	// counters
	iterCalls int64
}

var _ raftio.ILogDB = (*memDB)(nil)

func newMemDB() *memDB { return &memDB{ents: map[uint64]pb.Entry{}} }

// save persists a continuous run of entries; whatever was stored at higher
// indexes is no longer part of the stored log (documented contract of
// SaveRaftState: the log ends with the last saved entry).
func (d *memDB) save(ents []pb.Entry) {
	if len(ents) == 0 {
		return
	}
	for _, e := range ents {
		c := e
		c.Cmd = append([]byte(nil), e.Cmd...)
		d.ents[e.Index] = c
	}
	last := ents[len(ents)-1].Index
	for i := last + 1; i <= d.max; i++ {
		delete(d.ents, i)
	}
	d.max = last
}

func (d *memDB) get(index uint64) (pb.Entry, bool) {
	e, ok := d.ents[index]
	return e, ok
}

func (d *memDB) removeTo(index uint64) {
	// entries are few; walking the map keeps this independent of how far the
	// floor is from the first stored index
	for i := range d.ents {
		if i <= index {
			delete(d.ents, i)
		}
	}
}

// IterateEntries returns the continuous entries in [low, high); like the
// shipped stores it stops after the entry that takes size above maxSize.
func (d *memDB) IterateEntries(ents []pb.Entry, size uint64, shardID uint64,
	replicaID uint64, low uint64, high uint64, maxSize uint64) ([]pb.Entry, uint64, error) {
	d.iterCalls++
	for i := low; i < high; i++ {
		e, ok := d.ents[i]
		if !ok {
			break
		}
		c := e
		c.Cmd = append([]byte(nil), e.Cmd...)
		ents = append(ents, c)
		size += uint64(e.SizeUpperLimit())
		if size > maxSize {
			break
		}
	}
	return ents, size, nil
}

var errNotUsed = errors.New("memDB: method not used by LogReader")

func (d *memDB) Name() string                             { return "verif-memdb" }
func (d *memDB) Close() error                             { return nil }
func (d *memDB) BinaryFormat() uint32                     { return raftio.PlainLogDBBinVersion }
func (d *memDB) ListNodeInfo() ([]raftio.NodeInfo, error) { return nil, errNotUsed }
func (d *memDB) SaveBootstrapInfo(uint64, uint64, pb.Bootstrap) error {
	return errNotUsed
}
func (d *memDB) GetBootstrapInfo(uint64, uint64) (pb.Bootstrap, error) {
	return pb.Bootstrap{}, errNotUsed
}
func (d *memDB) SaveRaftState([]pb.Update, uint64) error { return errNotUsed }
func (d *memDB) ReadRaftState(uint64, uint64, uint64) (raftio.RaftState, error) {
	return raftio.RaftState{}, errNotUsed
}
func (d *memDB) RemoveEntriesTo(shardID uint64, replicaID uint64, index uint64) error {
	d.removeTo(index)
	return nil
}
func (d *memDB) CompactEntriesTo(uint64, uint64, uint64) (<-chan struct{}, error) {
	return nil, errNotUsed
}
func (d *memDB) SaveSnapshots([]pb.Update) error { return errNotUsed }
func (d *memDB) GetSnapshot(uint64, uint64) (pb.Snapshot, error) {
	return pb.Snapshot{}, errNotUsed
}
func (d *memDB) RemoveNodeData(uint64, uint64) error      { return errNotUsed }
func (d *memDB) ImportSnapshot(pb.Snapshot, uint64) error { return errNotUsed }

// nopCompactor satisfies pb.ICompactor (snapshot ref counting in LogReader).
type nopCompactor struct{}

func (nopCompactor) Compact(uint64) error { return nil }

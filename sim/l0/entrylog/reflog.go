package entrylog

import (
	"bytes"

	pb "github.com/lni/dragonboat/v4/raftpb"
)

// refLog is the logical log of C19: the result of the appends, conflict
// truncations and snapshot restores performed so far, plus the few counters
// the statement talks about (commit point, what was acknowledged as
// persisted, what was handed out for apply, first available index).
type refLog struct {
	off     uint64     // index of the entry before ents[0] (last restore point)
	offTerm uint64     // its term
	ents    []pb.Entry // ents[i].Index == off+1+i
	// floor is the index just below the first available entry (moved by
	// restores and by compaction of the persistent store); its term stays known
	floor     uint64
	floorTerm uint64
	committed uint64
	processed uint64 // handed out for apply up to here
	savedTo   uint64 // acknowledged as persisted up to here
}

func (m *refLog) last() uint64  { return m.off + uint64(len(m.ents)) }
func (m *refLog) first() uint64 { return m.floor + 1 }

// has reports whether index i is an entry of the logical log that is still
// available (above the floor).
func (m *refLog) has(i uint64) bool { return i > m.floor && i <= m.last() }

// at returns the entry at index i; i must be in (off, last].
func (m *refLog) at(i uint64) pb.Entry { return m.ents[i-m.off-1] }

// term returns the term at index i when the logical log can tell: for every
// available entry and for the floor marker itself.
func (m *refLog) term(i uint64) (uint64, bool) {
	if i == m.floor {
		return m.floorTerm, true
	}
	if i == m.off {
		return m.offTerm, i >= m.floor
	}
	if i < m.floor || i > m.last() || i <= m.off {
		return 0, false
	}
	return m.at(i).Term, true
}

// slice returns the entries [lo, hi); lo > off and hi <= last+1 required.
func (m *refLog) slice(lo, hi uint64) []pb.Entry {
	if lo >= hi {
		return nil
	}
	return m.ents[lo-m.off-1 : hi-m.off-1]
}

// truncateFrom drops every entry with index >= i (i > committed by the rules
// of raft; checked by the caller).
func (m *refLog) truncateFrom(i uint64) {
	m.ents = m.ents[:i-m.off-1]
	if m.savedTo > i-1 {
		m.savedTo = i - 1
	}
}

// appendNew appends entries that directly follow the current last index.
func (m *refLog) appendNew(ents []pb.Entry) {
	for _, e := range ents {
		c := e
		c.Cmd = append([]byte(nil), e.Cmd...)
		m.ents = append(m.ents, c)
	}
}

// followerAppend is what the Replicate rule of raft does to a log: nothing if
// the entry before the batch does not match; otherwise the first entry whose
// index is new or whose term differs truncates the log from there and the rest
// of the batch is appended. Returns (matched, first changed index or 0).
func (m *refLog) followerAppend(prev, prevTerm uint64, ents []pb.Entry) (bool, uint64) {
	t, ok := m.term(prev)
	if !ok || t != prevTerm {
		return false, 0
	}
	for k, e := range ents {
		if et, ok := m.term(e.Index); ok && e.Index <= m.last() && et == e.Term {
			continue
		}
		changed := e.Index
		if e.Index <= m.last() {
			m.truncateFrom(e.Index)
		}
		m.appendNew(ents[k:])
		return true, changed
	}
	return true, 0
}

// restore replaces the whole log by a snapshot marker.
func (m *refLog) restore(index, term uint64) {
	m.off, m.offTerm = index, term
	m.floor, m.floorTerm = index, term
	m.ents = nil
	m.committed = index
	m.processed = index
	m.savedTo = index
}

// ack is a persistence acknowledgement "the log up to (index, term) is
// stable"; it only says something about this log if the log still has that
// very entry.
func (m *refLog) ack(index, term uint64) bool {
	if index <= m.off || index > m.last() {
		return false
	}
	if m.at(index).Term != term {
		return false
	}
	if index > m.savedTo {
		m.savedTo = index
	}
	return true
}

func sameEntry(a, b pb.Entry) bool {
	return a.Index == b.Index && a.Term == b.Term && a.Key == b.Key && a.Type == b.Type &&
		a.ClientID == b.ClientID && a.SeriesID == b.SeriesID && a.RespondedTo == b.RespondedTo &&
		bytes.Equal(a.Cmd, b.Cmd)
}

// branch is the log of a (remote) leader. By construction every entry is
// created exactly once, with a term that was never used for that index before,
// and forks copy prefixes, so the Log Matching property holds between all logs
// of a run.
type branch struct {
	term     uint64 // the leader's term
	base     uint64 // the leader compacted its log up to here
	baseTerm uint64
	ents     []pb.Entry // ents[i].Index == base+1+i
	commit   uint64
}

func (b *branch) last() uint64 { return b.base + uint64(len(b.ents)) }

func (b *branch) termAt(i uint64) (uint64, bool) {
	if i == b.base {
		return b.baseTerm, true
	}
	if i < b.base || i > b.last() {
		return 0, false
	}
	return b.ents[i-b.base-1].Term, true
}

func (b *branch) slice(lo, hi uint64) []pb.Entry {
	if lo >= hi {
		return nil
	}
	return b.ents[lo-b.base-1 : hi-b.base-1]
}

func (b *branch) compactTo(i uint64) {
	if i <= b.base || i > b.last() {
		return
	}
	t, _ := b.termAt(i)
	b.ents = append([]pb.Entry(nil), b.ents[i-b.base:]...)
	b.base, b.baseTerm = i, t
}

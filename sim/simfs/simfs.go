// Package simfs is the simulated disk: a strict in-memory file system
// (lni/vfs StrictMem: data and directory entries are durable only once
// synced) wrapped so that the simulator sees, numbers and can perturb every
// operation, and so that a crash discards everything that is not durable,
// optionally keeping a torn prefix of unsynced appended data.
package simfs

import (
	"errors"
	"io"
	"os"
	"sort"
	"sync"

	gvfs "github.com/lni/vfs"
)

// Op is a file system operation kind.
type Op int

// Operation kinds.
const (
	OpCreate Op = iota
	OpWrite
	OpSync
	OpSyncDir
	OpRename
	OpRemove
	OpRemoveAll
	OpMkdir
	OpLink
	OpOpen
	OpRead
	OpList
	OpStat
	OpClose
	OpLock
	OpReuse
	numOps
)

var opNames = []string{"create", "write", "sync", "syncdir", "rename", "remove", "removeall",
	"mkdir", "link", "open", "read", "list", "stat", "close", "lock", "reuse"}

func (o Op) String() string { return opNames[o] }

// Mutating reports whether the op changes the disk.
func (o Op) Mutating() bool {
	switch o {
	case OpCreate, OpWrite, OpSync, OpSyncDir, OpRename, OpRemove, OpRemoveAll, OpMkdir, OpLink, OpReuse:
		return true
	}
	return false
}

// ErrInjected is the I/O error returned by injected faults.
var ErrInjected = errors.New("simfs: injected I/O error")

// ErrNoSpace is the injected disk-full error.
var ErrNoSpace = errors.New("simfs: no space left on device (injected)")

// ErrDead is returned to operations issued by a dead incarnation.
var ErrDead = errors.New("simfs: host incarnation is dead")

// Env is implemented by the simulator.
type Env interface {
	// FSOp is called before every operation with its global index on this
	// disk. It may park the calling task (yield point). A non nil error is
	// returned to the caller instead of performing the operation. For OpWrite a
	// short>0 asks for a short write of that many bytes followed by the error.
	FSOp(d *Disk, op Op, path string, size int, index int64) (err error, short int)
}

type pendingAppend struct {
	path   string
	base   int // file length when the unsynced run started
	data   []byte
	broken bool // a non-append write happened; no torn tail for this file
}

// Disk is one host's disk. It survives crashes of the host.
type Disk struct {
	Name string
	mem  *gvfs.MemFS
	env  Env
	mu   sync.Mutex
	inc  int
	ops  int64
	// OpCount counts operations by kind (fired, not configured).
	OpCount [numOps]int64
	pending map[string]*pendingAppend
	// Record, when non nil, receives every path touched (C15 path escape check).
	Record func(op Op, path string)
}

// NewDisk creates an empty disk.
func NewDisk(name string, env Env) *Disk {
	return &Disk{Name: name, mem: gvfs.NewStrictMem(), env: env, pending: map[string]*pendingAppend{}}
}

// Mem exposes the underlying strict MemFS (for corruption at rest, dumps).
func (d *Disk) Mem() *gvfs.MemFS { return d.mem }

// Ops returns the number of operations issued so far.
func (d *Disk) Ops() int64 { return d.ops }

// SetEnv replaces the environment hook.
func (d *Disk) SetEnv(env Env) { d.env = env }

// View returns the file system handle of the current incarnation.
func (d *Disk) View() *View { return &View{d: d, inc: d.inc} }

// TornChooser decides what survives of unsynced appended data at a crash:
// given the length of the unsynced run it returns how many bytes are kept and
// whether the last kept sector is garbled.
type TornChooser func(path string, unsynced int) (keep int, garble bool)

// Crash discards all volatile state. Handles of the previous incarnation are
// dead afterwards. Returns the number of files that kept a torn tail.
func (d *Disk) Crash(torn TornChooser) int {
	d.mu.Lock()
	defer d.mu.Unlock()
	d.inc++
	pend := d.pending
	d.pending = map[string]*pendingAppend{}
	d.mem.ResetToSyncedState()
	kept := 0
	if torn == nil {
		return 0
	}
	paths := make([]string, 0, len(pend))
	for p := range pend {
		paths = append(paths, p)
	}
	sort.Strings(paths)
	for _, p := range paths {
		pa := pend[p]
		if pa.broken || len(pa.data) == 0 {
			continue
		}
		st, err := d.mem.Stat(p)
		if err != nil || st.IsDir() || int(st.Size()) != pa.base {
			continue
		}
		keep, garble := torn(p, len(pa.data))
		if keep <= 0 {
			continue
		}
		if keep > len(pa.data) {
			keep = len(pa.data)
		}
		f, err := d.mem.OpenForAppend(p)
		if err != nil {
			continue
		}
		buf := append([]byte(nil), pa.data[:keep]...)
		if garble {
			for i := len(buf) - 1; i >= 0 && i >= len(buf)-7; i-- {
				buf[i] ^= 0x5a
			}
		}
		_, _ = f.Write(buf)
		_ = f.Sync()
		_ = f.Close()
		kept++
	}
	return kept
}

// Walk visits every file and directory below dir in sorted order (MemFS.Iterate
// only reports base names, so the tree is walked with List+Stat).
func (d *Disk) Walk(dir string, f func(path string, isDir bool)) {
	names, err := d.mem.List(dir)
	if err != nil {
		return
	}
	sort.Strings(names)
	for _, n := range names {
		p := d.mem.PathJoin(dir, n)
		st, err := d.mem.Stat(p)
		if err != nil {
			continue
		}
		f(p, st.IsDir())
		if st.IsDir() {
			d.Walk(p, f)
		}
	}
}

// SyncAll makes everything durable (used to build initial images).
func (d *Disk) SyncAll() {
	d.mu.Lock()
	defer d.mu.Unlock()
	d.pending = map[string]*pendingAppend{}
	dirs := []string{"/"}
	var files []string
	d.Walk("/", func(path string, isDir bool) {
		if isDir {
			dirs = append(dirs, path)
		} else {
			files = append(files, path)
		}
	})
	for _, p := range files {
		if f, err := d.mem.OpenForAppend(p); err == nil {
			_ = f.Sync()
			_ = f.Close()
		}
	}
	for _, p := range dirs {
		if f, err := d.mem.OpenDir(p); err == nil {
			_ = f.Sync()
			_ = f.Close()
		}
	}
}

// ReadFile returns the content of a file straight from the disk (no
// operation is counted, nothing is injected).
func (d *Disk) ReadFile(path string) ([]byte, error) {
	f, err := d.mem.Open(path)
	if err != nil {
		return nil, err
	}
	defer f.Close()
	st, err := f.Stat()
	if err != nil {
		return nil, err
	}
	buf := make([]byte, st.Size())
	if len(buf) > 0 {
		if _, err := f.ReadAt(buf, 0); err != nil && err != io.EOF {
			return nil, err
		}
	}
	return buf, nil
}

// Snapshot returns path -> content for all files and path+"/" -> "" for
// directories, for before/after comparisons.
func (d *Disk) Snapshot() map[string]string {
	out := map[string]string{}
	d.Walk("/", func(path string, isDir bool) {
		if isDir {
			out[path+"/"] = ""
			return
		}
		if b, err := d.ReadFile(path); err == nil {
			out[path] = string(b)
		}
	})
	return out
}

// View is the vfs.FS handed to one incarnation of a host.
type View struct {
	d   *Disk
	inc int
}

var _ gvfs.FS = (*View)(nil)

// Disk returns the disk behind the view.
func (v *View) Disk() *Disk { return v.d }

// Dead reports whether the incarnation that owns this view has crashed.
func (v *View) Dead() bool { return v.inc != v.d.inc }

func (v *View) pre(op Op, path string, size int) (error, int) {
	d := v.d
	if v.inc != d.inc {
		return ErrDead, 0
	}
	d.mu.Lock()
	d.ops++
	idx := d.ops
	d.OpCount[op]++
	rec := d.Record
	d.mu.Unlock()
	if rec != nil {
		rec(op, path)
	}
	if d.env != nil {
		err, short := d.env.FSOp(d, op, path, size, idx)
		if v.inc != d.inc {
			// the host crashed while the task was parked at this operation
			return ErrDead, 0
		}
		return err, short
	}
	return nil, 0
}

func (v *View) wrap(f gvfs.File, path string, isDir bool, appendBase int, tracked bool) gvfs.File {
	return &file{v: v, f: f, path: path, isDir: isDir, tracked: tracked, wbase: appendBase}
}

// Create implements FS.
func (v *View) Create(name string) (gvfs.File, error) {
	if err, _ := v.pre(OpCreate, name, 0); err != nil {
		return nil, err
	}
	f, err := v.d.mem.Create(name)
	if err != nil {
		return nil, err
	}
	v.d.mu.Lock()
	delete(v.d.pending, name)
	v.d.mu.Unlock()
	return v.wrap(f, name, false, 0, true), nil
}

// Link implements FS.
func (v *View) Link(oldname, newname string) error {
	if err, _ := v.pre(OpLink, newname, 0); err != nil {
		return err
	}
	return v.d.mem.Link(oldname, newname)
}

// Open implements FS.
func (v *View) Open(name string, opts ...gvfs.OpenOption) (gvfs.File, error) {
	if err, _ := v.pre(OpOpen, name, 0); err != nil {
		return nil, err
	}
	f, err := v.d.mem.Open(name)
	if err != nil {
		return nil, err
	}
	for _, o := range opts {
		o.Apply(f)
	}
	return v.wrap(f, name, false, 0, false), nil
}

// OpenDir implements FS.
func (v *View) OpenDir(name string) (gvfs.File, error) {
	if err, _ := v.pre(OpOpen, name, 0); err != nil {
		return nil, err
	}
	f, err := v.d.mem.OpenDir(name)
	if err != nil {
		return nil, err
	}
	return v.wrap(f, name, true, 0, false), nil
}

// OpenForAppend implements FS.
func (v *View) OpenForAppend(name string) (gvfs.File, error) {
	if err, _ := v.pre(OpOpen, name, 0); err != nil {
		return nil, err
	}
	f, err := v.d.mem.OpenForAppend(name)
	if err != nil {
		return nil, err
	}
	base := 0
	if st, err := f.Stat(); err == nil {
		base = int(st.Size())
	}
	return v.wrap(f, name, false, base, true), nil
}

// Remove implements FS.
func (v *View) Remove(name string) error {
	if err, _ := v.pre(OpRemove, name, 0); err != nil {
		return err
	}
	return v.d.mem.Remove(name)
}

// RemoveAll implements FS.
func (v *View) RemoveAll(name string) error {
	if err, _ := v.pre(OpRemoveAll, name, 0); err != nil {
		return err
	}
	return v.d.mem.RemoveAll(name)
}

// Rename implements FS.
func (v *View) Rename(oldname, newname string) error {
	if err, _ := v.pre(OpRename, newname, 0); err != nil {
		return err
	}
	err := v.d.mem.Rename(oldname, newname)
	if err == nil {
		v.d.mu.Lock()
		if pa, ok := v.d.pending[oldname]; ok {
			delete(v.d.pending, oldname)
			pa.broken = true
			v.d.pending[newname] = pa
		}
		v.d.mu.Unlock()
	}
	return err
}

// ReuseForWrite implements FS.
func (v *View) ReuseForWrite(oldname, newname string) (gvfs.File, error) {
	if err, _ := v.pre(OpReuse, newname, 0); err != nil {
		return nil, err
	}
	f, err := v.d.mem.ReuseForWrite(oldname, newname)
	if err != nil {
		return nil, err
	}
	return v.wrap(f, newname, false, 0, false), nil
}

// MkdirAll implements FS.
func (v *View) MkdirAll(dir string, perm os.FileMode) error {
	if err, _ := v.pre(OpMkdir, dir, 0); err != nil {
		return err
	}
	return v.d.mem.MkdirAll(dir, perm)
}

type lockCloser struct {
	v *View
	c io.Closer
}

func (l *lockCloser) Close() error {
	if l.v.Dead() {
		return nil
	}
	return l.c.Close()
}

// Lock implements FS. A crash releases the lock (MemFS locks are plain files).
func (v *View) Lock(name string) (io.Closer, error) {
	if err, _ := v.pre(OpLock, name, 0); err != nil {
		return nil, err
	}
	c, err := v.d.mem.Lock(name)
	if err != nil {
		return nil, err
	}
	return &lockCloser{v: v, c: c}, nil
}

// List implements FS.
func (v *View) List(dir string) ([]string, error) {
	if err, _ := v.pre(OpList, dir, 0); err != nil {
		return nil, err
	}
	// MemFS keeps directory entries in a Go map: sort, so that the order in
	// which a directory is listed is a function of its content (as readdir on
	// an unchanged directory is) and not of the process
	names, err := v.d.mem.List(dir)
	sort.Strings(names)
	return names, err
}

// Stat implements FS.
func (v *View) Stat(name string) (os.FileInfo, error) {
	if err, _ := v.pre(OpStat, name, 0); err != nil {
		return nil, err
	}
	fi, err := v.d.mem.Stat(name)
	if err != nil {
		return nil, err
	}
	// MemFS keeps the name inside the node and changes it on Rename, also when
	// the rename is later lost in a crash; a real file system reports the name
	// that was asked for
	return namedInfo{FileInfo: fi, name: v.d.mem.PathBase(name)}, nil
}

type namedInfo struct {
	os.FileInfo
	name string
}

func (n namedInfo) Name() string { return n.name }

// PathBase implements FS.
func (v *View) PathBase(path string) string { return v.d.mem.PathBase(path) }

// PathJoin implements FS.
func (v *View) PathJoin(elem ...string) string { return v.d.mem.PathJoin(elem...) }

// PathDir implements FS.
func (v *View) PathDir(path string) string { return v.d.mem.PathDir(path) }

// GetDiskUsage implements FS.
func (v *View) GetDiskUsage(path string) (gvfs.DiskUsage, error) {
	return gvfs.DiskUsage{AvailBytes: 1 << 40, TotalBytes: 1 << 41, UsedBytes: 1 << 40}, nil
}

type file struct {
	v       *View
	f       gvfs.File
	path    string
	isDir   bool
	tracked bool // sequential writer whose unsynced appends are remembered
	wbase   int  // length of the file at the last sync (or at open)
	wpos    int  // bytes written sequentially through this handle since wbase
	closed  bool
}

func (f *file) Seek(offset int64, whence int) (int64, error) { return f.f.Seek(offset, whence) }

func (f *file) Close() error {
	if f.closed {
		return nil
	}
	f.closed = true
	if f.v.Dead() {
		return nil
	}
	return f.f.Close()
}

func (f *file) Read(p []byte) (int, error) {
	if err, _ := f.v.pre(OpRead, f.path, len(p)); err != nil {
		return 0, err
	}
	return f.f.Read(p)
}

func (f *file) ReadAt(p []byte, off int64) (int, error) {
	if err, _ := f.v.pre(OpRead, f.path, len(p)); err != nil {
		return 0, err
	}
	return f.f.ReadAt(p, off)
}

func (f *file) noteAppend(p []byte) {
	if !f.tracked {
		return
	}
	d := f.v.d
	d.mu.Lock()
	pa := d.pending[f.path]
	if pa == nil {
		pa = &pendingAppend{path: f.path, base: f.wbase}
		d.pending[f.path] = pa
	}
	pa.data = append(pa.data, p...)
	d.mu.Unlock()
}

func (f *file) Write(p []byte) (int, error) {
	err, short := f.v.pre(OpWrite, f.path, len(p))
	if err != nil {
		if short > 0 && short < len(p) {
			n, _ := f.f.Write(p[:short])
			f.noteAppend(p[:n])
			return n, err
		}
		return 0, err
	}
	n, werr := f.f.Write(p)
	f.noteAppend(p[:n])
	return n, werr
}

func (f *file) WriteAt(p []byte, off int64) (int, error) {
	if err, _ := f.v.pre(OpWrite, f.path, len(p)); err != nil {
		return 0, err
	}
	d := f.v.d
	d.mu.Lock()
	if pa := d.pending[f.path]; pa != nil {
		pa.broken = true
	} else {
		d.pending[f.path] = &pendingAppend{path: f.path, broken: true}
	}
	d.mu.Unlock()
	return f.f.WriteAt(p, off)
}

func (f *file) Stat() (os.FileInfo, error) { return f.f.Stat() }

func (f *file) Sync() error {
	op := OpSync
	if f.isDir {
		op = OpSyncDir
	}
	if err, _ := f.v.pre(op, f.path, 0); err != nil {
		return err
	}
	err := f.f.Sync()
	if err == nil && !f.isDir {
		d := f.v.d
		d.mu.Lock()
		if pa := d.pending[f.path]; pa != nil {
			f.wbase = pa.base + len(pa.data)
			delete(d.pending, f.path)
		}
		d.mu.Unlock()
		if st, serr := f.f.Stat(); serr == nil {
			f.wbase = int(st.Size())
		}
	}
	return err
}

package realclock

import (
	"syscall"
	"time"
	"unsafe"
)

// Now reads the monotonic clock of the machine with a raw system call. The
// simulation binary is built with the runtime's `faketime` tag (the clock all
// Go code sees stands still while goroutines run and jumps to the next timer
// when everything is blocked), so budgets and measurements of real elapsed
// time cannot use package time.
func Now() time.Duration {
	var ts syscall.Timespec
	_, _, _ = syscall.Syscall(syscall.SYS_CLOCK_GETTIME, 1 /* CLOCK_MONOTONIC */, uintptr(unsafe.Pointer(&ts)), 0)
	return time.Duration(ts.Sec)*time.Second + time.Duration(ts.Nsec)
}

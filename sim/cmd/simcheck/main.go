// simcheck is the single binary behind every check registered in
// /verif/MANIFEST.json.
package main

import (
	"os"

	"github.com/lni/dragonboat/v4/verifsim/runner"
	_ "github.com/lni/dragonboat/v4/verifsim/scenarios"
)

func main() {
	os.Exit(runner.Main(os.Args[1:]))
}

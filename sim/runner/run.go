package runner

import (
	"encoding/json"
	"fmt"
	"os"
	"os/exec"
	"path/filepath"
	"runtime"
	"runtime/debug"
	"runtime/pprof"
	"sort"
	"strconv"
	"strings"
	"syscall"
	"time"

	"github.com/lni/dragonboat/v4/verifsim/choice"
	"github.com/lni/dragonboat/v4/verifsim/shrink"
)

// VerifDir is where MANIFEST.json, evidence/, replays/ live.
var VerifDir = "/verif"

func init() {
	// bin/check exports the directory it lives in (a scratch copy of /verif
	// used to try seeded changes must not write into /verif)
	if d := os.Getenv("VERIF_DIR"); d != "" {
		VerifDir = d
	}
}

// InfraError marks a failure of the machinery itself (exit 2, never VIOLATION).
type InfraError struct{ Msg string }

func (e InfraError) Error() string { return e.Msg }

// ExecRun executes one run with panic classification: a panic raised by the
// code under test is a violation (oracle "panic"); a panic raised by harness
// code is an infrastructure error.
func ExecRun(sc *Scenario, params map[string]string, property string,
	src *choice.Source, tracing bool) (res *Result, infra error) {
	ctx := NewCtx(src, params, property, tracing)
	for _, f := range PreRun {
		f(src.Aux)
	}
	defer func() {
		if r := recover(); r != nil {
			stack := string(debug.Stack())
			if fp, ok := r.(ForwardedPanic); ok {
				r = fp.Val
				stack = "panic(forwarded)\n" + stripGoroutineHeader(fp.Stack)
			}
			if _, ok := r.(choice.ErrTooManyDraws); ok {
				infra = InfraError{"too many draws (runaway run)"}
				res = ctx.Finish(false, 0, 0, "runaway")
				return
			}
			origin := panicOrigin(stack)
			msg := fmt.Sprintf("%v", r)
			if len(msg) > 600 {
				msg = msg[:600]
			}
			if strings.Contains(origin, "/verifsim/") || strings.Contains(origin, "verifsim.") {
				infra = InfraError{fmt.Sprintf("harness panic: %s at %s\n%s", msg, origin, stack)}
				res = ctx.Finish(false, 0, 0, "harness panic")
				return
			}
			p := property
			if p == "" {
				p = "C02"
			}
			ctx.res.Violations = append(ctx.res.Violations, Violation{Property: p, Oracle: "panic",
				Detail: msg + " @ " + origin})
			ctx.Tracef("PANIC %s\n%s", msg, stack)
			res = ctx.Finish(true, 0, 0, "panic in code under test")
		}
	}()
	res = sc.Run(ctx)
	return res, nil
}

// ForwardedPanic carries a panic raised on another goroutine (a simulator
// task) to the run's goroutine together with the stack it was raised on.
type ForwardedPanic struct {
	Val   interface{}
	Stack string
}

func stripGoroutineHeader(st string) string {
	// drop everything up to and including the frames of the recover/defer
	// machinery so that the first frame is the panicking function
	if i := strings.Index(st, "panic("); i >= 0 {
		return st[i:]
	}
	return st
}

// panicOrigin returns the first frame below the panic that is neither the
// runtime nor a logger, i.e. the function that raised it.
func panicOrigin(stack string) string {
	lines := strings.Split(stack, "\n")
	seenPanic := false
	for i := 0; i < len(lines); i++ {
		l := lines[i]
		if strings.HasPrefix(l, "panic(") {
			seenPanic = true
			continue
		}
		if !seenPanic || strings.HasPrefix(l, "\t") || l == "" {
			continue
		}
		if strings.HasPrefix(l, "runtime.") || strings.HasPrefix(l, "runtime/") ||
			strings.Contains(l, "/logger.") || strings.Contains(l, "logger.(") ||
			strings.HasPrefix(l, "log.") || strings.Contains(l, "runner.(*Ctx)") ||
			strings.Contains(l, "sinkLogger.") || strings.Contains(l, "nullLogger.") {
			continue
		}
		loc := ""
		if i+1 < len(lines) {
			loc = strings.TrimSpace(lines[i+1])
		}
		if j := strings.Index(l, "("); j > 0 {
			l = l[:j]
		}
		return l + " " + loc
	}
	return "unknown"
}

// ReplayFile is the on disk format of a failure.
type ReplayFile struct {
	Property  string            `json:"property"`
	Scenario  string            `json:"scenario"`
	Params    map[string]string `json:"params"`
	RunSeed   uint64            `json:"run_seed"`
	BatchSeed uint64            `json:"batch_seed"`
	Aux       uint64            `json:"aux"`
	Oracle    string            `json:"oracle"`
	Detail    string            `json:"detail"`
	Tape      []uint32          `json:"tape"`
	NonZero   int               `json:"tape_nonzero"`
	OrigLen   int               `json:"orig_tape_len"`
	Shrink    shrink.Stats      `json:"shrink"`
	TraceHash uint64            `json:"trace_hash"`
	Trace     []string          `json:"trace"`
	GoVersion string            `json:"go_version"`
}

type sample struct {
	Scenario string `json:"scenario"`
	Params   string `json:"params,omitempty"`
	Seed     uint64 `json:"run_seed"`
	Summary  string `json:"summary"`
}

type foundViolation struct {
	Violation
	Scenario string `json:"scenario"`
	Seed     uint64 `json:"run_seed"`
	Replay   string `json:"replay"`
	Known    string `json:"known,omitempty"`
}

type workerOut struct {
	Runs       int64            `json:"runs"`
	Nontrivial int64            `json:"nontrivial"`
	Sigs       []uint64         `json:"sigs"`
	States     []uint64         `json:"states"`
	Counters   map[string]int64 `json:"counters"`
	SimTicks   int64            `json:"sim_ticks"`
	Events     int64            `json:"events"`
	Samples    []sample         `json:"samples"`
	Violations []foundViolation `json:"violations"`
	Known      map[string]int64 `json:"known"`
	Infra      []string         `json:"infra"`
	PartRuns   map[string]int64 `json:"part_runs"`
	WallS      float64          `json:"wall_s"`
	Draws      int64            `json:"draws"`
	Recycle    bool             `json:"recycle"` // the worker stopped early to shed memory; start another one
	NextCount  []uint64         `json:"next_count"`
}

// KnownFinding is one entry of known_findings.json.
type KnownFinding struct {
	Status   string `json:"status"` // "known" or "fixed"
	Property string `json:"property"`
	Oracle   string `json:"oracle"`
	Match    string `json:"match"`            // substring of the violation detail
	Match2   string `json:"match2,omitempty"` // optional second substring that must be present too
	What     string `json:"what"`
	Commit   string `json:"commit,omitempty"`
}

func loadKnown() []KnownFinding {
	b, err := os.ReadFile(filepath.Join(VerifDir, "known_findings.json"))
	if err != nil {
		return nil
	}
	var k []KnownFinding
	if err := json.Unmarshal(b, &k); err != nil {
		fmt.Fprintf(os.Stderr, "known_findings.json unreadable: %v\n", err)
		os.Exit(2)
	}
	return k
}

func matchKnown(k []KnownFinding, v Violation) *KnownFinding {
	for i := range k {
		e := &k[i]
		if e.Status != "known" {
			continue
		}
		if e.Property == v.Property && e.Oracle == v.Oracle && strings.Contains(v.Detail, e.Match) &&
			(e.Match2 == "" || strings.Contains(v.Detail, e.Match2)) {
			return e
		}
	}
	return nil
}

func envInt(name string, def int64) int64 {
	if s := os.Getenv(name); s != "" {
		if v, err := strconv.ParseInt(s, 10, 64); err == nil {
			return v
		}
	}
	return def
}

func envSeed() uint64 {
	if s := os.Getenv("VERIF_SEED"); s != "" {
		if v, err := strconv.ParseUint(s, 10, 64); err == nil {
			return v
		}
		if v, err := strconv.ParseInt(s, 10, 64); err == nil {
			return uint64(v)
		}
	}
	return 1
}

// SimBinary is the path of the simulation binary: the sibling "<name>-sim"
// built with the faketime tag if there is one, else this binary.
func SimBinary() string {
	self := os.Args[0]
	if p, err := os.Executable(); err == nil {
		self = p
	}
	if Faketime {
		return self
	}
	if _, err := os.Stat(self + "-sim"); err == nil {
		return self + "-sim"
	}
	return self
}

// realTimeOnly reports whether a run-executing subcommand only touches
// scenarios marked RealTime (then the driver binary executes it itself).
func realTimeOnly(args []string) bool {
	var names []string
	switch args[0] {
	case "worker":
		if len(args) < 3 {
			return false
		}
		c := checks[args[1]]
		if c == nil {
			return false
		}
		for _, p := range allParts(c, args[2]) {
			names = append(names, p.Scenario)
		}
	case "one", "dethash":
		if len(args) < 2 {
			return false
		}
		names = append(names, args[1])
	case "replay", "evalserver":
		if len(args) < 2 {
			return false
		}
		b, err := os.ReadFile(args[1])
		if err != nil {
			return false
		}
		var rf ReplayFile
		if json.Unmarshal(b, &rf) != nil {
			return false
		}
		names = append(names, rf.Scenario)
	}
	if len(names) == 0 {
		return false
	}
	for _, n := range names {
		if sc := scenarios[n]; sc == nil || !sc.RealTime {
			return false
		}
	}
	return true
}

// workerBinary is the binary that runs the workers of a check.
func workerBinary(prop, tier string) string {
	if realTimeOnly([]string{"worker", prop, tier}) {
		if p, err := os.Executable(); err == nil {
			return p
		}
		return os.Args[0]
	}
	return SimBinary()
}

// workerClass decides which binary runs worker w of a check and which parts it
// takes. A check whose parts are all of one kind is run by one kind of worker
// ("all"). In a mixed check the RealTime parts (component simulators whose code
// under test starts free-running goroutines with tickers: Pebble) are run by
// workers of the driver binary ("rt"), the others by workers of the faketime
// simulation binary ("sim"); the workers are divided by the parts' shares.
func workerClass(prop, tier string, w, nw int) (string, string) {
	self := os.Args[0]
	if p, err := os.Executable(); err == nil {
		self = p
	}
	c := checks[prop]
	rt, other := 0, 0
	for _, p := range allParts(c, tier) {
		sh := p.Share
		if sh <= 0 {
			sh = 1
		}
		if sc := scenarios[p.Scenario]; sc != nil && sc.RealTime {
			rt += sh
		} else {
			other += sh
		}
	}
	sb := SimBinary()
	if rt == 0 || sb == self {
		return sb, "all"
	}
	if other == 0 {
		return self, "all"
	}
	if nw < 2 {
		// one worker cannot serve both kinds: it runs the simulation parts
		return sb, "sim"
	}
	nrt := (nw*rt + (rt+other)/2) / (rt + other)
	if nrt < 1 {
		nrt = 1
	}
	if nrt > nw-1 {
		nrt = nw - 1
	}
	if w < nrt {
		return self, "rt"
	}
	return sb, "sim"
}

// Main is the entry point of cmd/simcheck.
func Main(args []string) int {
	if len(args) < 1 {
		fmt.Fprintln(os.Stderr, "usage: simcheck check <prop> <tier> | worker ... | replay <file> | selftest <scenario> | list")
		return 2
	}
	switch args[0] {
	case "worker", "replay", "evalserver", "one", "dethash":
		// everything that executes simulated runs is done by the simulation
		// binary (faketime runtime); this binary only drives it
		if sb := SimBinary(); !Faketime && sb != os.Args[0] && !realTimeOnly(args) &&
			!(args[0] == "worker" && os.Getenv("VERIF_WORKER_CLASS") == "rt") {
			cmd := exec.Command(sb, args...)
			cmd.Stdin, cmd.Stdout, cmd.Stderr = os.Stdin, os.Stdout, os.Stderr
			if _, set := os.LookupEnv("GOMAXPROCS"); !set {
				cmd.Env = append(os.Environ(), "GOMAXPROCS=1")
			}
			if err := cmd.Run(); err != nil {
				if ee, ok := err.(*exec.ExitError); ok {
					return ee.ExitCode()
				}
				fmt.Fprintln(os.Stderr, err)
				return 2
			}
			return 0
		}
	}
	switch args[0] {
	case "list":
		for _, c := range Checks() {
			fmt.Println(c)
		}
		return 0
	case "check":
		if len(args) < 3 {
			return 2
		}
		return parent(args[1], args[2])
	case "worker":
		return worker(args[1:])
	case "replay":
		if len(args) < 2 {
			return 2
		}
		return replay(args[1])
	case "evalserver":
		if len(args) < 2 {
			return 2
		}
		return evalServer(args[1])
	case "one":
		// one <scenario> <seed> [k=v,...] : run a single seed with tracing
		return one(args[1:])
	case "dethash":
		// dethash <scenario> <params> <seedFrom> <count>: print seed, trace hash
		return dethash(args[1:])
	}
	return 2
}

func parseParams(s string) map[string]string {
	p := map[string]string{}
	if s == "" || s == "-" {
		return p
	}
	for _, kv := range strings.Split(s, ",") {
		if i := strings.Index(kv, "="); i > 0 {
			p[kv[:i]] = kv[i+1:]
		}
	}
	return p
}

func one(args []string) int {
	if len(args) < 2 {
		return 2
	}
	sc := scenarios[args[0]]
	if sc == nil {
		fmt.Fprintln(os.Stderr, "unknown scenario")
		return 2
	}
	seed, _ := strconv.ParseUint(args[1], 10, 64)
	params := map[string]string{}
	if len(args) > 2 {
		params = parseParams(args[2])
	}
	Live = os.Getenv("VERIF_LIVE") != ""
	res, infra := ExecRun(sc, params, params["property"], choice.FromSeed(seed), true)
	for _, l := range res.Trace {
		fmt.Println(l)
	}
	fmt.Printf("summary: %s\ncounters: %v\nhash=%x sig=%x events=%d ticks=%d\n", res.Summary, sortedCounters(res.Counters),
		res.TraceHash, res.Sig, res.Events, res.SimTicks)
	if infra != nil {
		fmt.Println("INFRA:", infra)
		return 2
	}
	for _, v := range res.Violations {
		fmt.Printf("violation %s/%s: %s\n", v.Property, v.Oracle, v.Detail)
	}
	if len(res.Violations) > 0 {
		return 1
	}
	return 0
}

func sortedCounters(c map[string]int64) string {
	keys := make([]string, 0, len(c))
	for k := range c {
		keys = append(keys, k)
	}
	sort.Strings(keys)
	var sb strings.Builder
	for _, k := range keys {
		fmt.Fprintf(&sb, "%s=%d ", k, c[k])
	}
	return sb.String()
}

func dethash(args []string) int {
	if len(args) < 4 {
		return 2
	}
	if pf := os.Getenv("VERIF_CPUPROFILE"); pf != "" {
		f, _ := os.Create(pf)
		_ = pprof.StartCPUProfile(f)
		defer pprof.StopCPUProfile()
	}
	if pf := os.Getenv("VERIF_MEMPROFILE"); pf != "" {
		runtime.MemProfileRate = 4096
		defer func() {
			f, _ := os.Create(pf)
			_ = pprof.Lookup("allocs").WriteTo(f, 0)
			f.Close()
		}()
	}
	sc := scenarios[args[0]]
	if sc == nil {
		return 2
	}
	params := parseParams(args[1])
	from, _ := strconv.ParseUint(args[2], 10, 64)
	n, _ := strconv.ParseUint(args[3], 10, 64)
	for s := from; s < from+n; s++ {
		src := choice.FromSeed(choice.Mix(s, 7))
		res, infra := ExecRun(sc, params, params["property"], src, false)
		if infra != nil {
			fmt.Printf("%d INFRA %v\n", s, infra)
			continue
		}
		fmt.Printf("%d %016x %d %d v=%d\n", s, res.TraceHash, src.Len(), res.Events, len(res.Violations))
		if os.Getenv("VERIF_DETHASH_SEEDS") != "" {
			fmt.Printf("  run_seed=%d\n", choice.Mix(s, 7))
		}
	}
	return 0
}

func allParts(c *Check, tier string) []Part {
	parts := append([]Part(nil), c.Parts...)
	if tier == "thorough" {
		parts = append(parts, c.ThoroughParts...)
	}
	// development aid (sensitivity experiments): VERIF_ONLY_PART=<index> runs one part of the check only
	if i := envInt("VERIF_ONLY_PART", -1); i >= 0 && int(i) < len(parts) {
		return parts[i : i+1]
	}
	return parts
}

func parent(prop, tier string) int {
	c := checks[prop]
	if c == nil {
		fmt.Fprintf(os.Stderr, "no check registered for %s\n", prop)
		return 2
	}
	if tier != "quick" && tier != "thorough" {
		fmt.Fprintln(os.Stderr, "tier must be quick or thorough")
		return 2
	}
	start := time.Now()
	seed := envSeed()
	budget := int64(c.QuickBudgetS)
	if tier == "thorough" {
		budget = int64(c.ThoroughS)
	}
	budget = envInt("VERIF_BUDGET_S", budget)
	nw := int(envInt("VERIF_WORKERS", int64(runtime.NumCPU())))
	if nw < 1 {
		nw = 1
	}
	fmt.Printf("check %s tier=%s VERIF_SEED=%d budget=%ds workers=%d go=%s\n", prop, tier, seed, budget, nw, runtime.Version())
	workDir := filepath.Join(VerifDir, "work", fmt.Sprintf("%s-%s-%d", prop, tier, os.Getpid()))
	if err := os.MkdirAll(workDir, 0o755); err != nil {
		fmt.Fprintln(os.Stderr, err)
		return 2
	}
	defer os.RemoveAll(workDir)
	_ = os.MkdirAll(filepath.Join(VerifDir, "replays"), 0o755)
	_ = os.MkdirAll(filepath.Join(VerifDir, "evidence"), 0o755)
	type wres struct {
		outs []workerOut
		err  error
		code int
	}
	results := make([]wres, nw)
	done := make(chan int, nw)
	for w := 0; w < nw; w++ {
		go func(w int) {
			defer func() { done <- w }()
			endAt := start.Add(time.Duration(budget) * time.Second)
			startCount := ""
			for gen := 0; ; gen++ {
				left := int64(time.Until(endAt).Seconds())
				if gen > 0 && left < 2 {
					return
				}
				if left < 1 {
					left = 1
				}
				outFile := filepath.Join(workDir, fmt.Sprintf("w%d.json", w))
				_ = os.Remove(outFile)
				bin, class := workerClass(prop, tier, w, nw)
				cmd := exec.Command(bin, "worker", prop, tier, strconv.FormatUint(seed, 10),
					strconv.Itoa(w), strconv.Itoa(nw), strconv.FormatInt(left, 10), outFile)
				cmd.Stderr = os.Stderr
				cmd.Stdout = os.Stderr
				cmd.Env = append(os.Environ(), "GOMAXPROCS=1", "VERIF_START_COUNT="+startCount, "VERIF_WORKER_CLASS="+class)
				cmd.SysProcAttr = &syscall.SysProcAttr{Pdeathsig: syscall.SIGKILL} // no orphans
				err := cmd.Run()
				var o workerOut
				b, rerr := os.ReadFile(outFile)
				if rerr == nil {
					_ = json.Unmarshal(b, &o)
				}
				results[w].outs = append(results[w].outs, o)
				if err != nil {
					results[w].err = err
					if ee, ok := err.(*exec.ExitError); ok {
						results[w].code = ee.ExitCode()
					} else {
						results[w].code = 2
					}
					return
				}
				if rerr != nil {
					results[w].err = rerr
					results[w].code = 2
					return
				}
				if !o.Recycle || len(o.Violations) > 0 {
					return
				}
				parts := make([]string, len(o.NextCount))
				for i, c := range o.NextCount {
					parts[i] = strconv.FormatUint(c, 10)
				}
				startCount = strings.Join(parts, ",")
			}
		}(w)
	}
	for i := 0; i < nw; i++ {
		<-done
	}
	// merge
	tot := workerOut{Counters: map[string]int64{}, Known: map[string]int64{}, PartRuns: map[string]int64{}}
	sigs := map[uint64]struct{}{}
	states := map[uint64]struct{}{}
	infra := false
	for w := range results {
		r := results[w]
		if r.err != nil {
			cur, _ := os.ReadFile(filepath.Join(workDir, fmt.Sprintf("w%d.json.cur", w)))
			fmt.Fprintf(os.Stderr, "worker %d failed: %v (exit %d) while running: %s\n", w, r.err, r.code, string(cur))
			infra = true
		}
		for _, o := range r.outs {
			tot.Runs += o.Runs
			tot.Nontrivial += o.Nontrivial
			tot.SimTicks += o.SimTicks
			tot.Events += o.Events
			tot.Draws += o.Draws
			for k, v := range o.Counters {
				tot.Counters[k] += v
			}
			for k, v := range o.Known {
				tot.Known[k] += v
			}
			for k, v := range o.PartRuns {
				tot.PartRuns[k] += v
			}
			for _, s := range o.Sigs {
				sigs[s] = struct{}{}
			}
			for _, s := range o.States {
				states[s] = struct{}{}
			}
			if len(tot.Samples) < 12 {
				for _, s := range o.Samples {
					if len(tot.Samples) < 12 {
						tot.Samples = append(tot.Samples, s)
					}
				}
			}
			tot.Violations = append(tot.Violations, o.Violations...)
			if len(o.Infra) > 0 {
				infra = true
				for _, m := range o.Infra {
					fmt.Fprintf(os.Stderr, "INFRA worker %d: %s\n", w, m)
				}
			}
		}
	}
	wall := time.Since(start).Seconds()
	known := loadKnown()
	// report
	realSet, stubSet := map[string]struct{}{}, map[string]struct{}{}
	rules := []string{}
	partDesc := []map[string]interface{}{}
	for _, p := range allParts(c, tier) {
		sc := scenarios[p.Scenario]
		if sc == nil {
			continue
		}
		for _, r := range sc.Real {
			realSet[r] = struct{}{}
		}
		for _, r := range sc.Stub {
			stubSet[r] = struct{}{}
		}
		key := p.Scenario + "{" + ParamString(p.Params) + "}"
		rules = append(rules, p.Scenario+": "+sc.Rule)
		partDesc = append(partDesc, map[string]interface{}{"scenario": p.Scenario, "params": ParamString(p.Params),
			"runs": tot.PartRuns[key]})
	}
	faults, probes, evs, other := map[string]int64{}, map[string]int64{}, map[string]int64{}, map[string]int64{}
	for k, v := range tot.Counters {
		switch {
		case strings.HasPrefix(k, "fault."):
			faults[k[6:]] = v
		case strings.HasPrefix(k, "probe."):
			probes[k[6:]] = v
		case strings.HasPrefix(k, "ev."):
			evs[k[3:]] = v
		default:
			other[k] = v
		}
	}
	unknownV := 0
	// one line per finding listed for this property in known_findings.json (in
	// file order), whether or not this run reached it
	printedKnown := map[string]bool{}
	for _, e := range known {
		if e.Status != "known" || e.Property != prop || printedKnown[e.What] {
			continue
		}
		printedKnown[e.What] = true
		if n := tot.Known[e.What]; n > 0 {
			fmt.Printf("KNOWN-FINDING: property=%s %s (hit %d times in this run)\n", prop, e.What, n)
		} else {
			fmt.Printf("KNOWN-FINDING: property=%s %s (not reached in this run)\n", prop, e.What)
		}
	}
	// minimise (in parallel) the first replay of each distinct violation class
	shrunkClass := map[string]bool{}
	for _, v := range tot.Violations {
		if matchKnown(known, v.Violation) != nil || shrunkClass[v.Class()] || len(shrunkClass) >= 2 || v.Replay == "" {
			continue
		}
		shrunkClass[v.Class()] = true
		pb := 60 * time.Second
		if tier == "thorough" {
			pb = 240 * time.Second
		}
		parallelShrink(v.Replay, pb)
	}
	seenClass := map[string]bool{}
	for _, v := range tot.Violations {
		if kf := matchKnown(known, v.Violation); kf != nil {
			continue
		}
		unknownV++
		cls := v.Class() + v.Detail
		if seenClass[cls] {
			continue
		}
		seenClass[cls] = true
		fmt.Printf("VIOLATION property=%s replay=%s\n", v.Property, v.Replay)
		fmt.Printf("  oracle=%s scenario=%s run_seed=%d detail=%s\n", v.Oracle, v.Scenario, v.Seed, v.Detail)
	}
	ev := map[string]interface{}{
		"property_id": prop,
		"tier":        tier,
		"seed":        int64(seed & 0x7fffffffffffffff),
		"level":       c.Level,
		"wall_s":      wall,
		"violations":  unknownV,
		"assumptions": c.Assumptions,
		"coverage": map[string]interface{}{
			"evaluations":              tot.Runs,
			"distinct_nontrivial":      len(sigs),
			"rule":                     strings.Join(uniq(rules), " | "),
			"samples":                  tot.Samples,
			"runs_per_hour":            int64(float64(tot.Runs) / wall * 3600),
			"nontrivial_runs":          tot.Nontrivial,
			"distinct_abstract_states": len(states),
			"simulated_ticks":          tot.SimTicks,
			"simulated_events":         tot.Events,
			"choice_draws":             tot.Draws,
			"faults_fired":             faults,
			"probes_hit":               probes,
			"event_counts":             evs,
			"other_counters":           other,
			"parts":                    partDesc,
			"components_real":          keys(realSet),
			"components_stub":          keys(stubSet),
			"known_findings_hit":       tot.Known,
			"workers":                  nw,
			"budget_s":                 budget,
		},
	}
	if c.Assumptions == nil {
		ev["assumptions"] = []string{}
	}
	b, _ := json.MarshalIndent(ev, "", " ")
	evPath := filepath.Join(VerifDir, "evidence", prop+".json")
	if err := os.WriteFile(evPath, b, 0o644); err != nil {
		fmt.Fprintln(os.Stderr, err)
		return 2
	}
	fmt.Printf("runs=%d nontrivial=%d distinct=%d states=%d ticks=%d wall=%.1fs violations=%d evidence=%s\n",
		tot.Runs, tot.Nontrivial, len(sigs), len(states), tot.SimTicks, wall, unknownV, evPath)
	if unknownV > 0 {
		return 1
	}
	if infra {
		fmt.Fprintln(os.Stderr, "infrastructure error (exit 2)")
		return 2
	}
	if tot.Runs == 0 || len(sigs) < 2 {
		fmt.Fprintln(os.Stderr, "no coverage achieved (exit 2)")
		return 2
	}
	return 0
}

func uniq(in []string) []string {
	seen := map[string]bool{}
	var out []string
	for _, s := range in {
		if !seen[s] {
			seen[s] = true
			out = append(out, s)
		}
	}
	return out
}

func keys(m map[string]struct{}) []string {
	out := make([]string, 0, len(m))
	for k := range m {
		out = append(out, k)
	}
	sort.Strings(out)
	return out
}

func worker(args []string) int {
	if len(args) < 7 {
		return 2
	}
	prop, tier := args[0], args[1]
	seed, _ := strconv.ParseUint(args[2], 10, 64)
	w, _ := strconv.Atoi(args[3])
	nw, _ := strconv.Atoi(args[4])
	budget, _ := strconv.ParseInt(args[5], 10, 64)
	outFile := args[6]
	c := checks[prop]
	if c == nil {
		return 2
	}
	_ = nw
	// a runaway run must not take the machine down: cap the address space
	if gb := envInt("VERIF_WORKER_AS_GB", 16); gb > 0 {
		lim := syscall.Rlimit{Cur: uint64(gb) << 30, Max: uint64(gb) << 30}
		_ = syscall.Setrlimit(syscall.RLIMIT_AS, &lim)
	}
	parts := allParts(c, tier)
	known := loadKnown()
	out := workerOut{Counters: map[string]int64{}, Known: map[string]int64{}, PartRuns: map[string]int64{}}
	start := RealNow()
	deadline := start + time.Duration(budget)*time.Second
	spent := make([]time.Duration, len(parts))
	count := make([]uint64, len(parts))
	if sc := os.Getenv("VERIF_START_COUNT"); sc != "" {
		for i, f := range strings.Split(sc, ",") {
			if i < len(count) {
				count[i], _ = strconv.ParseUint(f, 10, 64)
			}
		}
	}
	memLimit := uint64(envInt("VERIF_WORKER_MEM_MB", 900)) << 20
	doneParts := make([]bool, len(parts))
	if class := os.Getenv("VERIF_WORKER_CLASS"); class == "rt" || class == "sim" {
		for i, p := range parts {
			if sc := scenarios[p.Scenario]; sc != nil && sc.RealTime != (class == "rt") {
				doneParts[i] = true
			}
		}
	}
	sigs := map[uint64]struct{}{}
	states := map[uint64]struct{}{}
	write := func() {
		out.Sigs = out.Sigs[:0]
		for s := range sigs {
			out.Sigs = append(out.Sigs, s)
		}
		out.States = out.States[:0]
		for s := range states {
			out.States = append(out.States, s)
		}
		out.WallS = (RealNow() - start).Seconds()
		b, _ := json.Marshal(out)
		_ = os.WriteFile(outFile, b, 0o644)
	}
	for RealNow() < deadline {
		if out.Runs%8 == 7 {
			var ms runtime.MemStats
			runtime.ReadMemStats(&ms)
			if ms.HeapInuse+ms.StackInuse > memLimit {
				out.Recycle = true
				out.NextCount = count
				break
			}
		}
		// pick the part with the smallest spent/share
		best := -1
		var bestScore float64
		for i, p := range parts {
			if doneParts[i] {
				continue
			}
			sh := p.Share
			if sh <= 0 {
				sh = 1
			}
			score := float64(spent[i]) / float64(sh)
			if best < 0 || score < bestScore {
				best, bestScore = i, score
			}
		}
		if best < 0 {
			break
		}
		p := parts[best]
		sc := scenarios[p.Scenario]
		if sc == nil {
			out.Infra = append(out.Infra, "unknown scenario "+p.Scenario)
			write()
			return 2
		}
		// run index space is partitioned over workers: i = w + k*nw
		idx := uint64(w) + count[best]*uint64(nw)
		count[best]++
		if p.MaxRuns > 0 && idx >= uint64(p.MaxRuns) {
			doneParts[best] = true
			continue
		}
		runSeed := choice.Mix(seed, uint64(best), idx)
		params := withIndex(p.Params, idx)
		src := choice.FromSeed(runSeed)
		_ = os.WriteFile(outFile+".cur", []byte(fmt.Sprintf("scenario=%s params=%s run_seed=%d", p.Scenario, ParamString(params), runSeed)), 0o644)
		t0 := RealNow()
		res, infra := ExecRun(sc, params, prop, src, false)
		spent[best] += RealNow() - t0
		if d := RealNow() - t0; d > 5*time.Second {
			fmt.Fprintf(os.Stderr, "slow run: scenario=%s params=%s run_seed=%d took %.1fs (%d draws)\n", p.Scenario, ParamString(params), runSeed, d.Seconds(), src.Len())
		}
		key := p.Scenario + "{" + ParamString(p.Params) + "}"
		out.PartRuns[key]++
		out.Runs++
		out.Draws += int64(src.Len())
		if infra != nil {
			out.Infra = append(out.Infra, fmt.Sprintf("scenario=%s seed=%d: %v", p.Scenario, runSeed, infra))
			write()
			return 2
		}
		out.SimTicks += res.SimTicks
		out.Events += res.Events
		for k, v := range res.Counters {
			out.Counters[k] += v
		}
		if res.Nontrivial {
			out.Nontrivial++
			sigs[res.Sig] = struct{}{}
		}
		for _, s := range res.States {
			if len(states) < 2000000 {
				states[s] = struct{}{}
			}
		}
		if len(out.Samples) < 3 && res.Nontrivial {
			out.Samples = append(out.Samples, sample{Scenario: p.Scenario, Params: ParamString(p.Params), Seed: runSeed, Summary: res.Summary})
		}
		if len(res.Violations) > 0 {
			v := res.Violations[0]
			if kf := matchKnown(known, v); kf != nil {
				out.Known[kf.What]++
				continue
			}
			// shrink + replay file
			fv := foundViolation{Violation: v, Scenario: p.Scenario, Seed: runSeed}
			sb := 10 * time.Second
			if tier == "thorough" {
				sb = 20 * time.Second
			}
			fv.Replay = shrinkAndWrite(sc, p, params, prop, seed, runSeed, src, v, sb)
			out.Violations = append(out.Violations, fv)
			write()
			return 0
		}
	}
	write()
	return 0
}

// withIndex adds the run index as parameter "_i" (enumerating scenarios use
// it to walk a finite space exhaustively; others ignore it).
func withIndex(p map[string]string, idx uint64) map[string]string {
	q := make(map[string]string, len(p)+1)
	for k, v := range p {
		q[k] = v
	}
	q["_i"] = strconv.FormatUint(idx, 10)
	return q
}

func shrinkAndWrite(sc *Scenario, p Part, params map[string]string, prop string, batchSeed, runSeed uint64,
	src *choice.Source, v Violation, budget time.Duration) string {
	tape := src.Tape()
	aux := src.Aux
	test := func(t []uint32) (bool, int) {
		s := choice.FromTape(t, aux)
		res, infra := ExecRun(sc, params, prop, s, false)
		if infra != nil || len(res.Violations) == 0 {
			return false, 0
		}
		if res.Violations[0].Class() != v.Class() {
			return false, 0
		}
		return true, s.Len()
	}
	// sanity: the unshrunk tape must reproduce (determinism)
	ok, _ := test(tape)
	final := tape
	var st shrink.Stats
	if ok {
		final, st = shrink.Shrink(tape, test, budget, 4000)
	}
	// final traced execution
	s := choice.FromTape(final, aux)
	res, _ := ExecRun(sc, params, prop, s, true)
	rf := ReplayFile{Property: v.Property, Scenario: sc.Name, Params: params, RunSeed: runSeed, BatchSeed: batchSeed,
		Aux: aux, Oracle: v.Oracle, Detail: v.Detail, Tape: final, OrigLen: len(tape), Shrink: st,
		GoVersion: runtime.Version()}
	if res != nil {
		rf.TraceHash = res.TraceHash
		tr := res.Trace
		if len(tr) > 3000 {
			tr = append([]string{fmt.Sprintf("... %d earlier lines omitted ...", len(tr)-3000)}, tr[len(tr)-3000:]...)
		}
		rf.Trace = tr
		if len(res.Violations) > 0 {
			rf.Detail = res.Violations[0].Detail
		}
	}
	if !ok {
		rf.Detail = "NON-DETERMINISTIC: original tape did not reproduce; " + rf.Detail
	}
	for _, x := range final {
		if x != 0 {
			rf.NonZero++
		}
	}
	name := fmt.Sprintf("%s-%s-%d.json", v.Property, strings.ReplaceAll(sc.Name, "/", "_"), runSeed)
	path := filepath.Join(VerifDir, "replays", name)
	b, _ := json.MarshalIndent(rf, "", " ")
	_ = os.WriteFile(path, b, 0o644)
	return path
}

func replay(path string) int {
	b, err := os.ReadFile(path)
	if err != nil {
		fmt.Fprintln(os.Stderr, err)
		return 2
	}
	var rf ReplayFile
	if err := json.Unmarshal(b, &rf); err != nil {
		fmt.Fprintln(os.Stderr, err)
		return 2
	}
	sc := scenarios[rf.Scenario]
	if sc == nil {
		fmt.Fprintln(os.Stderr, "unknown scenario", rf.Scenario)
		return 2
	}
	s := choice.FromTape(rf.Tape, rf.Aux)
	if os.Getenv("VERIF_ALLVIO") != "" {
		// debugging aid: let the oracles of every property speak
		res, _ := ExecRun(sc, rf.Params, "", s, false)
		if res != nil {
			for _, v := range res.Violations {
				fmt.Printf("allvio %s/%s %s\n", v.Property, v.Oracle, v.Detail)
			}
		}
		return 0
	}
	res, infra := ExecRun(sc, rf.Params, rf.Property, s, true)
	if infra != nil {
		fmt.Fprintln(os.Stderr, "INFRA:", infra)
		return 2
	}
	if os.Getenv("VERIF_TRACE") != "" {
		for _, l := range res.Trace {
			fmt.Println(l)
		}
	}
	for _, v := range res.Violations {
		if v.Property == rf.Property && v.Oracle == rf.Oracle {
			fmt.Printf("VIOLATION property=%s replay=%s\n", v.Property, path)
			fmt.Printf("  oracle=%s detail=%s\n", v.Oracle, v.Detail)
			if res.TraceHash != rf.TraceHash {
				fmt.Printf("  note: trace hash differs from recording (%x vs %x): the code changed or replay diverged\n", res.TraceHash, rf.TraceHash)
			}
			return 1
		}
	}
	if res.TraceHash != rf.TraceHash {
		fmt.Printf("no violation on replay; the execution differs from the recording (the code under test changed since it was recorded)\n")
		return 0
	}
	fmt.Println("replay followed the recorded trace but no violation was reported")
	return 0
}

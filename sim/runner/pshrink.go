package runner

import (
	"bufio"
	"encoding/json"
	"fmt"
	"io"
	"os"
	"os/exec"
	"runtime"
	"strings"
	"sync"
	"syscall"
	"time"

	"github.com/lni/dragonboat/v4/verifsim/choice"
)

// evalServer: `simcheck evalserver <replay file>` reads candidate tapes (one
// JSON array per line) from stdin and answers "1 <draws used>" when the same
// violation class is reproduced, "0 0" otherwise.
func evalServer(path string) int {
	b, err := os.ReadFile(path)
	if err != nil {
		return 2
	}
	var rf ReplayFile
	if err := json.Unmarshal(b, &rf); err != nil {
		return 2
	}
	sc := scenarios[rf.Scenario]
	if sc == nil {
		return 2
	}
	in := bufio.NewReaderSize(os.Stdin, 1<<20)
	out := bufio.NewWriter(os.Stdout)
	for {
		line, err := in.ReadBytes('\n')
		if len(line) > 0 {
			var tape []uint32
			if json.Unmarshal(line, &tape) == nil {
				s := choice.FromTape(tape, rf.Aux)
				res, infra := ExecRun(sc, rf.Params, rf.Property, s, false)
				same := false
				if infra == nil && res != nil {
					want := Violation{Property: rf.Property, Oracle: rf.Oracle, Detail: rf.Detail}.Class()
					for _, v := range res.Violations[:min(1, len(res.Violations))] {
						if v.Class() == want {
							same = true
						}
					}
				}
				if same {
					fmt.Fprintf(out, "1 %d\n", s.Len())
				} else {
					fmt.Fprintf(out, "0 0\n")
				}
				out.Flush()
			}
		}
		if err != nil {
			return 0
		}
	}
}

type evaluator struct {
	cmd *exec.Cmd
	in  io.WriteCloser
	out *bufio.Reader
}

func (e *evaluator) eval(tape []uint32) (bool, int) {
	b, _ := json.Marshal(tape)
	if _, err := e.in.Write(append(b, '\n')); err != nil {
		return false, 0
	}
	line, err := e.out.ReadString('\n')
	if err != nil {
		return false, 0
	}
	var ok, used int
	fmt.Sscanf(strings.TrimSpace(line), "%d %d", &ok, &used)
	return ok == 1, used
}

// parallelShrink minimises the tape of a replay file with several evaluator
// processes and rewrites the file (tape, trace, detail).
func parallelShrink(path string, budget time.Duration) {
	b, err := os.ReadFile(path)
	if err != nil {
		return
	}
	var rf ReplayFile
	if json.Unmarshal(b, &rf) != nil || len(rf.Tape) == 0 || strings.HasPrefix(rf.Detail, "NON-DETERMINISTIC") {
		return
	}
	n := runtime.NumCPU()
	if n > 16 {
		n = 16
	}
	var evs []*evaluator
	for i := 0; i < n; i++ {
		bin := SimBinary()
		if realTimeOnly([]string{"evalserver", path}) {
			if p, err := os.Executable(); err == nil {
				bin = p
			}
		}
		cmd := exec.Command(bin, "evalserver", path)
		cmd.Env = append(os.Environ(), "GOMAXPROCS=1")
		cmd.SysProcAttr = &syscall.SysProcAttr{Pdeathsig: syscall.SIGKILL}
		in, err1 := cmd.StdinPipe()
		out, err2 := cmd.StdoutPipe()
		if err1 != nil || err2 != nil || cmd.Start() != nil {
			continue
		}
		evs = append(evs, &evaluator{cmd: cmd, in: in, out: bufio.NewReaderSize(out, 1<<16)})
	}
	defer func() {
		for _, e := range evs {
			e.in.Close()
			_ = e.cmd.Process.Kill()
			_ = e.cmd.Wait()
		}
	}()
	if len(evs) == 0 {
		return
	}
	deadline := time.Now().Add(budget)
	execs := 0
	evalMany := func(cands [][]uint32) ([]bool, []int) {
		oks := make([]bool, len(cands))
		used := make([]int, len(cands))
		var wg sync.WaitGroup
		for i := range cands {
			wg.Add(1)
			go func(i int) {
				defer wg.Done()
				oks[i], used[i] = evs[i%len(evs)].eval(cands[i])
			}(i)
			if (i+1)%len(evs) == 0 {
				wg.Wait()
			}
		}
		wg.Wait()
		execs += len(cands)
		return oks, used
	}
	cur := append([]uint32(nil), rf.Tape...)
	trim := func() {
		for len(cur) > 0 && cur[len(cur)-1] == 0 {
			cur = cur[:len(cur)-1]
		}
	}
	// the current tape must reproduce in an evaluator
	if oks, used := evalMany([][]uint32{cur}); !oks[0] {
		return
	} else if used[0] > 0 && used[0] < len(cur) {
		cur = cur[:used[0]]
	}
	trim()
	improved := true
	for improved && time.Now().Before(deadline) {
		improved = false
		// zero blocks, many candidates at a time, successes merged
		for size := (len(cur) + 1) / 2; size >= 1 && time.Now().Before(deadline); size /= 2 {
			for start := 0; start < len(cur) && time.Now().Before(deadline); {
				var cands [][]uint32
				var ranges [][2]int
				for ; start < len(cur) && len(cands) < len(evs); start += size {
					end := start + size
					if end > len(cur) {
						end = len(cur)
					}
					nz := false
					for _, v := range cur[start:end] {
						if v != 0 {
							nz = true
							break
						}
					}
					if !nz {
						continue
					}
					c := append([]uint32(nil), cur...)
					for j := start; j < end; j++ {
						c[j] = 0
					}
					cands = append(cands, c)
					ranges = append(ranges, [2]int{start, end})
				}
				if len(cands) == 0 {
					continue
				}
				oks, _ := evalMany(cands)
				var good [][2]int
				for i, ok := range oks {
					if ok {
						good = append(good, ranges[i])
					}
				}
				if len(good) == 0 {
					continue
				}
				merged := append([]uint32(nil), cur...)
				for _, r := range good {
					for j := r[0]; j < r[1] && j < len(merged); j++ {
						merged[j] = 0
					}
				}
				if len(good) > 1 {
					if mo, _ := evalMany([][]uint32{merged}); !mo[0] {
						merged = append([]uint32(nil), cur...)
						for j := good[0][0]; j < good[0][1]; j++ {
							merged[j] = 0
						}
					}
				}
				cur = merged
				improved = true
			}
			if size == 1 {
				break
			}
		}
		trim()
		// delete blocks: first success of each batch
		for size := (len(cur) + 1) / 2; size >= 1 && time.Now().Before(deadline); size /= 2 {
			for start := 0; start+size <= len(cur) && time.Now().Before(deadline); {
				var cands [][]uint32
				var starts []int
				for s2 := start; s2+size <= len(cur) && len(cands) < len(evs); s2 += size {
					c := append([]uint32(nil), cur[:s2]...)
					c = append(c, cur[s2+size:]...)
					cands = append(cands, c)
					starts = append(starts, s2)
				}
				if len(cands) == 0 {
					break
				}
				oks, used := evalMany(cands)
				applied := false
				for i, ok := range oks {
					if ok {
						cur = cands[i]
						if used[i] > 0 && used[i] < len(cur) {
							cur = cur[:used[i]]
						}
						start = starts[i]
						applied, improved = true, true
						break
					}
				}
				if !applied {
					start = starts[len(starts)-1] + size
				}
			}
			if size == 1 {
				break
			}
		}
		trim()
	}
	// final traced execution in this process
	sc := scenarios[rf.Scenario]
	if sc == nil {
		return
	}
	s := choice.FromTape(cur, rf.Aux)
	res, infra := ExecRun(sc, rf.Params, rf.Property, s, true)
	if infra != nil || res == nil {
		return
	}
	found := false
	want := Violation{Property: rf.Property, Oracle: rf.Oracle, Detail: rf.Detail}.Class()
	for _, v := range res.Violations {
		if v.Class() == want {
			rf.Detail = v.Detail
			found = true
			break
		}
	}
	if !found {
		return // keep the unshrunk file
	}
	rf.Shrink.Execs += execs
	rf.Shrink.To = len(cur)
	rf.Tape = cur
	rf.NonZero = 0
	for _, x := range cur {
		if x != 0 {
			rf.NonZero++
		}
	}
	rf.Shrink.NonZero = rf.NonZero
	rf.TraceHash = res.TraceHash
	tr := res.Trace
	if len(tr) > 3000 {
		tr = append([]string{fmt.Sprintf("... %d earlier lines omitted ...", len(tr)-3000)}, tr[len(tr)-3000:]...)
	}
	rf.Trace = tr
	nb, _ := json.MarshalIndent(rf, "", " ")
	_ = os.WriteFile(path, nb, 0o644)
}

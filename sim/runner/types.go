// Package runner is the batch driver shared by all simulators: it fans runs
// out over worker processes, shrinks failures, writes replay files and the
// evidence file, and applies the known-findings list.
package runner

import (
	"fmt"
	"sort"
	"strings"

	"github.com/lni/dragonboat/v4/verifsim/choice"
)

// PreRun functions are called with the run's aux seed before every run of
// every scenario: they reset the process wide sources of nondeterminism of the
// code under test (random sources, clocks that end up in data).
var PreRun []func(aux uint64)

// Violation is one oracle firing.
type Violation struct {
	Property string `json:"property"`
	Oracle   string `json:"oracle"`
	Detail   string `json:"detail"`
}

func (v Violation) Class() string {
	// an oracle may tag the detail with the cause it diagnosed ("cause=<tag>:");
	// shrinking must not drift from one cause to another (a known finding has a
	// cause tag, an unexplained failure of the same oracle has none)
	c := v.Property + "/" + v.Oracle
	if i := strings.Index(v.Detail, "cause="); i >= 0 {
		j := i + len("cause=")
		k := j
		for k < len(v.Detail) && (v.Detail[k] == '-' || v.Detail[k] >= 'a' && v.Detail[k] <= 'z' || v.Detail[k] >= '0' && v.Detail[k] <= '9') {
			k++
		}
		c += "/" + v.Detail[j:k]
	}
	return c
}

// Result is what one simulated run reports.
type Result struct {
	Violations []Violation
	Counters   map[string]int64 // fault.*, probe.*, ev.* (measured, fired not configured)
	Sig        uint64           // signature of the run (for distinctness)
	States     []uint64         // abstract state hashes reached (may be nil)
	Nontrivial bool             // by the scenario's stated rule
	Summary    string           // one line
	Trace      []string         // event trace when Ctx.Tracing
	TraceHash  uint64           // always computed; used by the determinism self test
	SimTicks   int64
	Events     int64
}

// Ctx is handed to a scenario for one run.
type Ctx struct {
	Src      *choice.Source
	Tracing  bool
	Params   map[string]string
	Property string // the property whose check is running ("" = all oracles)
	res      *Result
	thash    uint64
}

// NewCtx makes a context.
func NewCtx(src *choice.Source, params map[string]string, property string, tracing bool) *Ctx {
	return &Ctx{Src: src, Tracing: tracing, Params: params, Property: property,
		res: &Result{Counters: map[string]int64{}}, thash: 1469598103934665603}
}

// Param returns a parameter or a default.
func (c *Ctx) Param(k, def string) string {
	if v, ok := c.Params[k]; ok {
		return v
	}
	return def
}

// Count adds to a counter.
func (c *Ctx) Count(name string, n int64) { c.res.Counters[name] += n }

// Ev mixes an event into the trace hash (cheap, always on) and, when tracing,
// formats it into the trace. Never draws, never reads a clock.
func (c *Ctx) Ev(kind string, args ...uint64) {
	h := c.thash
	for i := 0; i < len(kind); i++ {
		h = (h ^ uint64(kind[i])) * 1099511628211
	}
	for _, a := range args {
		h = (h ^ a) * 1099511628211
		h ^= h >> 29
	}
	c.thash = h
	c.res.Events++
	if c.Tracing {
		l := fmt.Sprintf("%06d %s %v", c.res.Events, kind, args)
		if Live {
			fmt.Println(l)
		} else {
			c.res.Trace = append(c.res.Trace, l)
		}
	}
}

// Live makes tracing print immediately instead of collecting (debugging).
var Live = false

// Tracef adds a free form trace line (only when tracing; does not enter the hash).
func (c *Ctx) Tracef(format string, args ...interface{}) {
	if c.Tracing {
		if Live {
			fmt.Printf("       "+format+"\n", args...)
			return
		}
		c.res.Trace = append(c.res.Trace, fmt.Sprintf("       "+format, args...))
	}
}

// Violate records a violation. Wanted reports whether the oracle's property
// is the one being checked (oracles of other properties stay silent so that a
// check only ever speaks for its own property).
func (c *Ctx) Violate(property, oracle, format string, args ...interface{}) {
	if c.Property != "" && property != c.Property {
		c.res.Counters["othervio."+property+"/"+oracle]++
		return
	}
	if len(c.res.Violations) < 8 {
		c.res.Violations = append(c.res.Violations, Violation{Property: property, Oracle: oracle,
			Detail: fmt.Sprintf(format, args...)})
	}
}

// Violated reports whether a violation has been recorded.
func (c *Ctx) Violated() bool { return len(c.res.Violations) > 0 }

// State records an abstract state hash.
func (c *Ctx) State(h uint64) {
	if len(c.res.States) < 4096 {
		c.res.States = append(c.res.States, h)
	}
}

// Finish completes the result.
func (c *Ctx) Finish(nontrivial bool, sig uint64, simTicks int64, summary string) *Result {
	c.res.Nontrivial = nontrivial
	c.res.Sig = sig
	c.res.SimTicks = simTicks
	c.res.Summary = summary
	c.res.TraceHash = c.thash
	return c.res
}

// Res gives access to the result under construction.
func (c *Ctx) Res() *Result { return c.res }

// Scenario is one simulator configuration family.
type Scenario struct {
	Name string
	Real []string // components running shipped code
	Stub []string // components replaced by the simulator
	Rule string   // how cases are generated and what makes one non-trivial/distinct
	// RealTime scenarios are executed by the driver binary itself (ordinary Go
	// runtime) and not by the faketime simulation binary: single-goroutine
	// component simulators whose code under test starts free-running background
	// goroutines with tickers (Pebble), which under faketime fire whenever the
	// main goroutine waits.
	RealTime bool
	Run      func(*Ctx) *Result
}

// Part is one scenario + parameters inside a check.
type Part struct {
	Scenario string
	Params   map[string]string
	Share    int // relative share of the time budget
	MaxRuns  int // 0 = unlimited (deadline bound)
}

// Check is the definition of one property's check.
type Check struct {
	Property      string
	Level         string // exploration | fault_enumeration
	QuickBudgetS  int
	ThoroughS     int
	Parts         []Part
	Assumptions   []string
	ThoroughParts []Part // optional extra parts only in thorough tier
}

var scenarios = map[string]*Scenario{}
var checks = map[string]*Check{}

// RegisterScenario registers a scenario.
func RegisterScenario(s *Scenario) {
	if _, ok := scenarios[s.Name]; ok {
		panic("duplicate scenario " + s.Name)
	}
	scenarios[s.Name] = s
}

// RegisterCheck registers a check.
func RegisterCheck(c *Check) {
	if _, ok := checks[c.Property]; ok {
		panic("duplicate check " + c.Property)
	}
	checks[c.Property] = c
}

// Checks lists the registered property ids.
func Checks() []string {
	var out []string
	for k := range checks {
		out = append(out, k)
	}
	sort.Strings(out)
	return out
}

// ParamString renders params deterministically.
func ParamString(p map[string]string) string {
	keys := make([]string, 0, len(p))
	for k := range p {
		keys = append(keys, k)
	}
	sort.Strings(keys)
	s := ""
	for _, k := range keys {
		if s != "" {
			s += ","
		}
		s += k + "=" + p[k]
	}
	return s
}

//go:build !faketime

package runner

const Faketime = false

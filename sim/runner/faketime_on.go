//go:build faketime

package runner

import (
	"os"
	"runtime"
	"syscall"
)

// Faketime reports whether this binary was built with the runtime's faketime
// tag (the simulation binary).
const Faketime = true

// the original descriptor objects stay referenced: a collected *os.File closes
// its descriptor, and the next file opened would be given fd 1 or 2
var keepStdout, keepStderr = os.Stdout, os.Stderr

func init() {
	// one P: which of two runnable goroutines runs first is then decided by the
	// Go scheduler's run queue alone (no parallelism, and under faketime no
	// time slice preemption), whatever GOMAXPROCS says
	runtime.GOMAXPROCS(1)
	// the faketime runtime frames every write to fd 1 and 2 with a playback
	// header; other descriptors are written as they are
	if fd, err := syscall.Dup(1); err == nil {
		os.Stdout = os.NewFile(uintptr(fd), "/dev/stdout")
	}
	if fd, err := syscall.Dup(2); err == nil {
		os.Stderr = os.NewFile(uintptr(fd), "/dev/stderr")
	}
}

package runner

import (
	"time"

	"github.com/lni/dragonboat/v4/verifsim/realclock"
)

// RealNow is the machine's monotonic clock (see package realclock).
func RealNow() time.Duration { return realclock.Now() }

#!/bin/bash
# usage: tools/takeseed.sh <id> <check>   confirm a sub-agent's change in /tmp/seed-<id>, keep it under seeded/<id>, try it
id=$1; chk=$2
tools/confirmseed.sh $id 2>&1 | tail -5
mkdir -p seeded/$id
git -C /tmp/seed-$id diff -- . ':!*seed_demo*' > seeded/$id/patch.diff
for f in $(git -C /tmp/seed-$id ls-files --others --exclude-standard | grep seed_demo); do
  cp /tmp/seed-$id/$f seeded/$id/$(echo $f | tr '/' '_')
done
echo "##### seed $id"
VERIF_WORKERS=${VERIF_WORKERS:-8} tools/tryseed2.sh seeded/$id/patch.diff ${BUDGET:-120} $chk

#!/bin/bash
# usage: tools/confirmseed.sh <id>   (worktree /tmp/seed-<id> with the change applied and a *seed_demo* test)
id=$1; wt=/tmp/seed-$id
export GOFLAGS=-mod=mod GOPROXY=off GOSUMDB=off GOTOOLCHAIN=local
cd $wt || exit 2
demo=$(git ls-files --others --exclude-standard | grep seed_demo | head -1)
pkg=./$(dirname $demo)
git diff -- . ':!*seed_demo*' > /tmp/confirm-$id.patch
echo "[$id] demo=$demo pkg=$pkg patch lines=$(wc -l < /tmp/confirm-$id.patch)"
go build ./... || { echo "[$id] BUILD FAILED"; exit 1; }
with=$(timeout 900 unshare -n sh -c "ip link set lo up; go test -count=1 -run 'SeedDemo' $pkg" 2>&1 | tail -1)
git apply -R /tmp/confirm-$id.patch
without=$(timeout 900 unshare -n sh -c "ip link set lo up; go test -count=1 -run 'SeedDemo' $pkg" 2>&1 | tail -1)
git apply /tmp/confirm-$id.patch
echo "[$id] demo WITH change:    $with"
echo "[$id] demo WITHOUT change: $without"
if [ "$pkg" = "./." ]; then
  suite=$(timeout 3000 unshare -n sh -c "ip link set lo up; go test -count=1 -skip 'SeedDemo' ." 2>&1 | tail -1)
else
  suite=$(timeout 1500 unshare -n sh -c "ip link set lo up; go test -count=1 -skip 'SeedDemo' $pkg" 2>&1 | tail -1)
fi
echo "[$id] existing tests of $pkg with change: $suite"

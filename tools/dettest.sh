#!/bin/bash
# usage: tools/dettest.sh [seeds_per_set]   Determinism self-test: every parameter set below is run for the same
# seeds in several separate processes (in parallel, so under load); the outputs (seed, trace hash, draws,
# events, violations per run) must be byte-identical. Prints one line per set; exit 1 on any difference.
cd "$(dirname "$0")/.." || exit 2
n=${1:-60}
bin/check --build || exit 2
sets=(
 "simhost|"
 "simhost|tanlog=2048,pcrash=10,torn=1,fsyield=300"
 "simhost|pmember=20,hosts=5,ptransfer=15"
 "simhost|sm=3,snapshot=5,overhead=0,ppartition=12,pcrash=8,fsyield=300"
 "simhost|sessions=1,lru=2,timeout=30,pdrop=10,engyield=400,pstop=8"
 "simhost|hosts=4,voters=3,memberbias=1,pmember=20,ppartition=15,groupsplit=60,partialheal=60,holdcut=1"
 "simhost|pstall=3,stalllen=200,tickskew=1,phold=300,holdlen=300,smyield=400,engyield=300,finalreads=1"
 "simhost|pmember=30,hosts=5,voters=3,snapshot=5,overhead=0,ccwindow=80,holdlen=800,smyield=100,election=5,ppartition=8,pheal=3,checkquorum=0,prevote=0"
 "simhost|sm=3,hosts=3,snapshot=25,overhead=0,syncinterval=10,smyield=600,pcrash=12,prestart=100,replaywindow=60"
 "simhost|ballast=1,snapworkers=1,smyield=600,pstop=25,prestart=80,psnapreq=40,snapshot=5,overhead=0,phold=400,holdlen=300,pcrash=2,steps=2500"
 "simhost|ballast=1,snapworkers=1,snapshot=5,overhead=0,psnapreq=20,smyield=300,fsyield=200,pcrash=10,pstop=6,ppartition=8,ops=40"
 "simhost/import|pmember=12,hosts=5"
 "l0/logstore|" "l0/snapio|" "l0/chunks|" "l0/entrylog|" "l0/frames|" "l0/pending|" "l0/rsmtwin|"
)
bad=0
tmp=$(mktemp -d)
for s in "${sets[@]}"; do
  sc=${s%%|*}; pa=${s#*|}
  for r in a b c; do ( timeout 3000 bin/simcheck dethash "$sc" "$pa" 500 "$n" > "$tmp/$r.out" 2>&1 ) & done
  wait
  if cmp -s "$tmp/a.out" "$tmp/b.out" && cmp -s "$tmp/a.out" "$tmp/c.out" && [ "$(grep -c . "$tmp/a.out")" -ge "$n" ]; then
    echo "identical  $sc {$pa}: $n seeds x 3 processes, $(md5sum < "$tmp/a.out" | cut -c1-12)"
  else
    echo "DIFFERENT  $sc {$pa}"; diff "$tmp/a.out" "$tmp/b.out" | head -4; bad=1
  fi
done
rm -rf "$tmp"
exit $bad

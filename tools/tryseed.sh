#!/bin/bash
# usage: tools/tryseed.sh <patch.diff> <budget_s> <check> [<check>...]
# applies a seeded change to /repo, runs the given checks, reverts. Prints one line per check.
patch=$(realpath $1); budget=$2; shift 2
cd /verif || exit 2
if ! git -C /repo diff --quiet; then echo "/repo has uncommitted changes to tracked files; refusing"; exit 2; fi
git -C /repo apply "$(realpath $patch)" || { echo "patch does not apply"; exit 2; }
trap 'git -C /repo checkout -- . ' EXIT
for c in "$@"; do
  out=$(VERIF_BUDGET_S=$budget timeout $((budget*4+300)) bin/check $c quick 2>&1)
  code=$?
  echo "== $c exit=$code $(echo "$out" | grep -c '^VIOLATION') violation lines"
  echo "$out" | grep -A1 '^VIOLATION' | head -6 | cut -c1-400
  echo "$out" | grep "^KNOWN-FINDING" | cut -c1-120
  echo "$out" | tail -1 | cut -c1-200
done

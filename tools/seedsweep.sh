#!/bin/bash
# usage: tools/seedsweep.sh <seed> [tier] [workers]   runs every check with VERIF_SEED=<seed> on the current tree
seed=$1; tier=${2:-quick}; w=${3:-8}
cd "$(dirname "$0")/.." || exit 2
for i in $(seq -w 1 20); do
  c=C$i
  echo "##### $c"
  VERIF_SEED=$seed VERIF_WORKERS=$w timeout 7200 bin/check $c $tier 2>&1 | grep -E "VIOLATION|oracle=|^runs=" | cut -c1-400
  echo "exit=${PIPESTATUS[0]}"
done

#!/bin/bash
# usage: tools/tryseed2.sh <patch.diff> <budget_s> <check> [<check>...]
# Like tryseed.sh, but in a scratch pair (/tmp/repo2 = worktree of /repo's HEAD with the change applied,
# /tmp/verif2 = copy of /verif whose go.mod points at it), so that /repo is not touched and other
# checks can run against /repo meanwhile. Removes the pair afterwards.
patch=$(realpath $1); budget=$2; shift 2
tag=$$
R=/tmp/repo2-$tag; V=/tmp/verif2-$tag
git -C /repo worktree add --detach $R HEAD -q || exit 2
trap 'git -C /repo worktree remove --force '$R'; rm -rf '$V EXIT
git -C $R apply "$patch" || { echo "patch does not apply"; exit 2; }
mkdir -p $V && rsync -a --exclude work --exclude replays --exclude .git --exclude 'bin/simcheck*' /verif/ $V/
sed -i "s|=> /repo|=> $R|" $V/sim/go.mod
sed -i "s|cp /repo/go.sum|cp $R/go.sum|" $V/bin/check
for c in "$@"; do
  out=$(VERIF_BUDGET_S=$budget timeout $((budget*4+600)) $V/bin/check $c quick 2>&1)
  code=$?
  echo "== $c exit=$code $(echo "$out" | grep -c '^VIOLATION') violation lines"
  echo "$out" | grep -A1 '^VIOLATION' | head -6 | cut -c1-400
  echo "$out" | grep "^KNOWN-FINDING" | cut -c1-120
  echo "$out" | tail -1 | cut -c1-200
done

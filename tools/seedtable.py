#!/usr/bin/env python3
# prints the markdown table of seeded changes from seeded/*/meta.json (for DESIGN.md A.6)
import json,glob,os
rows=[]
for f in sorted(glob.glob('/verif/seeded/*/meta.json')):
    d=json.load(open(f)); sid=os.path.basename(os.path.dirname(f))
    rows.append((sid,d))
print('| change | breaks | site | needs | caught by |')
print('|---|---|---|---|---|')
for sid,d in rows:
    esc=lambda x: str(x).replace('|','\\|').replace('\n',' ')
    print(f"| {sid} | {esc(d.get('breaks'))} | {esc(d.get('file'))} | {esc(d.get('needs'))} | {esc(d.get('caught_by'))} |")

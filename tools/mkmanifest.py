#!/usr/bin/env python3
"""Regenerates /verif/MANIFEST.json from the table below (run after adding a check)."""
import json, subprocess
props=[json.loads(l)['id'] for l in open('/verif/properties.jsonl')]
SIMHOST="deterministic whole-system simulation (real NodeHosts, seeded task scheduler over parked goroutines, Go faketime runtime, SimFS/SimNet fault injection, seeded search with shrinking and exact replay)"
L0="deterministic component simulation against a reference model with fault injection"
checks={
 "C01":("exploration","simhost","porcupine linearizability check of the recorded client history (writes/ReadIndex+ReadLocalNode on any replica) under loss, delay, reordering, partitions, transfers, crash+restart; no duplication", SIMHOST+" + porcupine"),
 "C02":("exploration","simhost","every entry delivered to any user state machine is compared with what any other replica applied at that index; gap-free increasing apply order; equal state at equal applied index; no two replicas hold different entries (terms) at an index both have durably committed; the code's own log/apply invariant panics are violations; shapes incl. a single voter with non-voting members and crashes biased into file system operations", SIMHOST),
 "C03":("exploration","simhost","leader per term ghost from white-box role peeks after every event; one vote per term across restarts from the frames that leave each replica (incl. votes visible before they are durable); a new leader must have the votes of a majority of its voters and witnesses, and the members of the membership its own state machine has applied that did not vote for it must not be a quorum of that membership; no campaign while a committed membership change is unapplied; faults aimed at membership changes and snapshot installs (held tasks, cut links)", SIMHOST),
 "C04":("exploration","simhost","every frame leaving a replica is checked against the durable shadow recorded when SaveRaftState returned; after crash+restart the recovered term/vote/last index are compared with what had been promised; restart must succeed", SIMHOST),
 "C05":("exploration","simhost","clients use registered sessions and retry timed-out proposals with the same series id on any replica under loss/duplication/leader changes/snapshots/restarts with a small session LRU; every write id must reach each state machine incarnation at most once, retries that complete must carry the result of that application, unregistered/evicted sessions must be Rejected and never applied", SIMHOST),
 "C06":("exploration","simhost","at the moment a ReadIndex completes on any replica its local applied index must be at least the highest durably backed commit index any replica had when the request was issued (ghost, monotone); a completed read must return a version >= that of every write of the key acknowledged before the read was invoked; under duplication/reordering/partitions (pairwise and group splits)/transfers/membership changes incl. shapes with non-voting members", SIMHOST),
 "C07":("exploration","simhost","membership observed per ConfigChangeId must be identical on all replicas and obey the stated rules; invalid requests must not complete; stale ordered ids must be rejected; on an idle replica the raft core's voters/non-voting members/witnesses equal the applied membership", SIMHOST),
 "C08":("exploration","simhost","frequent snapshots with small compaction overhead, lagging followers caught up through real chunk transfer, restarts from own snapshots, all three SM kinds, compression on/off: replicas that applied the same index must hold the same state, restart after any crash must succeed (no gap after compaction)", SIMHOST),
 "C09":("exploration","l0","real Tan (regular, multiplexed) and sharded Pebble (plain, batched) over SimFS driven with tape-chosen save/overwrite/compaction/removal/import/reopen sequences over several replicas sharing a store, every query compared with a reference store written from the ILogDB contract", L0),
 "C10":("fault_enumeration","l0","same harness with a crash (all unsynced data lost, optional torn prefix) or an I/O error at a tape-chosen or enumerated file-system operation / KV call of a save, compaction, rollover or import: acknowledged saves must be readable after reopen, the interrupted save all-or-nothing per replica, a failed write never reported as success", L0),
 "C11":("exploration","simhost","instrumented state machines of the three kinds park inside their methods so that overlapping calls are observed; index order, no call after Close, on-disk Open index; one part runs a second (ballast) shard per host that keeps the only snapshot worker busy so that jobs of stopped and restarted incarnations queue", SIMHOST),
 "C12":("exploration","simhost","every accepted request is watched for exactly one terminal result, truthful Completed value, expiry in the fair phase; component model of the pending tables", SIMHOST+"; "+L0),
 "C13":("fault_enumeration","l0","CLAIMED IN PART: frame clause decided by enumerating bit flips/truncations of real frames; codec round trip and size bounds only on generated values", L0),
 "C14":("fault_enumeration","l0","real SnapshotWriter/Reader (v1+v2, with/without compression) over SimFS: every single-bit flip of small files and streams is enumerated, larger ones sampled; truncations, lost/repeated pieces; the ChunkWriter->SnapshotValidator stream side; shrunk snapshots; I/O errors", L0),
 "C15":("exploration","l0","real sender side splitting -> real transport.Chunk receiver over SimFS with tape-chosen perturbations (drop, swap, duplicate, restart, interleaved senders/indexes, corrupt bytes, foreign ids, removed replica, GC tick placement, hostile file names), incl. exhaustive single perturbations of a fixed 5-chunk stream", L0),
 "C16":("exploration","simhost","crashes land between any two file system operations of snapshot save/receive/commit/compact; what a crash leaves in the snapshot directory is marked, and after the real start-up path only the recorded snapshot may remain (unflagged, file present); the replica must restart and is held to its promises (C04 ledger); one part with a second (ballast) shard per host whose snapshots occupy the only snapshot worker", SIMHOST),
 "C17":("exploration","simhost","after the fault phase (loss, partitions, crashes, restarts, membership changes, transfers, quiesce) a fair fault-free schedule in which clients keep submitting requests (in a third of the runs with a ReadIndex on every replica in every round) must produce a leader, complete fresh proposals and reads and bring every member to the commit index within a stated tick budget; failures are diagnosed (cause tag) so that the two recorded findings are told apart from anything new; one part with two shards per host sharing the engine's workers", SIMHOST),
 "C18":("exploration","simhost","replicas whose own applied membership does not list them as voters must never be candidate/leader; election and ReadIndex confirmation quorums are recomputed from the votes / echoes that actually left the voters and witnesses; a leader with CheckQuorum to which nothing but its non-voting members has been delivered for three election timeouts must have stepped down; the raft core's member sets equal the applied membership on an idle replica; witnesses never receive payloads and never serve reads; explored over cluster shapes with non-voting members and witnesses, group splits and promotions", SIMHOST),
 "C19":("exploration","l0","real entryLog+LogReader driven against a slice model of the logical log after every operation", L0),
 "C20":("exploration","simhost","seeded history, RequestSnapshot(Exported) at a random point, more history, loss of all hosts, tools.ImportSnapshot on every listed host with a tape-chosen member list (subset/fresh/single; invalid lists; damaged export directory), restart: membership must equal the list with unlisted old members removed, every replica must recover exactly the exported state, a leader must emerge and new proposals complete; refused imports must leave the disk byte-identical; simhost runs on Tan, the log store side of ImportSnapshot is additionally compared with a reference store on the Pebble layouts and Tan (l0/logstore parts) straight after the import and after the reopen", SIMHOST+"; "+L0),
}
notes={
 "C13":"the pure codec clause over all inputs is not a simulation target; only generated boundary-heavy values are exercised",
}
hook_commits=subprocess.run(['git','-C','/repo','log','--format=%H','--grep=^verif hooks'],capture_output=True,text=True).stdout.split()
m={
 "version":1,
 "setup_cmd":"bin/check --build",
 "hooks":{"guard":"verif","enable":"go build -tags verif (driver) and -tags 'verif faketime' (simulation binary); bin/check does both on every run",
   "baseline_off_cmd":"for m in $(cat /w/out/gomods.txt); do MF=$(cd /repo/$m && . /w/out/goenv.sh && gomodflag); (cd /repo/$m && go test $MF -json -vet=off -count=1 -timeout 25m ./...); done",
   "add_only":True,"source_commits":hook_commits},
 "engines":[
   {"name":"simhost","path":"sim/simhost","serves_properties":[k for k,v in checks.items() if v[1]=="simhost"],"kind_free_text":SIMHOST},
   {"name":"l0","path":"sim/l0","serves_properties":[k for k,v in checks.items() if v[1]=="l0"],"kind_free_text":L0}],
 "checks":[],
 "not_applicable":[{"property_id":p,"reason":"check still under construction in this session (not a claim of inapplicability)"} for p in props if p not in checks],
 "notes":"see DESIGN.md; known findings in known_findings.json"
}
for pid in props:
    if pid not in checks: continue
    lvl,eng,text,tech=checks[pid]
    m["checks"].append({"property_id":pid,"quick_cmd":f"bin/check {pid} quick","thorough_cmd":f"bin/check {pid} thorough",
      "evidence_file":f"evidence/{pid}.json","replay_cmd_template":"bin/check --replay {path}","engine":eng,
      "level_claimed":{"category":lvl,"text":text,"design_ref":f"DESIGN.md section 4 / {pid}"},
      "level_note":notes.get(pid,"sampling of schedules and fault sequences, not proof; worker select scaffolding, transport send queues and the disk are simulator stubs, everything they call is shipped code"),
      "technique":tech})
json.dump(m,open('/verif/MANIFEST.json','w'),indent=1)
print("claimed:",[c["property_id"] for c in m["checks"]])
